"""C01 campaigns for two input dimensions the older campaigns did not reach:

* documents given as YAML TEXT (not JSON): the generator reads JSON Schema / OpenAPI documents with a YAML loader, so
  unquoted scalars that YAML 1.1 resolves specially — ISO dates and timestamps, octal/hex/sexagesimal/underscored
  numbers, yes/no/on/off, ~, .inf/.nan — reach enum / default / examples / const as whatever the project's loader
  makes of them (`util.SafeLoader` keeps timestamps as strings);
* extra field keys (`x-…` keywords on properties) with the options field_extra_keys /
  field_extra_keys_without_x_prefix / field_include_all_keys: pydantic v1 writes them as keyword NAMES of `Field(...)`.

Oracle: C01's own (generate() returns, every written file parses; the must-succeed streams must succeed)."""
from __future__ import annotations

import time

from .. import e2e
from ..runner import Check

# unquoted YAML 1.1 scalars: (text as written in the document, what it is)
DATE_SCALARS = ["2024-01-05", "2024-06-30", "2001-12-14t21:59:43.10-05:00", "2001-12-14 21:59:43.10 -5", "2002-12-14", "1999-01-01T00:00:00Z"]
OTHER_SCALARS = ["0123", "0o14", "0x1F", "1_000", "1:30", "190:20:30", "yes", "No", "on", "OFF", "~", "null", ".inf", "-.INF", ".nan", "1e3", "+12", "0b101", "0.", "08", "12:30:45", "2024-13-45", "y", "n"]
SLOT_KEYS = ["enum", "default", "examples", "const"]
TYPES = ["string", "integer", "number", "boolean", None]


def yaml_doc(slot: str, scalars: list[str], typ: str | None, flow: bool) -> str:
    """a small object schema as YAML text with the scalars written unquoted in one slot"""
    lines = ["title: Model", "type: object", "properties:", "  p:"]
    if typ:
        lines.append(f"    type: {typ}")
    if slot == "enum":
        if flow:
            lines.append("    enum: [" + ", ".join(scalars) + "]")
        else:
            lines.append("    enum:")
            lines += [f"      - {s}" for s in scalars]
    elif slot == "default":
        lines.append(f"    default: {scalars[0]}")
    elif slot == "examples":
        lines.append("    examples: [" + ", ".join(scalars) + "]")
    elif slot == "const":
        lines.append(f"    const: {scalars[0]}")
    lines += ["  q:", "    type: string", "required: [p]"]
    return "\n".join(lines) + "\n"


def campaign_yaml_text(ck: Check, run_case, n: int) -> None:
    """`run_case` is c01.run_case (oracle + classification)"""
    camp = ck.campaign("e2e: documents as YAML text with unquoted YAML-1.1 scalars (dates, timestamps, octal/hex/sexagesimal, yes/no, ~, .inf) in enum/default/examples/const")
    t0 = time.time()
    rng = ck.rng.fork("yaml-text")
    cases = []
    # must-succeed stream: dates and timestamps in a string enum / default / examples / const are ordinary schema documents
    for slot in SLOT_KEYS:
        for model in e2e.MODEL_KINDS:
            for flow in (True, False):
                cases.append({"doc": yaml_doc(slot, DATE_SCALARS[:2], "string", flow), "model": model, "opts": {}, "clean": True})
            cases.append({"doc": yaml_doc(slot, DATE_SCALARS[2:4], None, True), "model": model, "opts": {"field_include_all_keys": True}, "clean": True})
    for _ in range(n):
        slot = rng.choice(SLOT_KEYS)
        k = rng.range(1, 3)
        pool = DATE_SCALARS + OTHER_SCALARS
        scalars = [rng.choice(pool) for _ in range(k)]
        opts = rng.choice([{}, {"field_include_all_keys": True}, {"enum_field_as_literal": "all"}, {"use_default_kwarg": True},
                           {"set_default_enum_member": True}, {"use_one_literal_as_default": True}, {"field_constraints": True}])
        cases.append({"doc": yaml_doc(slot, scalars, rng.choice(TYPES), rng.chance(1, 2)), "model": rng.choice(e2e.MODEL_KINDS),
                      "opts": dict(opts), "clean": False})
    for c in cases:
        c["input_file_type"] = "jsonschema"
        c["features"] = ["yaml_text"]
        run_case(ck, camp, c)
    camp.wall_s = time.time() - t0


# ---------------------------------------------------------------- extra field keys
EXTRA_KEYS = ["x-display-name", "x-2fa", "x-class", "x-ui.widget", "x-repr", "x-a b", "x-'q", "x-x-x"]
EXTRA_OPTION_VECTORS = [
    lambda keys: {"field_extra_keys": set(keys)},
    lambda keys: {"field_extra_keys_without_x_prefix": set(keys)},
    lambda keys: {"field_include_all_keys": True},
    lambda keys: {"field_include_all_keys": True, "field_extra_keys_without_x_prefix": set(keys)},
    lambda keys: {"field_extra_keys": set(keys[:2]), "field_extra_keys_without_x_prefix": set(keys[2:])},
]


def extras_doc(keys: list[str]) -> dict:
    prop = {"type": "string", "description": "d"}
    for i, k in enumerate(keys):
        prop[k] = [True, "text", 3, None][i % 4]
    return {"title": "Model", "type": "object", "properties": {"a": prop, "b": {"type": "integer", keys[0]: "z"}}, "required": ["a"]}


def keyword_key_groups() -> list[list[str]]:
    """extra keys that ARE identifiers for str.isidentifier but not usable as keyword names: every Python keyword (several
    are JSON Schema's own: not / if / else), the soft keywords, and their x- forms — minus the keys the JSON-Schema parser
    reads itself (those are no extras)"""
    import keyword

    from .c10_keys import schema_keywords

    known = schema_keywords()
    kws = [k for k in sorted(keyword.kwlist) + sorted(getattr(keyword, "softkwlist", [])) if k not in known]
    groups = [kws[i:i + 6] for i in range(0, len(kws), 6)]
    return groups + [["x-not", "x-class", "x-None", "x-match"], ["not", "if", "else", "x-note"]]


def campaign_field_extras(ck: Check, run_case) -> None:
    camp = ck.campaign("e2e: extra keys on properties that are no usable keyword names (x- keywords whose remainder is not an identifier; Python keywords and "
                       "soft keywords) × field_extra_keys / field_extra_keys_without_x_prefix / field_include_all_keys, all model kinds")
    t0 = time.time()
    groups = [EXTRA_KEYS[:4], EXTRA_KEYS[4:], [EXTRA_KEYS[0]], [EXTRA_KEYS[1]], [EXTRA_KEYS[2]], [EXTRA_KEYS[3]]]
    groups += keyword_key_groups()
    for keys in groups:
        for mk in EXTRA_OPTION_VECTORS:
            for model in e2e.MODEL_KINDS:
                opts = mk(keys)
                # sets are not JSON: the case is stored with sorted lists and turned back into sets for generate()
                case = {"doc": extras_doc(keys), "model": model, "opts": {k: (sorted(v) if isinstance(v, set) else v) for k, v in opts.items()},
                        "clean": True, "features": ["field_extras"], "set_opts": [k for k, v in opts.items() if isinstance(v, set)]}
                run_case(ck, camp, case)
    camp.wall_s = time.time() - t0
