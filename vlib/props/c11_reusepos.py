"""C11 — Model.ReusePos (Lean) against the POSITION bookkeeping of the real `Parser.__reuse_model`.

The pass replaces a duplicate object model IN PLACE in the module's list (`models.insert(index, subclass);
models.remove(model)`), keeps a duplicate plain type alias, and drops duplicate enums after the loop.  What stands
where afterwards decides whether every base class is written before its subclass.

Family of documents (--reuse-model): in ONE module several groups of definitions with identical bodies, of mixed
kinds — k+1 identical enums (k = 0..3), 2..3 identical object models, identical root models (arrays / scalars: a
root class for pydantic, a plain `Name = <type>` alias for dataclass / TypedDict output) — followed or preceded by
classes that inherit (allOf) from a duplicate or from the first of its group, chains of such classes, models whose
members refer to duplicates, in an order of definitions that puts the enum duplicates BEFORE the object duplicates
(and in shuffled orders).

(1) function level: the REAL JSON-Schema parser runs parse() with `Parser._Parser__reuse_model` wrapped; the model
    list before the real pass (identity, branch kind as the code decides it, rendering key) goes to the Lean driver
    (`reusepos.run`), the list after the real pass (which object stands where, and the base of every inserted
    subclass) is compared with the reply.
(2) end to end: the property's own oracle (c11_dups.dups_case: generate() returns, module parses, every definition
    bound once, bases first, import, every class usable) on a stratified sample of the family for every output kind.
(3) search (after a broken theorem / disagreement): every disagreeing document under the oracle for every output
    kind with and without keep_model_order, documents rebuilt from the disagreeing kind sequence with a subclass
    right behind every replaced model, then a large block of the family.
"""
from __future__ import annotations

import json
import time

from .. import realcall
from ..common import Hang, watchdog
from . import c11_dups, c11_repoint

REF = "#/definitions/"
KINDS = c11_dups.KINDS
LETTERS = "BDFHJLNPRT"
OUT_TYPES = {"pydantic_v2.BaseModel": "PydanticV2BaseModel", "pydantic.BaseModel": "PydanticBaseModel",
             "dataclasses.dataclass": "DataclassesDataclass", "typing.TypedDict": "TypingTypedDict"}


# ---------------------------------------------------------------------------------------------
# documents
def _enum_body(tag: str, n: int) -> dict:
    return {"type": "string", "enum": [f"v{tag}{i}" for i in range(n)]}


def _obj_body(tag: str, members=()) -> dict:
    props: dict = {"p" + tag: {"type": "integer"}, "q" + tag: {"type": "string"}}
    for nm, to in members:
        props[nm] = {"$ref": REF + to}
    return {"type": "object", "properties": props}


def _root_body(tag: str, how: str) -> dict:
    if how == "array":
        return {"type": "array", "items": {"type": "string", "maxLength": 3 + len(tag)}}
    return {"type": "string", "pattern": "^%s+$" % tag.lower()}


def gen_spec(rng, shape: str | None = None) -> dict:
    """a document of the family as data: `groups` = [(kind, [names…])] definitions with one body per group,
    `subs` = [(name, base)], `order` = definition order, `user` = where the model that refers to everything stands"""
    names = iter(rng.shuffle([a + str(d) for a in LETTERS for d in range(1, 10)]))
    shape = shape or rng.choice(["enums-then-objects", "enums-then-objects", "mixed", "roots", "chain"])
    groups: list = []
    n_enum_groups = rng.range(1, 2) if shape != "roots" else rng.below(2)
    for _ in range(n_enum_groups):
        k = rng.choice([2, 2, 3, 1, 0]) if shape != "mixed" else rng.below(4)
        groups.append(("enum", [next(names) for _ in range(k + 1)]))
    for _ in range(rng.range(1, 2)):
        groups.append(("object", [next(names) for _ in range(rng.choice([2, 2, 3, 1]))]))
    if shape in ("roots", "mixed") or rng.chance(1, 4):
        groups.append((rng.choice(["root-array", "root-scalar"]), [next(names) for _ in range(rng.range(2, 3))]))
    subs: list = []
    obj_groups = [g for g in groups if g[0] == "object"]
    for _, members in obj_groups:
        # a subclass of a DUPLICATE (the last of its group) — and sometimes of the first as well
        base = members[-1] if rng.chance(4, 5) else rng.choice(members)
        s = next(names)
        subs.append((s, base))
        if shape == "chain" or rng.chance(1, 3):
            s2 = next(names)
            subs.append((s2, s))
        if rng.chance(1, 3):
            subs.append((next(names), members[0]))
    # order of the definitions: the sorter keeps it for independent models and puts a base before its subclass
    flat = {k: [n for kind, ms in groups if kind.startswith(k) for n in ms] for k in ("enum", "object", "root")}
    how = rng.choice(["enums-first", "enums-first", "interleaved", "shuffled"]) if shape != "mixed" else rng.choice(["interleaved", "shuffled"])
    sub_names = [s for s, _ in subs]
    if how == "enums-first":
        order = flat["enum"] + (flat["root"] if rng.chance(1, 2) else []) + flat["object"] + sub_names
        order += [n for n in flat["root"] if n not in order]
    elif how == "interleaved":
        order = []
        cols = [list(ms) for _, ms in groups]
        while any(cols):
            for c in cols:
                if c:
                    order.append(c.pop(0))
        order += sub_names
    else:
        order = rng.shuffle(flat["enum"] + flat["object"] + flat["root"] + sub_names)
    user = rng.choice(["first", "last", "none", "middle"])
    return {"groups": [[k, ms] for k, ms in groups], "subs": [[s, b] for s, b in subs], "order": order, "user": user,
            "user_name": next(names), "refs_in_subs": rng.chance(1, 3), "shape": shape, "how": how}


def build_doc(spec: dict) -> dict:
    defs: dict = {}
    for gi, (kind, members) in enumerate(spec["groups"]):
        tag = f"G{gi}"
        for n in members:
            if kind == "enum":
                defs[n] = _enum_body(tag, 2 + gi % 2)
            elif kind == "object":
                defs[n] = _obj_body(tag)
            else:
                defs[n] = _root_body(tag, kind.split("-")[1])
    everything = [n for _, ms in spec["groups"] for n in ms]
    for si, (s, base) in enumerate(spec["subs"]):
        extra = [(f"r{si}", everything[(si * 3) % len(everything)])] if spec.get("refs_in_subs") else []
        defs[s] = {"allOf": [{"$ref": REF + base}, _obj_body(f"S{si}", extra)]}
    order = [n for n in spec["order"] if n in defs] + [n for n in defs if n not in spec["order"]]
    if spec["user"] != "none":
        u = _obj_body("U", [(f"m{i}", n) for i, n in enumerate(everything + [s for s, _ in spec["subs"]])])
        at = {"first": 0, "last": len(order), "middle": len(order) // 2}[spec["user"]]
        order.insert(at, spec["user_name"])
        defs[spec["user_name"]] = u
    return {"$schema": "http://json-schema.org/draft-07/schema#", "definitions": {n: defs[n] for n in order}}


def expect_of(spec: dict) -> list:
    out = []
    for kind, members in spec["groups"]:
        if kind == "enum":
            out.append(list(members))  # the duplicates are folded into one of them
        else:
            out += [[n] for n in members]
    out += [[s] for s, _ in spec["subs"]]
    if spec["user"] != "none":
        out.append([spec["user_name"]])
    return out


def spec_from_kinds(kinds: list, key_of_pos: list, names: list, replaced: list) -> dict | None:
    """a document rebuilt from a model-level case: the models of the list in their order (0 enum, 1 alias, 2 other),
    equal keys = one group, and behind every replaced model a class that inherits from it"""
    groups: dict = {}
    for i, (k, key) in enumerate(zip(kinds, key_of_pos)):
        groups.setdefault((k, key), []).append(names[i])
    gl = [["enum" if k == 0 else "root-array" if k == 1 else "object", ms] for (k, _), ms in groups.items()]
    if not any(g[0] == "object" for g in gl):
        return None
    order, subs = [], []
    for i, n in enumerate(names):
        order.append(n)
        if i in replaced:
            subs.append([f"{n}x", n])
            order.append(f"{n}x")
    return {"groups": gl, "subs": subs, "order": order, "user": "last", "user_name": "Zz9", "refs_in_subs": False, "shape": "rebuilt", "how": "rebuilt"}


# a fixed, stratified part of the family (runs first, every run): k duplicate enums before a duplicate object whose
# subclass follows it directly / after one other class, for k = 0..3; two object groups; roots in between
def corpus() -> list:
    out = []
    for k in (0, 1, 2, 3):
        enums = [f"H{i + 1}" for i in range(k + 1)]
        for tail in (["N1", "N2", "P1"], ["N1", "N2", "P1", "P2"], ["N1", "N2", "N3", "P1"]):
            objs = [n for n in tail if n.startswith("N")]
            subs = [["P1", objs[-1]]] + ([["P2", "P1"]] if "P2" in tail else [])
            out.append({"groups": [["enum", enums], ["object", objs]], "subs": subs, "order": enums + tail, "user": "last",
                        "user_name": "T9", "refs_in_subs": False, "shape": "corpus", "how": "enums-first"})
    out.append({"groups": [["enum", ["H1", "H2", "H3"]], ["enum", ["J1", "J2"]], ["object", ["N1", "N2"]], ["object", ["L1", "L2"]]],
                "subs": [["P1", "N2"], ["P2", "L2"], ["P3", "P2"]], "order": ["H1", "J1", "H2", "J2", "H3", "N1", "L1", "N2", "P1", "L2", "P2", "P3"],
                "user": "first", "user_name": "B1", "refs_in_subs": True, "shape": "corpus", "how": "interleaved"})
    out.append({"groups": [["enum", ["H1", "H2", "H3"]], ["root-array", ["R1", "R2"]], ["object", ["N1", "N2"]]],
                "subs": [["P1", "N2"]], "order": ["H1", "H2", "R1", "H3", "R2", "N1", "N2", "P1"],
                "user": "none", "user_name": "B1", "refs_in_subs": False, "shape": "corpus", "how": "enums-first"})
    return out


# ---------------------------------------------------------------------------------------------
# the real pass, observed
def branch_kind(R, m) -> int:
    """the branch the pass takes for a duplicate, as the code decides it"""
    if isinstance(m, R.Enum):
        return 0
    if not m.BASE_CLASS and not m.base_classes and m.TEMPLATE_FILE_PATH == "root.jinja2":
        return 1
    return 2


def run_real(ck, camp, R, doc: dict, kind: str, opts: dict):
    """parse() of the real parser with the pass wrapped -> list of observed calls, or None (broken correspondence)"""
    types = R.get_data_model_types(getattr(R.DataModelType, OUT_TYPES[kind]))
    P = R.JsonSchemaParser
    had_own = "_Parser__reuse_model" in vars(P)
    orig = realcall.resolve(ck, camp, P, "_Parser__reuse_model", "Parser.__reuse_model")
    if orig is None:
        return None
    calls: list = []
    broken: list = []

    def wrapped(self, *args, **kwargs):
        why = realcall.signature_accepts(lambda self, models, require_update_action_models: None, self, *args, **kwargs)
        if why is not None or not args or not isinstance(args[0], list):
            broken.append(f"Parser.__reuse_model is called with other arguments: {why}")
            return orig(self, *args, **kwargs)
        models = args[0]
        before = list(models)
        keys = [c11_repoint.key_of(m) for m in before]
        kinds = [branch_kind(R, m) for m in before]
        names = [m.reference.name or m.class_name for m in before]
        rec = {"before": before, "keys": keys, "kinds": kinds, "names": names}
        try:
            orig(self, *args, **kwargs)
        except Exception as e:  # noqa: BLE001
            rec["raised"] = f"{type(e).__name__}: {e}"
            calls.append(rec)
            raise
        rec["after"] = list(models)
        calls.append(rec)
        return None

    parser = R.JsonSchemaParser(
        json.dumps(doc), data_model_type=types.data_model, data_model_root_type=types.root_model, data_model_field_type=types.field_model,
        data_type_manager_type=types.data_type_manager, dump_resolve_reference_action=types.dump_resolve_reference_action,
        reuse_model=True, keep_model_order=bool(opts.get("keep_model_order")))
    P._Parser__reuse_model = wrapped
    try:
        with watchdog(20):
            parser.parse()
    except Hang:
        raise
    except Exception:  # noqa: BLE001  (what generate() does with the document is the end-to-end oracle's business)
        pass
    finally:
        if had_own:
            P._Parser__reuse_model = orig
        else:
            del P._Parser__reuse_model
    if broken:
        realcall._once(ck, camp, "Parser.__reuse_model(self, models, require_update_action_models)", broken[0], {"doc": doc})
        return None
    return calls


def observed_reply(call) -> str:
    """the list after the real pass in the driver's notation"""
    if "raised" in call:
        return "raise"
    before = call["before"]
    pos = {id(m): i for i, m in enumerate(before)}
    by_path = {m.reference.path: i for i, m in enumerate(before)}
    by_ref = {id(m.reference): i for i, m in enumerate(before)}
    out = []
    for m in call["after"]:
        if id(m) in pos:
            out.append("(%d -)" % pos[id(m)])
            continue
        path = m.reference.path
        src = by_path.get(path[: -len("/reuse")]) if path.endswith("/reuse") else None
        base = None
        if m.base_classes and m.base_classes[0].reference is not None:
            base = by_ref.get(id(m.base_classes[0].reference))
        out.append("(%s %s)" % ("?" if src is None else src, "?" if base is None else base))
    return "ok (" + " ".join(out) + ")"


def request_of(call) -> str:
    keyid: dict = {}
    return "reusepos.run (%s)" % " ".join("(%d %d %d)" % (i, k, keyid.setdefault(key, len(keyid))) for i, (k, key) in enumerate(zip(call["kinds"], call["keys"])))


class _Quiet:
    """dups_case counts and files its own features; the evaluations / distinct of this campaign are its own"""

    def __init__(self, camp):
        self._c = camp
        self.evaluations = 0
        self.distinct = set()
        self.samples = [None, None]
        self.unmodelled = 0

    def hit(self, key, n=1):
        if key.startswith("kind:"):
            self._c.hit("oracle " + key, n)


def campaign_reusepos(ck, n_docs: int) -> None:
    camp = ck.campaign("Model.ReusePos.pass vs Parser.__reuse_model inside the real parse(): the model list before/after (which object stands where, "
                       "base of every inserted subclass) for k duplicate enums / duplicate objects / duplicate root models with subclasses behind them; "
                       "each document also under the end-to-end oracle")
    t0 = time.time()
    rng = ck.rng.fork("reusepos")
    R = c11_repoint._real()
    quiet = _Quiet(camp)
    specs = corpus() + [gen_spec(rng) for _ in range(n_docs)]
    pending = []
    shrunk = bool(ck.failures)
    for i, spec in enumerate(specs):
        doc = build_doc(spec)
        fixed = spec["shape"] == "corpus"
        kind = KINDS[i % len(KINDS)] if fixed else rng.choice(KINDS)
        opts = {"keep_model_order": True} if (not fixed and rng.chance(1, 4)) else {}
        calls = run_real(ck, camp, R, doc, kind, opts)
        if calls is None:
            break
        for call in calls:
            if len(call["before"]) >= 2:
                pending.append((spec, doc, kind, opts, call))
        # the property's own oracle on the same document: the observed kind, and pydantic v2 for the fixed part
        for k2 in dict.fromkeys([kind] + (["pydantic_v2.BaseModel"] if fixed and i % 3 == 0 else [])):
            c11_dups.dups_case(ck, quiet, {"doc": doc, "expect": expect_of(spec), "opts": {"reuse_model": True, **opts}}, k2)
            if len(ck.failures) == 1 and not shrunk:
                shrunk = True
                c11_dups.shrink_first(ck)
    replies = ck.driver.run([request_of(c) for *_, c in pending])
    for (spec, doc, kind, opts, call), rep in zip(pending, replies):
        camp.evaluations += 1
        impl = observed_reply(call)
        kinds, keys = call["kinds"], call["keys"]
        dup = [i for i, k in enumerate(keys) if k in keys[:i]]
        n_enum = sum(1 for i in dup if kinds[i] == 0)
        n_obj = sum(1 for i in dup if kinds[i] == 2)
        n_alias = sum(1 for i in dup if kinds[i] == 1)
        camp.hit("output " + kind)
        camp.hit(f"duplicate enums in the module: {min(n_enum, 4)}")
        camp.hit(f"replaced models in the module: {min(n_obj, 3)}")
        if n_alias:
            camp.hit("duplicate plain type alias kept")
        first_obj = next((i for i in dup if kinds[i] == 2), None)
        if first_obj is not None:
            camp.hit("duplicate enums BEFORE a replaced model: %d" % min(4, sum(1 for i in dup if kinds[i] == 0 and i < first_obj)))
        if opts:
            camp.hit("keep_model_order")
        if dup:
            camp.distinct.add((tuple(kinds), tuple(keys.index(k) for k in keys)))
        if impl != rep:
            if camp.disagreements >= 12:
                camp.disagreements += 1
                continue
            stale = ck.driver.run([request_of(call).replace("reusepos.run", "reusepos.stale", 1)])[0]
            note = " (= Model.ReusePos.passStale: positions taken from the snapshot while duplicate enums are removed at once)" if stale == impl else ""
            keyid: dict = {}
            ck.disagree(camp, {"doc": doc, "kind": kind, "opts": opts, "spec": spec, "names": call["names"], "kinds": kinds,
                               "keys": [keyid.setdefault(k, len(keyid)) for k in keys]}, rep, impl + note)
        elif len(camp.samples) < 2 and n_enum >= 2 and n_obj >= 1:
            camp.samples.append({"models": call["names"], "kinds": kinds, "after": impl, "output": kind})
    camp.wall_s = time.time() - t0


def _replaced(rep: str) -> list:
    """positions (identities) that the reply shows as an inserted subclass"""
    import re

    return [int(a) for a, b in re.findall(r"\((\d+|\?) (\d+|\?|-)\)", rep) if b != "-" and a != "?"]


def search_reusepos(ck) -> None:
    """a theorem about the pass or its correspondence broke: the disagreeing documents under the property's oracle
    for every output kind, documents rebuilt from the disagreeing list with a subclass right behind every replaced
    model, then a larger block of the family"""
    broken = " ".join(sorted({d.campaign for d in ck.disagreements}) + sorted(ck.broken))
    if "ReusePos" not in broken and "reusePos" not in broken and "reuse" not in broken.lower():
        return
    if ck.failures:
        return
    camp = ck.campaign("search: several duplicates of mixed kinds in one module under --reuse-model, end to end (all output kinds, with and without keep_model_order)")
    t0 = time.time()
    rng = ck.rng.fork("search-reusepos")
    cases: list = []
    for d in ck.disagreements:
        inp = d.input if isinstance(d.input, dict) else {}
        if "spec" in inp and "kinds" in inp:
            cases.append((inp["doc"], expect_of(inp["spec"])))
            names = [f"{'EAO'[k]}{i + 1}" for i, k in enumerate(inp["kinds"])]
            for replaced in (_replaced(str(d.model)) or [i for i, k in enumerate(inp["kinds"]) if k == 2 and inp["keys"][i] in inp["keys"][:i]],):
                sp = spec_from_kinds(inp["kinds"], inp["keys"], names, replaced)
                if sp is not None:
                    cases.append((build_doc(sp), expect_of(sp)))
        if len(cases) >= 16:
            break
    for sp in corpus():
        cases.append((build_doc(sp), expect_of(sp)))
    for i in range(400):
        sp = gen_spec(rng, ("enums-then-objects", "chain", "mixed", "roots")[i % 4])
        cases.append((build_doc(sp), expect_of(sp)))
    for doc, expect in cases:
        for opts in ({"reuse_model": True}, {"reuse_model": True, "keep_model_order": True}):
            for kind in KINDS:
                c11_dups.dups_case(ck, camp, {"doc": doc, "expect": expect, "opts": opts}, kind)
                if ck.failures:
                    c11_dups.shrink_first(ck)
                    camp.wall_s = time.time() - t0
                    return
        if time.time() - t0 > (60 if ck.tier == "quick" else 300):
            break
    camp.wall_s = time.time() - t0
