"""C05 — required, nullable and default semantics of each member are carried over."""
from __future__ import annotations

import ast
import dataclasses
import itertools
import json
import os
import time
import typing
from concurrent.futures import ProcessPoolExecutor

from .. import e2e
from ..runner import Check
from ..translate import field_templates

KINDS = list(e2e.MODEL_KINDS)
KIND_TAG = {
    "pydantic.BaseModel": "v1",
    "pydantic_v2.BaseModel": "v2",
    "dataclasses.dataclass": "dc",
    "typing.TypedDict": "td",
    "msgspec.Struct": "ms",
}
OPTS = [
    "strict_nullable",
    "apply_default_values_for_required_fields",
    "force_optional_for_required_fields",
    "strip_default_none",
    "use_default_kwarg",
    "use_annotated",
    "field_constraints",
    "snake_case_field",
    # spelling of the annotation only (the model is independent of them; a union-typed member's
    # null admission is decided differently under the union operator, see Model/FieldUnion.lean)
    "use_union_operator",
    "use_standard_collections",
    "use_generic_container_types",
]
OPT_TAG = ["sn", "ud", "fo", "sd", "kw", "an", "fc", "sc", "uo", "us", "ug"]
SPELLING_TAGS = ["uo", "us", "ug"]
VIAS = ["own", "sibling", "owner"]  # where the `required` entry is written
NAMES = ["plain", "alias", "keyword", "camel"]
JSON_NAME = {"plain": "n", "alias": "foo-bar", "keyword": "class", "camel": "fooBar"}


def py_name(v: dict) -> str:
    return {"plain": "n", "alias": "foo_bar", "keyword": "class_", "camel": "foo_bar" if v["opts"]["sc"] else "fooBar"}[v["name"]]


def norm_vec(v: dict) -> dict:
    """fill the dimensions added later (stored witnesses / replays written before they existed)"""
    v = dict(v)
    v["opts"] = {**{t: False for t in OPT_TAG}, **v.get("opts", {})}
    v.setdefault("via", "own")
    v.setdefault("name", "plain")
    v.setdefault("variant", 0)
    return v
DFLT = ["none", "null", "falsy", "truthy", "str", "listE", "listN", "dictE", "dictN"]
TYS = ["scalar", "array", "object"]
NULLSRC = ["js-no", "js-typelist", "oa-no", "oa-flag", "oa-typelist"]

# concrete realisations of a default class: (json type, extra schema keys, default value); the variant index picks one
REAL = {
    "falsy": [("integer", {}, 0), ("boolean", {}, False), ("string", {}, ""), ("number", {}, 0)],
    "truthy": [("integer", {}, 7), ("boolean", {}, True), ("integer", {}, -1)],
    "str": [("string", {}, "abc"), ("string", {}, "None"), ("string", {}, "it's \"q\"\\n")],
    "listE": [("array", {"items": {"type": "string"}}, [])],
    "listN": [("array", {"items": {"type": "string"}}, ["a"]), ("array", {"items": {"type": "integer"}}, [1, 2])],
    "dictE": [("object", {"additionalProperties": {"type": "string"}}, {})],
    "dictN": [
        ("object", {"additionalProperties": {"type": "string"}}, {"k": "v"}),
        ("object", {"additionalProperties": {"type": "integer"}}, {"k": 1, "j": 2}),
    ],
}
BASE = {
    "scalar": [("string", {}), ("integer", {}), ("boolean", {})],
    "array": [("array", {"items": {"type": "string"}})],
    "object": [("object", {"additionalProperties": {"type": "string"}})],
}
CONSTRAINT = {"string": {"maxLength": 40}, "integer": {"maximum": 1000}, "number": {"maximum": 1000}, "array": {"maxItems": 9}}
PRESENT = {"string": "xy", "integer": 3, "number": 3, "boolean": True, "array": [], "object": {}}


# ---- union-typed members: `anyOf` / `oneOf` over scalar alternatives ("the fourth way a schema admits null")
ATOM_JT = {"a": "string", "b": "integer", "c": "boolean"}
ALT_KINDS = ["p", "n", "f"]  # plain {"type": T} / type list [T, "null"] / OpenAPI {"type": T, "nullable": true}; "z" = {"type": "null"}
UNION_DFLT = {"none": None, "null": None, "str": "a", "truthy": "b", "falsy": "b"}  # default class -> atom it needs
UNION_DEFAULT_VALUE = {"str": "abc", "truthy": 7, "falsy": 0}


def is_union(v: dict) -> bool:
    return v.get("ty") == "union"


# ---- inherited members (c05_inherit.py, Model/FieldInherit.lean): a vector with a key "relist" is a
# member of a BASE schema seen from a subclass schema that lists it again in a `required` list of its
# own — "no" / "owner" (the schema owning the allOf) / "sibling" (an allOf item carrying only
# `required`) / "item" (the `required` list of an allOf item with properties)
def relist_of(v: dict) -> str | None:
    return v.get("relist")


# ---- `$ref`-typed members: a reference to an object definition that may admit null itself
# (`type: ["object", "null"]`, or the OpenAPI keyword `nullable: true` next to `type: object`); the
# definition stands before / after the referring schema, in another file, … (c05_refs.py, Model/FieldRef.lean)
def is_ref(v: dict) -> bool:
    return v.get("ty") == "ref"


def alt_schema(alt: str) -> dict:
    if alt == "z":
        return {"type": "null"}
    jt = ATOM_JT[alt[1]]
    return {"p": {"type": jt}, "n": {"type": [jt, "null"]}, "f": {"type": jt, "nullable": True}}[alt[0]]


def alt_admits_null(alt: str) -> bool:
    return alt[0] in "nfz"


def ty_of(dflt: str) -> list[str]:
    if dflt in ("none", "null"):
        return TYS
    if dflt in ("falsy", "truthy", "str"):
        return ["scalar"]
    return ["array"] if dflt.startswith("list") else ["object"]


def valid(v: dict) -> bool:
    """Pruning by validity of the abstract vector."""
    if is_union(v):
        alts = v.get("alts") or []
        if not alts or v["constr"] or v["dflt"] not in UNION_DFLT or all(a == "z" for a in alts):
            return False  # a member that can only be null (`n: None`) is outside the space
        need = UNION_DFLT[v["dflt"]]
        if need and not any(a != "z" and a[1] == need for a in alts):
            return False  # the default value must be of the type of some alternative
        if any(a[0] == "f" for a in alts) and not v["nullsrc"].startswith("oa"):
            return False  # `nullable` is an OpenAPI keyword
        if v["opts"]["an"] and not v["opts"]["fc"]:
            return False
        return v["via"] == "own" or v["inreq"]
    if is_ref(v):
        from . import c05_refs

        return c05_refs.valid(v)
    if v["ty"] not in ty_of(v["dflt"]):
        return False
    if v["constr"] and v["ty"] == "object":
        return False  # no constraint keyword is routed for dict-typed members
    if v["opts"]["an"] and not v["opts"]["fc"]:
        return False  # generate() refuses use_annotated without field_constraints
    if v["via"] != "own" and not v["inreq"]:
        return False  # the allOf forms are only built for a listed member
    return True


def realise(v: dict) -> dict:
    """The member schema + facts about it for an abstract vector (deterministic in v and v['variant'])."""
    var = v.get("variant", 0)
    d = v["dflt"]
    if is_union(v):
        alts = v["alts"]
        member = {v.get("comb", "anyOf"): [alt_schema(a) for a in alts]}
        dv = UNION_DEFAULT_VALUE.get(d)
        if d != "none":
            member["default"] = dv
        typed = [a for a in alts if a != "z"]
        jt = ATOM_JT[typed[0][1]] if typed else "null"
        return {"member": member, "jtype": jt, "default": dv, "present": PRESENT.get(jt)}
    if is_ref(v):
        from . import c05_refs

        return c05_refs.realise(v)
    if d in ("none", "null"):
        jt, extra = BASE[v["ty"]][var % len(BASE[v["ty"]])]
        dv = None
    else:
        jt, extra, dv = REAL[d][var % len(REAL[d])]
    if v["constr"] and jt == "boolean":
        jt, extra = "string", {}
        if d == "falsy":
            dv = ""
        elif d == "truthy":
            jt, dv = "integer", 7
    member: dict = {"type": jt, **extra}
    ns = v["nullsrc"]
    if ns.endswith("typelist"):
        member["type"] = [jt, "null"]
    elif ns == "oa-flag":
        member["nullable"] = True
    if d != "none":
        member["default"] = dv
    if v["constr"]:
        member.update(CONSTRAINT[jt])
    return {"member": member, "jtype": jt, "default": dv, "present": PRESENT[jt]}


def build_obj(v: dict) -> dict:
    """the object schema declaring the one member of vector `v`"""
    r = realise(v)
    name = JSON_NAME[v["name"]]
    obj: dict = {"type": "object", "properties": {name: r["member"]}}
    if v["via"] == "own":
        if v["inreq"]:
            obj["required"] = [name]
    elif v["via"] == "sibling":  # an allOf item that carries only `required`
        obj = {"allOf": [obj, {"required": [name]}]}
    else:  # `required` on the schema that owns the allOf
        obj = {"allOf": [obj], "required": [name]}
    return obj


def build_doc(v: dict) -> tuple[dict, str]:
    obj = build_obj(v)
    if v["nullsrc"].startswith("oa"):
        return (
            {
                "openapi": "3.0.3" if v["nullsrc"] != "oa-typelist" and not any(a[0] in "nz" for a in v.get("alts") or []) else "3.1.0",
                "info": {"title": "t", "version": "1"},
                "paths": {},
                "components": {"schemas": {"M": obj}},
            },
            "openapi",
        )
    return {"title": "M", **obj}, "jsonschema"


def opts_of(v: dict) -> dict:
    return {o: True for o, t in zip(OPTS, OPT_TAG) if v["opts"][t]}


def vec_key(v: dict) -> str:
    bits = "".join("1" if v["opts"][t] else "0" for t in OPT_TAG)
    ty = v["ty"] if not is_union(v) else f"{v.get('comb', 'anyOf')}[{'.'.join(v['alts'])}]"
    if is_ref(v):
        ty = f"ref[{v['target']}@{v['place']}]"
    return (
        f"{KIND_TAG[v['kind']]} {v['nullsrc']} {'req' if v['inreq'] else 'opt'} {v['dflt']} {ty} "
        f"{'con' if v['constr'] else 'nocon'} {bits} {v['via']} {v['name']}"
    ) + (f" inherited:relisted-{v['relist']}" if relist_of(v) else "")


# ---------------------------------------------------------------- observation of the rendered member
CONSTRAINT_KW = {"max_length", "le", "max_items", "min_length", "ge", "min_items", "regex", "pattern"}


def _name(n) -> str:
    if isinstance(n, ast.Name):
        return n.id
    if isinstance(n, ast.Attribute):
        return n.attr
    return ""


def _lit(n):
    try:
        return ("ok", ast.literal_eval(n))
    except Exception:
        return ("no", None)


def _same(a, b) -> bool:
    return type(a) is type(b) and a == b or (isinstance(a, (int, float)) and isinstance(b, (int, float)) and not isinstance(a, bool) and not isinstance(b, bool) and a == b)


def _cls(val, default, has_default: bool) -> str:
    """class of a rendered default value relative to the schema default"""
    if val is None:
        return "none"
    if has_default and _same(val, default):
        return "dflt"
    return "other"


def ann_admits_none(a) -> bool:
    """Does the written annotation (an AST) admit None? `Optional[…]`, `None`, `Any`, and — at any
    depth of `Union[…]` / `X | Y` nesting — an alternative that does (`Union[str, Optional[str]]`)."""
    if isinstance(a, ast.Constant):
        return a.value is None
    if isinstance(a, ast.Name):
        return a.id == "Any"
    if isinstance(a, ast.Attribute):
        return a.attr == "Any"
    if isinstance(a, ast.BinOp) and isinstance(a.op, ast.BitOr):
        return ann_admits_none(a.left) or ann_admits_none(a.right)
    if isinstance(a, ast.Subscript):
        head = _name(a.value)
        elts = a.slice.elts if isinstance(a.slice, ast.Tuple) else [a.slice]
        if head == "Optional":
            return True
        if head == "Union":
            return any(ann_admits_none(e) for e in elts)
        if head in ("Annotated", "NotRequired", "Required"):
            return ann_admits_none(elts[0])
    return False


def observe(code: str, default, has_default: bool, pyname: str = "n", jsonname: str = "n", cls: str = "M") -> dict | None:
    """Shape of the member of class `cls` in the emitted module, or None when there is none.
    The member is `pyname: …` in a class body, or the entry `'jsonname': …` of a functional-syntax TypedDict."""
    tree = ast.parse(code)
    node = None
    for c in tree.body:
        if isinstance(c, ast.ClassDef) and c.name == cls:
            for s in c.body:
                if isinstance(s, ast.AnnAssign) and isinstance(s.target, ast.Name) and s.target.id == pyname:
                    node = s
        elif (
            isinstance(c, ast.Assign)
            and len(c.targets) == 1
            and isinstance(c.targets[0], ast.Name)
            and c.targets[0].id == cls
            and isinstance(c.value, ast.Call)
            and _name(c.value.func) == "TypedDict"
            and len(c.value.args) == 2
            and isinstance(c.value.args[1], ast.Dict)
        ):
            for k, val in zip(c.value.args[1].keys, c.value.args[1].values):
                if isinstance(k, ast.Constant) and k.value == jsonname:
                    node = ast.AnnAssign(target=ast.Name(id=pyname), annotation=val, value=None, simple=1)
    if node is None:
        return None
    sh = {"opt": 0, "nr": 0, "ann": 0, "con": 0, "asg": "none"}
    a = node.annotation

    def field_call(call: ast.Call, where: str) -> str:
        """classify Field(...)/field(...)/Meta(...); returns the asg tag of its default part"""
        tag = "nodefault"
        for kw in call.keywords:
            if kw.arg in CONSTRAINT_KW:
                sh["con"] = 1
        fn = _name(call.func)
        if call.args:
            a0 = call.args[0]
            if isinstance(a0, ast.Constant) and a0.value is Ellipsis:
                tag = "req"
            else:
                ok, val = _lit(a0)
                tag = _cls(val, default, has_default) if ok == "ok" else "other"
        for kw in call.keywords:
            if kw.arg == "default":
                ok, val = _lit(kw.value)
                tag = "kw" + (_cls(val, default, has_default) if ok == "ok" else "other")
            elif kw.arg == "default_factory":
                if isinstance(kw.value, ast.Lambda):
                    ok, val = _lit(kw.value.body)
                    tag = "factory:" + (_cls(val, default, has_default) if ok == "ok" else "other")
                else:
                    tag = "factory:other"
        return f"{fn}:{tag}"

    for _ in range(6):
        if isinstance(a, ast.Subscript) and _name(a.value) == "NotRequired":
            sh["nr"] = 1
            a = a.slice
        elif isinstance(a, ast.Subscript) and _name(a.value) == "Optional":
            sh["opt"] = 1
            a = a.slice
        elif isinstance(a, ast.Subscript) and _name(a.value) == "Annotated":
            sh["ann"] = 1
            elts = a.slice.elts if isinstance(a.slice, ast.Tuple) else [a.slice]
            for e in elts[1:]:
                if isinstance(e, ast.Call):
                    t = field_call(e, "ann")
                    if t.endswith(":req"):
                        sh["ann"] = "req"
                    elif not t.endswith(":nodefault"):
                        sh["ann"] = t  # a default inside Annotated[...] (never seen on the pinned tree)
            a = elts[0]
        elif isinstance(a, ast.Subscript) and _name(a.value) == "Union":
            elts = a.slice.elts if isinstance(a.slice, ast.Tuple) else [a.slice]
            if any(isinstance(e, ast.Constant) and e.value is None for e in elts):
                sh["opt"] = 1
            break
        elif isinstance(a, ast.BinOp) and isinstance(a.op, ast.BitOr):
            parts = []
            st = [a]
            while st:
                x = st.pop()
                if isinstance(x, ast.BinOp) and isinstance(x.op, ast.BitOr):
                    st += [x.left, x.right]
                else:
                    parts.append(x)
            if any(isinstance(e, ast.Constant) and e.value is None for e in parts):
                sh["opt"] = 1
            rest = [e for e in parts if not (isinstance(e, ast.Constant) and e.value is None)]
            if len(rest) != 1:
                break
            a = rest[0]  # `X | None` is the union-operator spelling of Optional[X]: keep peeling X
        else:
            break
    if isinstance(a, ast.Call):  # constr(max_length=…)
        for kw in a.keywords:
            if kw.arg in CONSTRAINT_KW:
                sh["con"] = 1
    if isinstance(a, ast.Name) and a.id == "Any" or isinstance(a, ast.Constant) and a.value is None:
        sh["opt"] = 1
    if ann_admits_none(node.annotation):
        sh["opt"] = 1  # a None inside a written union: `Union[str, Optional[str]]`, `str | str | None`
    val = node.value
    if val is None:
        sh["asg"] = "none"
    elif isinstance(val, ast.Call) and _name(val.func) in ("Field", "field"):
        sh["asg"] = field_call(val, "asg")
    else:
        ok, lit = _lit(val)
        sh["asg"] = "lit:" + (_cls(lit, default, has_default) if ok == "ok" else "other")
    return sh


def shape_str(sh: dict | None) -> str:
    if sh is None:
        return "nomember"
    return f"opt={sh['opt']} nr={sh['nr']} ann={sh['ann']} asg={sh['asg']}"


# ---------------------------------------------------------------- the property's oracle on the real output
def _admits_none(tp) -> bool:
    if tp is type(None) or tp is typing.Any:
        return True
    origin = typing.get_origin(tp)
    if origin is typing.Annotated:
        return _admits_none(typing.get_args(tp)[0])
    if origin is typing.Union or str(origin) == "<class 'types.UnionType'>":
        return any(_admits_none(a) for a in typing.get_args(tp))
    if origin is not None and getattr(origin, "__name__", "") in ("NotRequired", "Required"):
        return _admits_none(typing.get_args(tp)[0])
    return False


def _is_not_required(tp) -> bool:
    origin = typing.get_origin(tp)
    return origin is not None and (origin is getattr(typing, "NotRequired", None) or getattr(origin, "_name", "") == "NotRequired" or str(origin).endswith("NotRequired"))


def _omitted_class(val, real: dict, has_default: bool) -> str:
    if val is None:
        return "none"
    if has_default and _same(val, real["default"]):
        return "dflt"
    return "other"


def semantics(code: str, v: dict, real: dict, sh: dict | None, cls: str = "M", names: tuple[str, str] | None = None,
              others: list[tuple[str, str, object]] | None = None, loader=None) -> dict:
    """What the emitted member means at run time: loads, must(supply), null(accepted),
    omitted ∈ rejected|none|absent|dflt|other, shared (mutable default shared between instances).
    `names` = (JSON name, Python name) of the member; `others` = (JSON name, Python name, a valid
    value) of the other members of the same class, which are always supplied. `loader` (for output
    that is a package): returns (the imported module holding the class, a function that unloads it)."""
    kind = v["kind"]
    has_default = v["dflt"] != "none"
    jn, pn = names or (JSON_NAME[v["name"]], py_name(v))
    base_json = {j: val for j, _, val in others or []}
    base_py = {p: val for _, p, val in others or []}
    out: dict = {"loads": "ok", "must": None, "null": None, "omitted": None, "shared": False, "present": True}
    if kind == "msgspec.Struct":
        # msgspec is not installed: authored reading of the AST. A Struct member without `=` must be
        # supplied; `= <literal>` is the default; empty list/dict literals are copied per instance,
        # non-empty ones are rejected by msgspec when the class is created.
        if sh is None:
            return {**out, "loads": "error:nomember"}
        asg = sh["asg"]
        out["null"] = bool(sh["opt"])
        if asg in ("none", "field:nodefault"):  # `field(name='…')` carries no default
            out["must"], out["omitted"] = True, "rejected"
        else:
            out["must"] = False
            c = asg.split(":")[-1].removeprefix("kw")
            out["omitted"] = c if c in ("none", "dflt") else "other"
            if asg.startswith(("lit:", "field:kw")) and c == "dflt" and isinstance(real["default"], (list, dict)) and real["default"]:
                out["loads"] = "error:msgspec-nonempty-mutable-default"
        return out
    unload = e2e.unload
    try:
        if loader is not None:
            mod, unload = loader()
        else:
            mod = e2e.load_module(code, kind)
    except BaseException as e:  # noqa: BLE001
        return {**out, "loads": f"error:{type(e).__name__}"}
    try:
        M = getattr(mod, cls)
        if kind in ("pydantic.BaseModel", "pydantic_v2.BaseModel"):
            parse = M.model_validate if kind == "pydantic_v2.BaseModel" else M.parse_obj
            try:
                inst = parse(dict(base_json))
                out["must"] = False
                val = getattr(inst, pn)
                out["omitted"] = _omitted_class(val, real, has_default)
                if isinstance(val, (list, dict)):
                    other = parse(dict(base_json))
                    out["shared"] = val is getattr(other, pn) or (not others and getattr(M(), pn) is getattr(M(), pn))
            except Exception as e:  # noqa: BLE001
                if type(e).__name__ != "ValidationError":
                    raise
                out["must"], out["omitted"] = True, "rejected"
            try:
                out["null"] = getattr(parse({**base_json, jn: None}), pn) is None
            except Exception as e:  # noqa: BLE001
                if type(e).__name__ != "ValidationError":
                    raise
                out["null"] = False
            if real["present"] is not None:
                try:
                    parse({**base_json, jn: real["present"]})
                except Exception:  # noqa: BLE001
                    out["present"] = False
        elif kind == "dataclasses.dataclass":
            f = {x.name: x for x in dataclasses.fields(M)}[pn]
            out["must"] = f.default is dataclasses.MISSING and f.default_factory is dataclasses.MISSING
            if out["must"]:
                out["omitted"] = "rejected"
                try:
                    M(**base_py)
                    out["omitted"] = "other"
                except TypeError:
                    pass
            else:
                a, b = M(**base_py), M(**base_py)
                out["omitted"] = _omitted_class(getattr(a, pn), real, has_default)
                out["shared"] = isinstance(getattr(a, pn), (list, dict)) and getattr(a, pn) is getattr(b, pn)
            out["null"] = _admits_none(typing.get_type_hints(M, include_extras=True)[pn])
        else:  # TypedDict
            # The emitted module starts with `from __future__ import annotations`; CPython then
            # cannot see NotRequired[...] when it computes __required_keys__ (documented limitation,
            # PEP 655), so the resolved annotation is what type checkers and validators read.
            hints = typing.get_type_hints(M, include_extras=True)
            tk = jn if jn in hints else pn  # functional syntax keeps the JSON name as key
            hint = hints[tk]
            out["must"] = not _is_not_required(hint)
            if "from __future__ import annotations" not in code and out["must"] != (tk in M.__required_keys__):
                out["loads"] = "error:inconsistent-keys"
            out["omitted"] = "rejected" if out["must"] else "absent"
            out["null"] = _admits_none(hint)
    except BaseException as e:  # noqa: BLE001
        out["loads"] = f"error:introspection:{type(e).__name__}:{str(e)[:80]}"
    finally:
        unload(mod)
    return out


def member_line(code: str, pyname: str = "n", jsonname: str = "n", cls: str | None = None) -> str:
    inside = cls is None
    for ln in code.splitlines():
        if cls is not None and ln and not ln[0].isspace():
            inside = ln.startswith((f"class {cls}(", f"class {cls}:", f"{cls} = "))
        if inside and ln.strip().startswith((pyname + ":", repr(jsonname) + ":")):
            return ln.strip()
    return ""


_captured: dict = {}
_capture_error: list[str] = []  # why the parser cannot be observed (the internals the harness reaches into changed shape)


def _install_capture() -> None:
    """Observe the parser's field record from outside (DESIGN §2.2): remember the Parser instance
    that `generate()` creates; `parser.results` holds the models as they are when rendered.
    This reaches into internals (`parser.base.Parser.parse`): when they are gone or renamed the record
    becomes `error:capture-unavailable:…`, which the stage-1 campaign reports as a broken correspondence
    (vlib/realcall.py: a changed shape of a real callee is never a crash of the check)."""
    from .. import realcall

    _capture_error.clear()
    try:
        import datamodel_code_generator.parser.base as pb

        orig = pb.Parser.parse
    except (ImportError, AttributeError) as e:
        _capture_error.append(f"{type(e).__name__}: {e}")
        return
    if getattr(orig, "_c05_wrapped", False):
        return
    why = realcall.signature_accepts(orig, object())
    if why is not None:
        _capture_error.append(why)
        return

    def parse(self, *a, **k):
        _captured["parser"] = self
        return orig(self, *a, **k)

    parse._c05_wrapped = True  # type: ignore[attr-defined]
    pb.Parser.parse = parse  # type: ignore[method-assign]


CONSTRAINT_ATTRS = ("max_length", "le", "max_items", "maxLength", "maximum", "maxItems")


def ir_of_captured(cls: str = "M", pyname: str | None = None) -> str | None:
    """the parser's field record for a member of model `cls` (the first one, or the one named
    `pyname`), in the driver's `irStr` form"""
    if _capture_error:
        return "error:capture-unavailable:" + _capture_error[0][:160]
    p = _captured.get("parser")
    if p is None:
        return None
    for m in p.results:
        if getattr(m, "class_name", None) == cls and m.fields:
            f = m.fields[0] if pyname is None else next((x for x in m.fields if x.name == pyname), None)
            if f is None:
                return None
            c = f.constraints
            if c is None:
                cons = "none"
            elif isinstance(c, dict):
                cons = "keyword" if any(c.get(k) is not None for k in CONSTRAINT_ATTRS) else "empty"
            else:
                cons = "keyword" if any(getattr(c, k, None) is not None for k in CONSTRAINT_ATTRS) else "empty"
            n = {None: "N", True: "T", False: "F"}[f.nullable]
            b = lambda x: "1" if x else "0"  # noqa: E731
            key = "-"
            modname = type(m).__module__
            if modname.endswith((".dataclass", ".msgspec")):
                import importlib

                from .. import realcall

                # a private helper of model/dataclass.py and model/msgspec.py: gone / another signature =
                # a field record that differs from the model's (broken correspondence), not a crash
                fn = getattr(importlib.import_module(modname), "_has_field_assignment", None)
                if fn is None:
                    key = "gone:_has_field_assignment"
                elif realcall.signature_accepts(fn, f) is not None:
                    key = "signature:" + str(realcall.signature_accepts(fn, f))[:120].replace(" ", "_")
                else:
                    key = b(fn(f))
            return (
                f"req={b(f.required)} nullable={n} hd={b(f.has_default)} thn={b(f.type_has_null)} "
                f"sdn={b(f.strip_default_none)} dio={b(f.data_type.is_optional)} cons={cons} alias={b(f.alias is not None)} key={key}"
            )
    return None


def run_vector(v: dict) -> dict:
    """One abstract vector through the real generator (runs in a worker process)."""
    if is_ref(v):
        from . import c05_refs

        return c05_refs.run_refvec(v)
    _install_capture()
    _captured.clear()
    v = norm_vec(v)
    doc, ift = build_doc(v)
    real = realise(v)
    r = e2e.run_generate(doc, input_file_type=ift, model=v["kind"], opts=opts_of(v))
    if not r.ok:
        return {"error": f"{r.error_type}: {r.error_msg[:200]}", "hang": r.hang}
    try:
        ir = ir_of_captured()
    except Exception as e:  # noqa: BLE001
        ir = f"error:{type(e).__name__}"
    try:
        sh = observe(r.code, real["default"], v["dflt"] != "none", py_name(v), JSON_NAME[v["name"]])
    except SyntaxError as e:
        return {"error": f"unparsable: {e}", "code": r.code}
    sem = semantics(r.code, v, real, sh)
    return {"shape": shape_str(sh), "sh": sh, "sem": sem, "ir": ir, "line": member_line(r.code, py_name(v), JSON_NAME[v["name"]]),
            "member": real["member"], "document": doc if v["via"] != "own" else None}


def _init_worker(parent_scratch: str) -> None:
    # pool workers do not run atexit handlers: keep their scratch files under the parent's root,
    # which the parent removes when the check ends
    e2e._scratch_root = parent_scratch


def _worker(chunk: list[dict]) -> list[dict]:
    import warnings

    warnings.simplefilter("ignore")
    return [run_vector(v) for v in chunk]


def run_vectors(vs: list[dict], workers: int = 14) -> list[dict]:
    if len(vs) < 40:
        return _worker(vs)
    n = max(1, min(workers, (os.cpu_count() or 2) - 1))
    size = max(8, min(64, len(vs) // (n * 4) + 1))
    chunks = [vs[i : i + size] for i in range(0, len(vs), size)]
    with ProcessPoolExecutor(max_workers=n, initializer=_init_worker, initargs=(e2e.scratch_root(),)) as ex:
        res = list(ex.map(_worker, chunks))
    return [x for c in res for x in c]


def mk_vec(kind, ns, inreq, d, ty, con, bits, variant=0, via="own", name="plain") -> dict:
    return norm_vec({"kind": kind, "nullsrc": ns, "inreq": bool(inreq), "dflt": d, "ty": ty, "constr": bool(con),
                     "opts": dict(zip(OPT_TAG, [bool(b) for b in bits])), "variant": variant, "via": via, "name": name})


def mk_uvec(kind, dialect, inreq, d, alts, bits, comb="anyOf", variant=0, via="own", name="plain") -> dict:
    """a union-typed member: `alts` like ["pa", "na", "z"]; `bits` over OPT_TAG (dict or list)"""
    opts = dict(bits) if isinstance(bits, dict) else dict(zip(OPT_TAG, [bool(b) for b in bits]))
    return norm_vec({"kind": kind, "nullsrc": f"{dialect}-no", "inreq": bool(inreq), "dflt": d, "ty": "union", "constr": False,
                     "alts": list(alts), "comb": comb, "opts": opts, "variant": variant, "via": via, "name": name})


def all_vectors(kinds=None) -> list[dict]:
    out = []
    for kind in kinds or KINDS:
        for ns in NULLSRC:
            for inreq in (False, True):
                for d in DFLT:
                    for ty in ty_of(d):
                        for con in (False, True):
                            for bits in itertools.product((False, True), repeat=7):
                                v = mk_vec(kind, ns, inreq, d, ty, con, bits)
                                if valid(v):
                                    out.append(v)
    return out


def renaming_vectors(kinds=None) -> list[dict]:
    """Second exhaustive block (thorough tier, search): every listed member × where it is listed ×
    kind of name × snake-case-field × {strict-nullable, use-default, force-optional}."""
    out = []
    for kind in kinds or KINDS:
        for ns in NULLSRC:
            for d in DFLT:
                for ty in ty_of(d):
                    for via in VIAS:
                        for name in NAMES:
                            for sc in (False, True):
                                for sn, ud, fo in itertools.product((False, True), repeat=3):
                                    v = mk_vec(kind, ns, True, d, ty, False, [sn, ud, fo, 0, 0, 0, 0, sc], via=via, name=name)
                                    if valid(v):
                                        out.append(v)
    return out


# ---------------------------------------------------------------- model side (Lean driver)
NULLMODE = {"js-no": "no", "oa-no": "no", "js-typelist": "typelist", "oa-typelist": "typelist", "oa-flag": "flag"}
MODEL_OPTS = ["sn", "ud", "fo", "sd", "an", "fc"]  # use_default_kwarg is spelling only (not modelled)


def driver_request(v: dict) -> str:
    bits = "".join("1" if v["opts"][t] else "0" for t in MODEL_OPTS)
    if is_ref(v):
        from . import c05_refs

        return (
            f"field.renderr {KIND_TAG[v['kind']]} {int(v['inreq'])} {v['dflt']} {bits} {v['via']} {v['name']} "
            f"{int(v['opts']['sc'])} {v['target']} {int(c05_refs.is_forward(v))}"
        )
    if relist_of(v):
        return (
            f"field.renderi {KIND_TAG[v['kind']]} {NULLMODE[v['nullsrc']]} {int(v['inreq'])} {v['dflt']} {v['ty']} "
            f"{int(v['constr'])} {bits} {v['name']} {int(v['opts']['sc'])} {v['relist']}"
        )
    if is_union(v):
        return (
            f"field.renderu {KIND_TAG[v['kind']]} {int(v['inreq'])} {v['dflt']} {bits} {v['via']} {v['name']} "
            f"{int(v['opts']['sc'])} {int(v['opts']['uo'])} {'.'.join(v['alts'])}"
        )
    return (
        f"field.render {KIND_TAG[v['kind']]} {NULLMODE[v['nullsrc']]} {int(v['inreq'])} {v['dflt']} {v['ty']} "
        f"{int(v['constr'])} {bits} {v['via']} {v['name']} {int(v['opts']['sc'])} {int(v['opts']['ug'])}"
    )


def parse_reply(rep: str) -> dict | None:
    if not rep.startswith("ok "):
        return None
    ir, shape, sem, *rest = rep[3:].split(" | ")
    kv = dict(x.split("=", 1) for x in sem.split())
    return {
        "ir": ir,
        "shape": shape,
        "union": dict(x.split("=", 1) for x in rest[0].split()) if rest else None,
        "sem": {
            "loads": kv["loads"] == "1",
            "must": kv["must"] == "1",
            "null": kv["null"] == "1",
            "omitted": kv["omitted"],
            "shared": kv["shared"] == "1",
        },
    }


def sem_canon(s: dict) -> dict:
    return {
        "loads": s["loads"] == "ok" if isinstance(s["loads"], str) else bool(s["loads"]),
        "must": bool(s["must"]),
        "null": bool(s["null"]),
        "omitted": s["omitted"],
        "shared": bool(s["shared"]),
    }


def normalise_kw(shape: str) -> tuple[str, bool]:
    """`Field(default=x, …)` and `Field(x, …)` are the same shape for the model; returns the
    normalised shape and whether the keyword spelling was used."""
    if " asg=Field:kw" in shape:
        return shape.replace(" asg=Field:kw", " asg=Field:"), True
    return shape, False


# ---------------------------------------------------------------- the property's oracle: clauses and classification
def clause_N(v: dict) -> bool:
    """the member's schema admits null (through its type list, the OpenAPI keyword, or an alternative)"""
    if is_union(v):
        return any(alt_admits_null(a) for a in v["alts"])
    if is_ref(v):
        return v["target"] != "no"  # the referenced definition admits null
    return NULLMODE[v["nullsrc"]] != "no"


def clause_failures(v: dict, sem: dict, shape: str, ir_required: bool | None) -> list[dict]:
    """Clauses of C05 that fail for vector `v` given the member's semantics `sem` (canonical form).
    Returns classification dicts {clause, mechanism}; the mechanism is read off the vector, the
    rendered shape and the parser's `required`, never off the Lean model."""
    o = v["opts"]
    rel = relist_of(v)
    R, D = v["inreq"] or (rel is not None and rel != "no"), v["dflt"] != "none"
    N = clause_N(v)
    omittable = (not R) or o["fo"] or (o["ud"] and D)
    none_default = v["dflt"] in ("none", "null")
    asg = shape.split(" asg=")[-1] if " asg=" in shape else ""
    has_rendered_default = asg.startswith(("lit:", "Field:none", "Field:dflt", "Field:kw", "field:factory", "field:kw"))
    out = []
    if not sem["loads"]:
        mech = sem.get("loads_error", "exec_error")
        if v["kind"] == "pydantic.BaseModel" and mech == "ValueError" and o["ug"] and v["ty"] == "array" and v["constr"]:
            mech = "v1_sequence_max_items_unenforced"  # pydantic 1 refuses `Sequence[…]` with max_items
        out.append({"clause": "class_creation", "mechanism": mech})
        if v["kind"] != "msgspec.Struct":
            return out  # the class does not exist: nothing else can be observed (msgspec is read statically)
    if not omittable:
        if not sem["must"] and (N or not D):
            clause = "required_nullable_stays_required" if N else "required_nodefault_must_supply"
            if rel in ("sibling", "item") and not v["inreq"] and ir_required is False:
                mech = "relisted_in_allof_item_dropped"  # the entry stands in an allOf item: never applied to an inherited member
            elif ir_required is False:
                mech = "parser_dropped_required"
            elif has_rendered_default:
                mech = "default_appended_to_required"
            elif v["kind"] == "pydantic.BaseModel" and "opt=1" in shape and asg == "none":
                mech = "v1_bare_optional"
            elif v["kind"] == "dataclasses.dataclass" and rel == "owner" and asg == "none":
                mech = "dataclass_override_keeps_inherited_default"  # the re-annotation finds the base's class attribute
            else:
                mech = "other"
            out.append({"clause": clause, "mechanism": mech})
    else:
        # the copy made for a required-only override of an inherited member is required whatever
        # --force-optional / --use-default say (and its default is not written)
        relaxed_override = None
        if rel == "owner" and ir_required and (o["fo"] or (o["ud"] and D)):
            relaxed_override = "override_ignores_force_optional" if o["fo"] else "override_ignores_use_default"
        if sem["must"]:
            mech = "strip_default_none" if (o["sd"] and none_default and asg == "none" and "nr=0" in shape) else "other"
            if relaxed_override:
                mech = relaxed_override
            out.append({"clause": "optional_omittable", "mechanism": mech})
        elif sem["loads"]:
            if none_default:
                if sem["omitted"] not in ("none", "absent"):
                    out.append({"clause": "optional_reads_none", "mechanism": relaxed_override or "other"})
            elif sem["omitted"] != "dflt":
                mech = "typeddict_has_no_defaults" if v["kind"] == "typing.TypedDict" and sem["omitted"] == "absent" else (relaxed_override or "other")
                out.append({"clause": "default_value", "mechanism": mech})
            if sem["shared"]:
                out.append({"clause": "mutable_default_not_shared", "mechanism": "shared_object"})
    if N and not sem["null"]:
        if is_ref(v):
            # null is admitted by the DEFINITION the member refers to
            mech = "definition_nullable_keyword_not_read" if v["target"] == "flag" else "reference_to_nullable_definition_lost"
        elif is_union(v):
            # null is admitted through an alternative of the anyOf / oneOf
            only_flag = all(a[0] == "f" for a in v["alts"] if alt_admits_null(a))
            mech = "openapi_nullable_without_strict" if only_flag and not o["sn"] else "union_alternative_null_lost"
        elif v["nullsrc"] == "oa-flag" and not o["sn"]:
            mech = "openapi_nullable_without_strict"
        elif v["nullsrc"].endswith("typelist") and o["sn"] and v["ty"] == "array":
            mech = "strict_nullable_overrides_type_list"
        elif v["kind"] == "typing.TypedDict" and "nr=1" in shape:
            mech = "typeddict_notrequired_no_fallback"
        elif v["nullsrc"] == "oa-flag" and o["sn"] and (v["via"] != "own" or (rel == "owner" and (not v["inreq"] or o["fo"]))) and not D and v["ty"] != "scalar":
            # `nullable` was computed while the field was not (yet) required: allOf forms, and the copy made for a
            # required-only override of a member the base did not keep required (not listed there, or --force-optional)
            mech = "late_required_loses_strict_nullable"
        else:
            mech = "other"
        out.append({"clause": "nullable_accepts_null", "mechanism": mech})
    return out


def evaluate(ck: Check, camps: dict, v: dict, r: dict, model: dict | None, record: bool = True, extra_inp: dict | None = None) -> list[dict]:
    """Correspondence (ir / shape / sem) and the property oracle for one vector. Returns the
    classified oracle failures. `extra_inp`: what else is needed to re-run the case (the group of
    members the vector was generated together with)."""
    v = norm_vec(v)
    key = vec_key(v) + f" var{v.get('variant', 0)}"
    inp = {"vector": v, "key": key, "member": r.get("member"), "line": r.get("line")}
    if r.get("document"):
        inp["document"] = r["document"]
    if extra_inp:
        inp.update(extra_inp)
    ci, cr, cs, co = camps["ir"], camps["render"], camps["sem"], camps["oracle"]
    co.evaluations += 1
    co.hit(f"kind:{KIND_TAG[v['kind']]}")
    co.hit(f"nullsrc:{v['nullsrc']}")
    co.hit(f"dflt:{v['dflt']}")
    co.hit(f"{'required' if v['inreq'] else 'not-required'}")
    for t in OPT_TAG:
        if v["opts"][t]:
            co.hit(f"opt:{t}")
    co.hit(f"via:{v['via']}")
    co.hit(f"name:{v['name']}")
    if relist_of(v):
        co.hit(f"inherited:relisted-{v['relist']}")
    if is_ref(v):
        co.hit(f"ref:definition-{v['target']}")
        co.hit(f"ref:place-{v['place']}")
    if is_union(v):
        co.hit(f"union:{len(v['alts'])}-alternatives")
        co.hit("union:" + ("null-through-alternative" if any(alt_admits_null(a) for a in v["alts"]) else "no-null"))
        if len({a[1:] for a in v["alts"] if a != "z"}) < len([a for a in v["alts"] if a != "z"]):
            co.hit("union:same-type-repeated")
    if "error" in r:
        if r.get("hang"):
            co.hit("hang(C01)")
        co.hit("generator_error")
        if record:
            ck.fail({"clause": "generation", "kind": KIND_TAG[v["kind"]], "mechanism": "generator_error", "model_predicts": False}, inp, r["error"])
        return []
    real_sem = sem_canon(r["sem"])
    if isinstance(r["sem"]["loads"], str) and r["sem"]["loads"] != "ok":
        real_sem["loads_error"] = r["sem"]["loads"].removeprefix("error:")
    shape, kw_used = normalise_kw(r["shape"])
    # --- correspondence
    if model is None:
        ck.infra_errors.append(f"model driver rejected vector {key}")
        return []
    ci.evaluations += 1
    cr.evaluations += 1
    cs.evaluations += 1
    ci.distinct.add(key)
    cr.distinct.add(key)
    cs.distinct.add(key)
    if r["ir"] != model["ir"]:
        ck.disagree(ci, inp, model["ir"], r["ir"])
    elif len(ci.samples) < 2:
        ci.samples.append({"key": key, "ir": r["ir"]})
    ci.hit("req=" + (r["ir"] or "?").split(" ")[0][-1:])
    if shape != model["shape"]:
        ck.disagree(cr, inp, model["shape"], r["shape"] + "   # " + r["line"])
    elif len(cr.samples) < 3:
        cr.samples.append({"key": key, "line": r["line"], "shape": shape})
    cr.hit("asg=" + shape.split(" asg=")[-1])
    want_kw = v["opts"]["kw"] and shape.split(" asg=")[-1] in ("Field:none", "Field:dflt")
    if kw_used != want_kw:
        ck.disagree(cr, inp, f"default= keyword spelling expected: {want_kw}", r["shape"] + "   # " + r["line"])
    ms, rs = dict(model["sem"]), {k: real_sem[k] for k in ("loads", "must", "null", "omitted", "shared")}
    if not rs["loads"] or not ms["loads"]:
        ms, rs = {"loads": ms["loads"]}, {"loads": rs["loads"]}
    if ms != rs:
        ck.disagree(cs, inp, ms, {**rs, "line": r["line"]})
    elif len(cs.samples) < 2:
        cs.samples.append({"key": key, "line": r["line"], "sem": rs})
    cs.hit("must" if real_sem["must"] else "omittable")
    # --- the property's own oracle, on the real output
    ir_required = None if not r["ir"] or r["ir"].startswith("error") else r["ir"].startswith("req=1")
    fails = clause_failures(v, real_sem, shape, ir_required)
    predicted = {f["clause"] for f in clause_failures(v, {**model["sem"], "loads_error": "msgspec-nonempty-mutable-default"}, model["shape"], model["ir"].startswith("req=1"))}
    co.distinct.add(key)
    out = []
    for f in fails:
        cl = {"clause": f["clause"], "kind": KIND_TAG[v["kind"]], "mechanism": f["mechanism"], "model_predicts": f["clause"] in predicted}
        out.append(cl)
        co.hit("fails:" + f["clause"])
        if record:
            ck.fail(cl, inp, f"{r['line']!r} — semantics of the emitted member: {real_sem}", f"clause {f['clause']} of C05")
    if not fails:
        co.hit("all-clauses-hold")
    if not r["sem"].get("present", True):
        co.hit("present-value-rejected(C03)")
    if len(co.samples) < 3 and not fails:
        co.samples.append({"key": key, "line": r["line"], "sem": real_sem})
    return out


def run_batch(ck: Check, camps: dict, vs: list[dict]) -> None:
    t0 = time.time()
    results = run_vectors(vs)
    replies = ck.driver.run([driver_request(v) for v in vs])
    for v, r, rep in zip(vs, results, replies):
        evaluate(ck, camps, v, r, parse_reply(rep))
    dt = time.time() - t0
    for c in camps.values():
        c.wall_s += dt / len(camps)


def make_campaigns(ck: Check) -> dict:
    return {
        "ir": ck.campaign("stage 1: Model.Field.fromSchema vs the parser's field record (required, nullable, has_default, type_has_null, strip_default_none, data_type.is_optional, constraints) captured from the real Parser"),
        "render": ck.campaign("stage 2: Model.Field.render (field classes + generated template table) vs the member line emitted by the real generate()"),
        "sem": ck.campaign("stage 3: Model.Field.semOf (authored library semantics) vs the exec'd class (pydantic v1-shim/v2 validation, dataclasses.fields, TypedDict hints; msgspec statically)"),
        "oracle": ck.campaign("property oracle on the exec'd class: omitted / null / present, default equality, mutable default identity"),
    }


# minimised vectors of past model mistakes and of every defect family (run first)
def corpus() -> list[dict]:
    Z = [0] * 8
    def o(**k):
        return [1 if k.get(t) else 0 for t in OPT_TAG]
    return [
        mk_vec("pydantic_v2.BaseModel", "js-typelist", 1, "none", "scalar", 0, Z),          # D7
        mk_vec("msgspec.Struct", "js-typelist", 1, "none", "scalar", 0, Z),
        mk_vec("pydantic.BaseModel", "js-typelist", 1, "none", "scalar", 0, Z),
        mk_vec("pydantic_v2.BaseModel", "js-no", 0, "none", "scalar", 0, o(sd=1)),
        mk_vec("pydantic_v2.BaseModel", "oa-flag", 1, "none", "scalar", 0, Z),
        mk_vec("pydantic_v2.BaseModel", "js-typelist", 1, "none", "array", 0, o(sn=1)),
        mk_vec("typing.TypedDict", "js-typelist", 0, "none", "array", 0, Z),
        mk_vec("typing.TypedDict", "js-no", 0, "str", "scalar", 0, Z),
        mk_vec("msgspec.Struct", "js-no", 0, "listN", "array", 0, Z),
        mk_vec("pydantic_v2.BaseModel", "oa-flag", 1, "none", "scalar", 0, o(sn=1, an=1, fc=1)),   # Annotated[..., Field(...)] = None
        mk_vec("pydantic.BaseModel", "js-no", 0, "str", "scalar", 0, Z, variant=1),                 # default "None" (a string)
        mk_vec("dataclasses.dataclass", "js-no", 0, "dictN", "object", 0, Z, variant=1),
        mk_vec("dataclasses.dataclass", "oa-typelist", 1, "listE", "array", 1, o(ud=1, fc=1)),
        mk_vec("typing.TypedDict", "oa-flag", 0, "null", "object", 0, o(sn=1)),
        mk_vec("msgspec.Struct", "js-no", 1, "truthy", "scalar", 1, o(an=1, fc=1, fo=1)),
        # required through an allOf sibling / the allOf owner, for names that are rewritten
        *[mk_vec(k, "js-no", 1, "none", "scalar", 0, Z, via=via, name=nm)
          for k in KINDS for via, nm in (("sibling", "alias"), ("sibling", "keyword"), ("owner", "alias"), ("owner", "keyword"))],
        *[mk_vec(k, "oa-no", 1, "none", "scalar", 0, o(sc=1), via="sibling", name="camel") for k in KINDS],
        mk_vec("pydantic_v2.BaseModel", "oa-flag", 1, "none", "array", 0, o(sn=1), via="sibling"),   # late required under strict-nullable
        mk_vec("pydantic.BaseModel", "js-typelist", 1, "none", "scalar", 0, Z, via="owner", name="alias"),
    ]


def stratified(ck: Check, n: int) -> list[dict]:
    """Quick tier: every (kind, nullsrc, required, default class) cell is visited at least once;
    member type, constraint flag, option vector and the concrete realisation are drawn per visit."""
    rng = ck.rng.fork("vectors")
    cells = [(k, ns, r, d) for k in KINDS for ns in NULLSRC for r in (0, 1) for d in DFLT]
    out = []
    i = 0
    order = rng.shuffle(cells)
    while len(out) < n:
        k, ns, r, d = order[i % len(order)]
        i += 1
        ty = rng.choice(ty_of(d))
        con = rng.chance(1, 3) and ty != "object"
        bits = [rng.chance(1, 3) for _ in OPT_TAG]
        via = rng.choice(VIAS) if r else "own"
        v = mk_vec(k, ns, r, d, ty, con, bits, variant=rng.below(6), via=via, name=rng.choice(NAMES))
        if v["opts"]["an"] and not v["opts"]["fc"]:
            v["opts"]["fc"] = True
        if valid(v):
            out.append(v)
    return out


# ---------------------------------------------------------------- member order (several members in one class)
def build_multi_doc(vs: list[dict]) -> tuple[dict, str]:
    props = {f"m{i}": realise(v)["member"] for i, v in enumerate(vs)}
    obj: dict = {"type": "object", "properties": props}
    req = [f"m{i}" for i, v in enumerate(vs) if v["inreq"]]
    if req:
        obj["required"] = req
    if vs[0]["nullsrc"].startswith("oa"):
        return ({"openapi": "3.1.0", "info": {"title": "t", "version": "1"}, "paths": {}, "components": {"schemas": {"M": obj}}}, "openapi")
    return {"title": "M", **obj}, "jsonschema"


def run_multi(vs: list[dict]) -> dict:
    vs = [norm_vec(v) for v in vs]
    doc, ift = build_multi_doc(vs)
    kind = vs[0]["kind"]
    r = e2e.run_generate(doc, input_file_type=ift, model=kind, opts=opts_of(vs[0]))
    if not r.ok:
        return {"error": f"{r.error_type}: {r.error_msg[:200]}"}
    members = []
    for c in ast.parse(r.code).body:
        if isinstance(c, ast.ClassDef) and c.name == "M":
            members = [(s.target.id, s.value is not None) for s in c.body if isinstance(s, ast.AnnAssign) and isinstance(s.target, ast.Name)]
    loads = "ok"
    if kind != "msgspec.Struct":
        try:
            e2e.unload(e2e.load_module(r.code, kind))
        except BaseException as e:  # noqa: BLE001
            loads = f"{type(e).__name__}: {str(e)[:120]}"
    return {"members": members, "loads": loads, "code": r.code.split("class M", 1)[-1]}


def _multi_worker(groups: list[list[dict]]) -> list[dict]:
    import warnings

    warnings.simplefilter("ignore")
    return [run_multi(g) for g in groups]


def bad_order(seq: list[bool]) -> bool:
    """a member without ` = …` after a member with one"""
    seen = False
    for has in seq:
        if has:
            seen = True
        elif seen:
            return True
    return False


def campaign_order(ck: Check, n: int) -> None:
    camp = ck.campaign("member order: three members per class (dataclass exec'd, msgspec read statically) vs Model.Field.sortKey + render")
    t0 = time.time()
    rng = ck.rng.fork("order")
    groups = [
        # the D7-msgspec consequence, minimal: required nullable member before a required one
        [mk_vec("msgspec.Struct", "js-typelist", 1, "none", "scalar", 0, [0] * 8), mk_vec("msgspec.Struct", "js-no", 1, "none", "scalar", 0, [0] * 8)],
        [mk_vec("dataclasses.dataclass", "js-no", 0, "str", "scalar", 0, [0] * 8), mk_vec("dataclasses.dataclass", "js-no", 1, "none", "scalar", 0, [0] * 8)],
    ]
    while len(groups) < n:
        kind = rng.choice(["dataclasses.dataclass", "msgspec.Struct"])
        dialect = rng.choice(["js", "oa"])
        bits = [rng.chance(1, 4) for _ in OPT_TAG]
        g = []
        for _ in range(3):
            d = rng.choice(DFLT)
            ty = rng.choice(ty_of(d))
            v = mk_vec(kind, rng.choice([x for x in NULLSRC if x.startswith(dialect)]), rng.chance(1, 2), d, ty,
                       rng.chance(1, 3) and ty != "object", bits, variant=rng.below(6))
            if v["opts"]["an"] and not v["opts"]["fc"]:
                v["opts"]["fc"] = True
            g.append(v)
        for v in g:
            v["opts"] = dict(g[0]["opts"])
        groups.append(g)
    flat = [v for g in groups for v in g]
    replies = [parse_reply(x) for x in ck.driver.run([driver_request(v) for v in flat])]
    nwork = max(1, min(14, (os.cpu_count() or 2) - 1))
    size = max(4, len(groups) // (nwork * 3) + 1)
    chunks = [groups[i : i + size] for i in range(0, len(groups), size)]
    if len(groups) < 30:
        results = _multi_worker(groups)
    else:
        with ProcessPoolExecutor(max_workers=nwork, initializer=_init_worker, initargs=(e2e.scratch_root(),)) as ex:
            results = [x for c in ex.map(_multi_worker, chunks) for x in c]
    k = 0
    for g, r in zip(groups, results):
        models = replies[k : k + len(g)]
        k += len(g)
        camp.evaluations += 1
        kind = KIND_TAG[g[0]["kind"]]
        inp = {"vectors": g, "keys": [vec_key(v) for v in g]}
        camp.hit(f"kind:{kind}")
        if "error" in r or any(m is None for m in models):
            camp.hit("generator_error")
            continue
        camp.distinct.add(json.dumps(inp["keys"]))
        # model: stable sort by key (False first); a member has an assignment iff its shape says so
        keyed = [(m["ir"].split(" key=")[-1] == "1", i, not m["shape"].endswith("asg=none")) for i, m in enumerate(models)]
        order = sorted(keyed, key=lambda t: t[0])
        model_members = [(f"m{i}", has) for _, i, has in order]
        if model_members != [tuple(x) for x in r["members"]]:
            ck.disagree(camp, inp, model_members, r["members"])
        elif len(camp.samples) < 2:
            camp.samples.append({"keys": inp["keys"], "members": r["members"]})
        predicted = bad_order([h for _, h in model_members])
        real_bad = bad_order([h for _, h in r["members"]])
        camp.hit("order-ok" if not real_bad else "member-without-default-after-default")
        failed = None
        if r["loads"] != "ok":
            failed = "required_member_after_default" if real_bad else r["loads"].split(":")[0]
        elif kind == "ms" and real_bad:
            failed = "required_member_after_default"  # msgspec refuses this Struct (read statically)
        if failed:
            ck.fail({"clause": "class_creation", "kind": kind, "mechanism": failed, "model_predicts": predicted}, inp,
                    f"class M{r['code'][:300]!r} loads={r['loads']}", "the generated class can be created")
    camp.wall_s = time.time() - t0


def known_findings(ck: Check) -> None:
    """Re-run the stored witness of every open finding on the real code."""
    for f in ck.findings:
        if "capture_case" in f["witness"]:
            from . import c05_capture

            if c05_capture.witness_reproduces(ck, f):
                ck.known(f["id"], f["what"])
            continue
        if "refdefault" in f["witness"]:
            from . import c05_refdefault

            if c05_refdefault.witness_reproduces(ck, f):
                ck.known(f["id"], f["what"])
            continue
        if "inherit_group" in f["witness"]:
            from . import c05_inherit

            if c05_inherit.witness_reproduces(ck, f):
                ck.known(f["id"], f["what"])
            continue
        if "vectors" in f["witness"]:
            probe = Check(ck.prop, ck.tier)
            probe.findings = []
            r = run_multi(f["witness"]["vectors"])
            if "members" in r and bad_order([h for _, h in r["members"]]):
                ck.known(f["id"], f["what"])
            continue
        w = norm_vec(f["witness"]["vector"])
        probe = Check(ck.prop, ck.tier)
        probe.findings = []
        camps = make_campaigns(probe)
        r = run_vector(w)
        rep = ck.driver.run([driver_request(w)])[0]
        fails = evaluate(probe, camps, w, r, parse_reply(rep), record=False)
        from ..runner import match_finding

        if any(match_finding([f], cl) is not None for cl in fails):
            ck.known(f["id"], f["what"])


def search_exhaustive(ck: Check) -> None:
    """Targeted search when a theorem or a correspondence broke and the sampled vectors showed no
    oracle failure: the space is finite, so sweep it (all kinds, all option vectors)."""
    camps = {k: ck.campaign("search: " + k) for k in ("ir", "render", "sem", "oracle")}
    vs = renaming_vectors() + all_vectors()
    for i in range(0, len(vs), 12000):
        run_batch(ck, camps, vs[i : i + 12000])
        if ck.failures:
            return


def search_siblings(ck: Check) -> None:
    """Targeted search, first stage: what the generator makes of a member may have come to depend on
    the OTHER members of the run (state shared through the type manager, the resolver, the field
    objects). Complete small scope: every ordered pair of member archetypes of one primitive type,
    each primitive type, both layouts, both dialects, with and without strict-nullable, every kind."""
    from . import c05_groups

    camps = {k: ck.campaign("search (siblings): " + k) for k in ("ir", "render", "sem", "oracle", "group")}
    groups = c05_groups.pair_block(variants=(0, 1, 2))
    for i in range(0, len(groups), 2500):
        c05_groups.run_batch(ck, camps, groups[i : i + 2500])
        if ck.failures:
            return


def search_union(ck: Check) -> None:
    """Targeted search, second stage: union-typed members — all lists of alternatives of the block,
    both spellings, every kind."""
    from . import c05_union

    camps = {k: ck.campaign("search (union-typed members): " + k) for k in ("ir", "render", "sem", "oracle")}
    run_batch(ck, camps, c05_union.core_block())
    vs = [] if ck.failures else c05_union.block(None)
    for i in range(0, len(vs), 3000):
        run_batch(ck, camps, vs[i : i + 3000])
        if ck.failures:
            return


def search_refs(ck: Check) -> None:
    """Targeted search: `$ref`-typed members — every place the definition can stand at, every kind,
    required and not, with the option block."""
    from . import c05_refs

    camps = {k: ck.campaign("search ($ref-typed members): " + k) for k in ("ir", "render", "sem", "oracle")}
    run_batch(ck, camps, c05_refs.core_block())
    vs = [] if ck.failures else c05_refs.block(None)
    for i in range(0, len(vs), 3000):
        run_batch(ck, camps, vs[i : i + 3000])
        if ck.failures:
            return


def search_refdefault(ck: Check) -> None:
    """Targeted search: members that take their default from the root definition they refer to, under the options that
    restructure references (collapse_root_models, reuse_model) — the whole family, every kind."""
    from . import c05_refdefault

    c05_refdefault.search(ck)


def search_inherit(ck: Check) -> None:
    """Targeted search: inherited members re-listed by a subclass schema (all kinds, both TypedDict syntaxes)."""
    from . import c05_inherit

    camps = c05_inherit.make_campaigns(ck, {k: ck.campaign("search (inherited members): " + k) for k in ("ir", "render", "sem", "oracle")})
    c05_inherit.run_batch(ck, camps, c05_inherit.core_block())
    if not ck.failures:
        c05_inherit.run_batch(ck, camps, c05_inherit.random_groups(ck, 3000))


def run(ck: Check) -> None:
    from ..translate import parse_passes
    from . import c05_capture, c05_groups, c05_inherit, c05_refdefault, c05_refs, c05_union

    quick = ck.tier == "quick"
    ck.translate("FieldTemplates", field_templates.generate())
    ck.translate("ParsePasses", parse_passes.generate())  # C09's table of the post-passes of Parser.parse (imported, not owned)
    ck.prove()
    ck.assumptions += [
        "abstract space: one member of scalar / array-of-scalar / dict-of-scalar type, or an anyOf / oneOf of scalar alternatives ({type: T}, {type: [T, null]}, OpenAPI {type: T, nullable: true}, {type: null}; at least one alternative has a type), or a $ref to an object definition (plain / type: [object, null] / OpenAPI nullable: true; default absent or null); const, default_factory extras, model-typed defaults and unions over containers or references are outside it",
        "$ref-typed members: which parse order a document layout produces (definition before / after the referring schema, in a file loaded earlier / later, fetched while the reference is resolved) is the harness's reading of the parser; the model's answer provably does not depend on it (ref_member_independent_of_definition_order), so a wrong reading cannot hide a disagreement",
        "inherited members: single inheritance chains Base <- [Mid <-] Sub built with allOf + $ref; what a re-declared member means in a subclass (pydantic / msgspec / TypedDict read the re-declaration alone; dataclasses pick up the class attribute a literal default left on the base; dataclasses and msgspec keep the position of a re-declared field and refuse a field without default after one with a default) is authored in Model/FieldInherit.lean and validated against the exec'd classes except for msgspec",
        "the default VALUE is abstracted to its class (none given / null / falsy / truthy / string / empty or non-empty list / empty or non-empty dict); equality of the materialised value is checked by the end-to-end oracle on concrete realisations, not by a theorem",
        "Sem (what a rendered member means in pydantic 1, pydantic 2, dataclasses, TypedDict, msgspec) is authored; validated in this run against the exec'd classes except for msgspec, which is not installed (read statically from the AST)",
        "TypedDict requiredness is read from the resolved annotation (NotRequired[...]), not from __required_keys__, because the emitted module uses `from __future__ import annotations` (PEP 655 limitation)",
        "use_default_kwarg only changes the spelling Field(x) → Field(default=x); checked syntactically, not part of the Lean model",
        "use_union_operator / use_standard_collections / use_generic_container_types are drawn at random by the end-to-end campaigns and are not part of the scalar model (it predicts the same member whatever they are; the one exception, pydantic 1 refusing Sequence[...] with max_items, is Model.Field.semG); for union-typed members use_union_operator is a model input (Model/FieldUnion.lean)",
        "type-hint level model (Model/FieldUnion.lean): hints are structured (parts of `X | Y`, trees of Optional[...]/Union[...]) over bracket-free type names; a type with an empty hint as an alternative of a union and the optional-Any rewriting of DataType.__init__ are outside its domain (character-level scanning of hints is C13's model)",
        "members that take their default from the definition they refer to: the abstract pass semantics (Dcg/Model/ParsePasses, C09's, imported) knows roots by identity and defaults by identity of the value; that a scalar root definition's model carries the definition's default (parse_root_type) is the harness's encoding of the initial state, checked end to end by the model tie of the family (array / dict root definitions do not: finding C05-REF-CONTAINER-DEFINITION-DEFAULT); TypedDict is left out of this family (no defaults)",
        "cross-member independence is tested, not proved: the model has no state shared between members, so every sibling effect of the real code shows up as a model/code disagreement or as an oracle failure the model does not predict",
    ]
    camps = make_campaigns(ck)
    camps["group"] = ck.campaign("cross-member independence: 2–3 members generated in one run (same class / one per schema, every order); each member vs the model's prediction from its own vector, and the property oracle per member")
    run_batch(ck, camps, corpus())
    c05_union.campaign_unionhint(ck, 1500 if quick else 12000, exhaustive=not quick)
    run_batch(ck, camps, c05_union.core_block())
    if quick:
        run_batch(ck, camps, stratified(ck, 1500) + c05_union.stratified(ck, 500))
    else:
        vs = all_vectors() + renaming_vectors()
        rng = ck.rng.fork("variants")
        for v in vs:
            v["variant"] = rng.below(6)
            for t in SPELLING_TAGS:  # not enumerated: drawn per vector
                v["opts"][t] = rng.chance(1, 4)
        vs += c05_union.block(ck)
        for i in range(0, len(vs), 20000):
            run_batch(ck, camps, vs[i : i + 20000])
    pairs = c05_groups.pair_block(variants=(0,) if quick else (0, 1, 2))
    if quick:
        prng = ck.rng.fork("pairs")
        pairs = [g for g in pairs if prng.chance(1, 4)]
    c05_groups.run_batch(ck, camps, pairs + c05_groups.random_groups(ck, 500 if quick else 3000))
    campaign_order(ck, 200 if quick else 4000)
    # `$ref`-typed members: a reference to a (nullable) object definition, in every definition order and across files
    c05_refs.campaign_refrule(ck, 400 if quick else 4000)
    run_batch(ck, camps, c05_refs.core_block() + (c05_refs.stratified(ck, 150) if quick else c05_refs.block(ck)))
    # members that take their default from the root definition they refer to, under collapse_root_models / reuse_model
    c05_refdefault.campaign(ck, quick)
    # inherited members re-listed as required by a subclass schema
    icamps = c05_inherit.make_campaigns(ck, camps)
    c05_inherit.run_batch(ck, icamps, c05_inherit.core_block(quick=quick) + c05_inherit.random_groups(ck, 150 if quick else 2500))
    # name capture: a member named like a name that a LATER member's default expression reads in the class body
    c05_capture.campaign(ck, quick)
    c05_capture.campaign_reads(ck, 600 if quick else 6000)
    ck.notes["space"] = {
        "capture_block": "member named like a builtin (list, dict, set, str, int) / the Field / field helper / the enum, the referenced class, the class itself x kind (TypedDict once: nothing is evaluated there) in front of members with defaults of every written form (empty / non-empty list and dict, constrained string, aliased member, enum member, model-typed, integer, none); quick: options off + one drawn option; thorough: x capturer form (optional / string default / required) x before / after x each option",
        "base_block": "kind x dialect/null-source x required x default class x type x constraint x 7 options (own required list, plain name): 105600 valid vectors",
        "renaming_block": f"listed members x where listed (3) x name kind (4) x snake-case-field x {{strict-nullable, use-default, force-optional}}: {len(renaming_vectors()) if not quick else 124800} vectors",
        "union_block": "union-typed members: core (all lists of <= 2 alternatives over {T, [T,null], null} x kind x spelling x required) always; thorough adds kind x lists of alternatives (<= 2 over two types and null, 3 over {T,[T,null],null,U}, OpenAPI lists with a nullable:true alternative) x spelling x required x {no default, null default} x strict-nullable with the other dimensions drawn",
        "ref_block": "$ref-typed members: kind x dialect x definition (plain / type list with null / OpenAPI nullable keyword) x where the definition stands (root-referrer, before, after, file loaded earlier / later, external file; OpenAPI: before / after) x required; always complete with options off (+ strict-nullable for OpenAPI); quick +300 stratified over all other dimensions; thorough: x default (none / null) x {strict-nullable, use-default, force-optional} x where `required` is written, rest drawn",
        "inherit_block": "inherited members: kind x where the subclass lists the inherited member (allOf owner / sibling item / item with properties) x second inherited member (plain / non-identifier key, re-listed or not) x own member (none / plain / non-identifier key) x chain (depth 1 both definition orders, depth 2) always complete with options off; plus random chains (1-3 base members of any archetype, 0-2 own members, any subset re-listed, all options)",
        "refdefault_block": "members that are bare $refs to a root definition carrying a default: kind (pydantic 2 / pydantic-1 style / dataclass executed, msgspec read statically) x definition (integer, string, constrained string, nullable integer, false, 0, number, alias of a definition, array, dict) x collapse_root_models x reuse_model x own default (none / value / null) always complete with the referring schema as document root; x where the definition stands (root / before / after / other file of the input directory under definitions or as root schema - modular output / file outside the input) x second member using the definition x twin definition: quick a sixth + 150 random cases with spelling options, thorough all + 2500",
        "sibling_block": "every ordered pair of scalar member archetypes (null source x required/optional/default/null default) of one primitive type x dialect x strict-nullable x kind x layout (same class / one per schema); quick: a quarter of it, string only; plus random groups of 2-3 members (scalar, array, dict, union-typed) in all orders",
        "tier_covers": "all blocks exhaustively (spelling options, realisations and the non-enumerated dimensions of the union block drawn per vector)" if not quick else "stratified sample over the product of all dimensions + corpus + union core block + a quarter of the sibling block",
    }
    ck.search_hooks += [c05_capture.search, search_refdefault, search_refs, search_inherit, search_siblings, search_union, search_exhaustive]
    known_findings(ck)


def replay(ck: Check, path: str) -> int:
    data = json.loads(open(path).read())
    inp = data.get("input") or (data.get("first_disagreement") or {}).get("input") or {}
    if inp.get("vectors"):
        r = run_multi(inp["vectors"])
        print("class M" + r.get("code", r.get("error", ""))[:400])
        bad = "members" in r and (bad_order([h for _, h in r["members"]]) or r["loads"] != "ok")
        print("REPLAY-FAILS: member order / class creation" if bad else "replay: the oracle does not fail on this input")
        return 1 if bad else 0
    if inp.get("capture_case"):
        from . import c05_capture

        return c05_capture.replay_case(ck, inp["capture_case"])
    if inp.get("refdefault"):
        from . import c05_refdefault

        return c05_refdefault.replay_case(ck, inp["refdefault"])
    if inp.get("inherit_group"):
        from . import c05_inherit

        return c05_inherit.replay_group(ck, inp["inherit_group"])
    if inp.get("group"):
        from . import c05_groups

        g = inp["group"]
        camps = make_campaigns(ck)
        camps["group"] = ck.campaign("group")
        res = c05_groups.run_group(g)
        print("group:", c05_groups.group_key(g))
        print("document:", json.dumps(res.get("document")))
        if "error" in res:
            print("REPLAY-FAILS: generation:", res["error"])
            return 1
        vs = [norm_vec(v) for v in g["vectors"]]
        models = [parse_reply(x) for x in ck.driver.run([driver_request(v) for v in vs])]
        for r in res["members"]:
            print("emitted:", r.get("line"), "| semantics:", r.get("sem"))
        c05_groups.evaluate_group(ck, camps, g, res, models)
        for f in ck.failures:
            print("REPLAY-FAILS:", json.dumps(f.classification), f.observed[:300])
        for d in ck.disagreements:
            print("REPLAY-DISAGREES:", d.campaign[:40], "model:", d.model, "impl:", d.impl)
        if not ck.failures:
            print("replay: the oracle does not fail on this input" + (" beyond known findings" if ck.known_hits else ""))
        return 1 if ck.failures else 0
    v = inp.get("vector")
    if not v:
        print("replay: no vector in the replay file")
        return 2
    v = norm_vec(v)
    camps = make_campaigns(ck)
    r = run_vector(v)
    rep = ck.driver.run([driver_request(v)])[0]
    print("vector:", vec_key(v), "member schema:", json.dumps(r.get("member")))
    if is_ref(v) and isinstance(r.get("document"), dict):
        for name, doc in r["document"]["files"].items():
            print(f"input file {name}" + (" (the input)" if r["document"]["entry"] == name else ""), json.dumps(doc))
        if r["document"]["entry"] is None:
            print("(the directory of these files is the input)")
    print("emitted:", r.get("line"), "| semantics:", r.get("sem"))
    evaluate(ck, camps, v, r, parse_reply(rep))
    for f in ck.failures:
        print("REPLAY-FAILS:", json.dumps(f.classification), f.observed[:300])
    for d in ck.disagreements:
        print("REPLAY-DISAGREES:", d.campaign[:40], "model:", d.model, "impl:", d.impl)
    for k, n in ck.known_hits.items():
        print(f"replay: {n} failure(s) on this input match known finding {k}")
    if not ck.failures:
        print("replay: the oracle does not fail on this input" + (" beyond known findings" if ck.known_hits else ""))
    return 1 if ck.failures else 0
