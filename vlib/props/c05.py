"""C05 — required, nullable and default semantics of each member are carried over."""
from __future__ import annotations

import ast
import dataclasses
import itertools
import json
import os
import time
import typing
from concurrent.futures import ProcessPoolExecutor

from .. import e2e
from ..runner import Check
from ..translate import field_templates

KINDS = list(e2e.MODEL_KINDS)
KIND_TAG = {
    "pydantic.BaseModel": "v1",
    "pydantic_v2.BaseModel": "v2",
    "dataclasses.dataclass": "dc",
    "typing.TypedDict": "td",
    "msgspec.Struct": "ms",
}
OPTS = [
    "strict_nullable",
    "apply_default_values_for_required_fields",
    "force_optional_for_required_fields",
    "strip_default_none",
    "use_default_kwarg",
    "use_annotated",
    "field_constraints",
]
OPT_TAG = ["sn", "ud", "fo", "sd", "kw", "an", "fc"]
DFLT = ["none", "null", "falsy", "truthy", "str", "listE", "listN", "dictE", "dictN"]
TYS = ["scalar", "array", "object"]
NULLSRC = ["js-no", "js-typelist", "oa-no", "oa-flag", "oa-typelist"]

# concrete realisations of a default class: (json type, extra schema keys, default value); the variant index picks one
REAL = {
    "falsy": [("integer", {}, 0), ("boolean", {}, False), ("string", {}, ""), ("number", {}, 0)],
    "truthy": [("integer", {}, 7), ("boolean", {}, True), ("integer", {}, -1)],
    "str": [("string", {}, "abc"), ("string", {}, "None"), ("string", {}, "it's \"q\"\\n")],
    "listE": [("array", {"items": {"type": "string"}}, [])],
    "listN": [("array", {"items": {"type": "string"}}, ["a"]), ("array", {"items": {"type": "integer"}}, [1, 2])],
    "dictE": [("object", {"additionalProperties": {"type": "string"}}, {})],
    "dictN": [
        ("object", {"additionalProperties": {"type": "string"}}, {"k": "v"}),
        ("object", {"additionalProperties": {"type": "integer"}}, {"k": 1, "j": 2}),
    ],
}
BASE = {
    "scalar": [("string", {}), ("integer", {}), ("boolean", {})],
    "array": [("array", {"items": {"type": "string"}})],
    "object": [("object", {"additionalProperties": {"type": "string"}})],
}
CONSTRAINT = {"string": {"maxLength": 40}, "integer": {"maximum": 1000}, "number": {"maximum": 1000}, "array": {"maxItems": 9}}
PRESENT = {"string": "xy", "integer": 3, "number": 3, "boolean": True, "array": [], "object": {}}


def ty_of(dflt: str) -> list[str]:
    if dflt in ("none", "null"):
        return TYS
    if dflt in ("falsy", "truthy", "str"):
        return ["scalar"]
    return ["array"] if dflt.startswith("list") else ["object"]


def valid(v: dict) -> bool:
    """Pruning by validity of the abstract vector."""
    if v["ty"] not in ty_of(v["dflt"]):
        return False
    if v["constr"] and v["ty"] == "object":
        return False  # no constraint keyword is routed for dict-typed members
    return True


def realise(v: dict) -> dict:
    """The member schema + facts about it for an abstract vector (deterministic in v and v['variant'])."""
    var = v.get("variant", 0)
    d = v["dflt"]
    if d in ("none", "null"):
        jt, extra = BASE[v["ty"]][var % len(BASE[v["ty"]])]
        dv = None
    else:
        jt, extra, dv = REAL[d][var % len(REAL[d])]
    if v["constr"] and jt == "boolean":
        jt, extra = "string", {}
        if d == "falsy":
            dv = ""
        elif d == "truthy":
            jt, dv = "integer", 7
    member: dict = {"type": jt, **extra}
    ns = v["nullsrc"]
    if ns.endswith("typelist"):
        member["type"] = [jt, "null"]
    elif ns == "oa-flag":
        member["nullable"] = True
    if d != "none":
        member["default"] = dv
    if v["constr"]:
        member.update(CONSTRAINT[jt])
    return {"member": member, "jtype": jt, "default": dv, "present": PRESENT[jt]}


def build_doc(v: dict) -> tuple[dict, str]:
    r = realise(v)
    obj = {"type": "object", "properties": {"n": r["member"]}}
    if v["inreq"]:
        obj["required"] = ["n"]
    if v["nullsrc"].startswith("oa"):
        return (
            {
                "openapi": "3.0.3" if v["nullsrc"] != "oa-typelist" else "3.1.0",
                "info": {"title": "t", "version": "1"},
                "paths": {},
                "components": {"schemas": {"M": obj}},
            },
            "openapi",
        )
    return {"title": "M", **obj}, "jsonschema"


def opts_of(v: dict) -> dict:
    return {o: True for o, t in zip(OPTS, OPT_TAG) if v["opts"][t]}


def vec_key(v: dict) -> str:
    bits = "".join("1" if v["opts"][t] else "0" for t in OPT_TAG)
    return f"{KIND_TAG[v['kind']]} {v['nullsrc']} {'req' if v['inreq'] else 'opt'} {v['dflt']} {v['ty']} {'con' if v['constr'] else 'nocon'} {bits}"


# ---------------------------------------------------------------- observation of the rendered member
CONSTRAINT_KW = {"max_length", "le", "max_items", "min_length", "ge", "min_items", "regex", "pattern"}


def _name(n) -> str:
    if isinstance(n, ast.Name):
        return n.id
    if isinstance(n, ast.Attribute):
        return n.attr
    return ""


def _lit(n):
    try:
        return ("ok", ast.literal_eval(n))
    except Exception:
        return ("no", None)


def _same(a, b) -> bool:
    return type(a) is type(b) and a == b or (isinstance(a, (int, float)) and isinstance(b, (int, float)) and not isinstance(a, bool) and not isinstance(b, bool) and a == b)


def _cls(val, default, has_default: bool) -> str:
    """class of a rendered default value relative to the schema default"""
    if val is None:
        return "none"
    if has_default and _same(val, default):
        return "dflt"
    return "other"


def observe(code: str, default, has_default: bool) -> dict | None:
    """Shape of the member `n` of class `M` in the emitted module, or None when there is none."""
    tree = ast.parse(code)
    node = None
    for c in tree.body:
        if isinstance(c, ast.ClassDef) and c.name == "M":
            for s in c.body:
                if isinstance(s, ast.AnnAssign) and isinstance(s.target, ast.Name) and s.target.id == "n":
                    node = s
    if node is None:
        return None
    sh = {"opt": 0, "nr": 0, "ann": 0, "con": 0, "asg": "none"}
    a = node.annotation

    def field_call(call: ast.Call, where: str) -> str:
        """classify Field(...)/field(...)/Meta(...); returns the asg tag of its default part"""
        tag = "nodefault"
        for kw in call.keywords:
            if kw.arg in CONSTRAINT_KW:
                sh["con"] = 1
        fn = _name(call.func)
        if call.args:
            a0 = call.args[0]
            if isinstance(a0, ast.Constant) and a0.value is Ellipsis:
                tag = "req"
            else:
                ok, val = _lit(a0)
                tag = _cls(val, default, has_default) if ok == "ok" else "other"
        for kw in call.keywords:
            if kw.arg == "default":
                ok, val = _lit(kw.value)
                tag = "kw" + (_cls(val, default, has_default) if ok == "ok" else "other")
            elif kw.arg == "default_factory":
                if isinstance(kw.value, ast.Lambda):
                    ok, val = _lit(kw.value.body)
                    tag = "factory:" + (_cls(val, default, has_default) if ok == "ok" else "other")
                else:
                    tag = "factory:other"
        return f"{fn}:{tag}"

    for _ in range(6):
        if isinstance(a, ast.Subscript) and _name(a.value) == "NotRequired":
            sh["nr"] = 1
            a = a.slice
        elif isinstance(a, ast.Subscript) and _name(a.value) == "Optional":
            sh["opt"] = 1
            a = a.slice
        elif isinstance(a, ast.Subscript) and _name(a.value) == "Annotated":
            sh["ann"] = 1
            elts = a.slice.elts if isinstance(a.slice, ast.Tuple) else [a.slice]
            for e in elts[1:]:
                if isinstance(e, ast.Call):
                    t = field_call(e, "ann")
                    if t.endswith(":req"):
                        sh["ann"] = "req"
                    elif not t.endswith(":nodefault"):
                        sh["ann"] = t  # a default inside Annotated[...] (never seen on the pinned tree)
            a = elts[0]
        elif isinstance(a, ast.Subscript) and _name(a.value) == "Union":
            elts = a.slice.elts if isinstance(a.slice, ast.Tuple) else [a.slice]
            if any(isinstance(e, ast.Constant) and e.value is None for e in elts):
                sh["opt"] = 1
            break
        elif isinstance(a, ast.BinOp) and isinstance(a.op, ast.BitOr):
            parts = []
            st = [a]
            while st:
                x = st.pop()
                if isinstance(x, ast.BinOp) and isinstance(x.op, ast.BitOr):
                    st += [x.left, x.right]
                else:
                    parts.append(x)
            if any(isinstance(e, ast.Constant) and e.value is None for e in parts):
                sh["opt"] = 1
            break
        else:
            break
    if isinstance(a, ast.Call):  # constr(max_length=…)
        for kw in a.keywords:
            if kw.arg in CONSTRAINT_KW:
                sh["con"] = 1
    if isinstance(a, ast.Name) and a.id == "Any" or isinstance(a, ast.Constant) and a.value is None:
        sh["opt"] = 1
    val = node.value
    if val is None:
        sh["asg"] = "none"
    elif isinstance(val, ast.Call) and _name(val.func) in ("Field", "field"):
        sh["asg"] = field_call(val, "asg")
    else:
        ok, lit = _lit(val)
        sh["asg"] = "lit:" + (_cls(lit, default, has_default) if ok == "ok" else "other")
    return sh


def shape_str(sh: dict | None) -> str:
    if sh is None:
        return "nomember"
    return f"opt={sh['opt']} nr={sh['nr']} ann={sh['ann']} asg={sh['asg']}"


# ---------------------------------------------------------------- the property's oracle on the real output
def _admits_none(tp) -> bool:
    if tp is type(None) or tp is typing.Any:
        return True
    origin = typing.get_origin(tp)
    if origin is typing.Annotated:
        return _admits_none(typing.get_args(tp)[0])
    if origin is typing.Union or str(origin) == "<class 'types.UnionType'>":
        return any(_admits_none(a) for a in typing.get_args(tp))
    if origin is not None and getattr(origin, "__name__", "") in ("NotRequired", "Required"):
        return _admits_none(typing.get_args(tp)[0])
    return False


def _is_not_required(tp) -> bool:
    origin = typing.get_origin(tp)
    return origin is not None and (origin is getattr(typing, "NotRequired", None) or getattr(origin, "_name", "") == "NotRequired" or str(origin).endswith("NotRequired"))


def _omitted_class(val, real: dict, has_default: bool) -> str:
    if val is None:
        return "none"
    if has_default and _same(val, real["default"]):
        return "dflt"
    return "other"


def semantics(code: str, v: dict, real: dict, sh: dict | None) -> dict:
    """What the emitted member means at run time: loads, must(supply), null(accepted),
    omitted ∈ rejected|none|absent|dflt|other, shared (mutable default shared between instances)."""
    kind = v["kind"]
    has_default = v["dflt"] != "none"
    out: dict = {"loads": "ok", "must": None, "null": None, "omitted": None, "shared": False, "present": True}
    if kind == "msgspec.Struct":
        # msgspec is not installed: authored reading of the AST. A Struct member without `=` must be
        # supplied; `= <literal>` is the default; empty list/dict literals are copied per instance,
        # non-empty ones are rejected by msgspec when the class is created.
        if sh is None:
            return {**out, "loads": "error:nomember"}
        asg = sh["asg"]
        out["null"] = bool(sh["opt"])
        if asg == "none":
            out["must"], out["omitted"] = True, "rejected"
        else:
            out["must"] = False
            cls = asg.split(":")[-1].removeprefix("kw")
            out["omitted"] = cls if cls in ("none", "dflt") else "other"
            if asg.startswith("lit:") and cls == "dflt" and isinstance(real["default"], (list, dict)) and real["default"]:
                out["loads"] = "error:msgspec-nonempty-mutable-default"
        return out
    try:
        mod = e2e.load_module(code, kind)
    except BaseException as e:  # noqa: BLE001
        return {**out, "loads": f"error:{type(e).__name__}"}
    try:
        M = mod.M
        if kind in ("pydantic.BaseModel", "pydantic_v2.BaseModel"):
            parse = M.model_validate if kind == "pydantic_v2.BaseModel" else M.parse_obj
            try:
                inst = parse({})
                out["must"] = False
                out["omitted"] = _omitted_class(inst.n, real, has_default)
                if isinstance(inst.n, (list, dict)):
                    other = parse({})
                    out["shared"] = inst.n is other.n or M().n is M().n
            except Exception as e:  # noqa: BLE001
                if type(e).__name__ != "ValidationError":
                    raise
                out["must"], out["omitted"] = True, "rejected"
            try:
                out["null"] = parse({"n": None}).n is None
            except Exception as e:  # noqa: BLE001
                if type(e).__name__ != "ValidationError":
                    raise
                out["null"] = False
            try:
                parse({"n": real["present"]})
            except Exception:  # noqa: BLE001
                out["present"] = False
        elif kind == "dataclasses.dataclass":
            f = {x.name: x for x in dataclasses.fields(M)}["n"]
            out["must"] = f.default is dataclasses.MISSING and f.default_factory is dataclasses.MISSING
            if out["must"]:
                out["omitted"] = "rejected"
                try:
                    M()
                    out["omitted"] = "other"
                except TypeError:
                    pass
            else:
                a, b = M(), M()
                out["omitted"] = _omitted_class(a.n, real, has_default)
                out["shared"] = isinstance(a.n, (list, dict)) and a.n is b.n
            out["null"] = _admits_none(typing.get_type_hints(M, include_extras=True)["n"])
        else:  # TypedDict
            # The emitted module starts with `from __future__ import annotations`; CPython then
            # cannot see NotRequired[...] when it computes __required_keys__ (documented limitation,
            # PEP 655), so the resolved annotation is what type checkers and validators read.
            hint = typing.get_type_hints(M, include_extras=True)["n"]
            out["must"] = not _is_not_required(hint)
            if "from __future__ import annotations" not in code and out["must"] != ("n" in M.__required_keys__):
                out["loads"] = "error:inconsistent-keys"
            out["omitted"] = "rejected" if out["must"] else "absent"
            out["null"] = _admits_none(hint)
    except BaseException as e:  # noqa: BLE001
        out["loads"] = f"error:introspection:{type(e).__name__}:{str(e)[:80]}"
    finally:
        e2e.unload(mod)
    return out


def member_line(code: str) -> str:
    for ln in code.splitlines():
        if ln.strip().startswith("n:"):
            return ln.strip()
    return ""


def run_vector(v: dict) -> dict:
    """One abstract vector through the real generator (runs in a worker process)."""
    doc, ift = build_doc(v)
    real = realise(v)
    r = e2e.run_generate(doc, input_file_type=ift, model=v["kind"], opts=opts_of(v))
    if not r.ok:
        return {"error": f"{r.error_type}: {r.error_msg[:200]}", "hang": r.hang}
    try:
        sh = observe(r.code, real["default"], v["dflt"] != "none")
    except SyntaxError as e:
        return {"error": f"unparsable: {e}", "code": r.code}
    sem = semantics(r.code, v, real, sh)
    return {"shape": shape_str(sh), "sem": sem, "line": member_line(r.code), "member": real["member"]}


def _worker(chunk: list[dict]) -> list[dict]:
    import warnings

    warnings.simplefilter("ignore")
    return [run_vector(v) for v in chunk]


def run_vectors(vs: list[dict], workers: int = 14) -> list[dict]:
    if len(vs) < 40:
        return _worker(vs)
    n = max(1, min(workers, (os.cpu_count() or 2) - 1))
    size = max(8, min(64, len(vs) // (n * 4) + 1))
    chunks = [vs[i : i + size] for i in range(0, len(vs), size)]
    with ProcessPoolExecutor(max_workers=n) as ex:
        res = list(ex.map(_worker, chunks))
    return [x for c in res for x in c]


def all_vectors(kinds=None) -> list[dict]:
    out = []
    for kind in kinds or KINDS:
        for ns in NULLSRC:
            for inreq in (False, True):
                for d in DFLT:
                    for ty in ty_of(d):
                        for con in (False, True):
                            for bits in itertools.product((False, True), repeat=len(OPT_TAG)):
                                v = {"kind": kind, "nullsrc": ns, "inreq": inreq, "dflt": d, "ty": ty, "constr": con,
                                     "opts": dict(zip(OPT_TAG, bits)), "variant": 0}
                                if valid(v):
                                    out.append(v)
    return out
