"""C05, `$ref`-typed members: a member whose schema is a reference to an object definition that may
admit null itself (`type: ["object", "null"]`; OpenAPI: `nullable: true` next to `type: object`).

The generator decides "this reference is optional" in `DataType.type_hint`, by looking at the model its
`Reference` points to — a model that exists only once the DEFINITION has been parsed. Whether the member
accepts null must therefore not depend on where the definition stands relative to the schema that refers
to it. Dimensions added to the C05 space (Lean: Dcg/Model/FieldRef.lean):

* `target`: how the definition admits null — "no" / "typelist" / "flag" (OpenAPI keyword);
* `place`: where the definition stands — "root" (the referring schema is the document root, the
  definition under `definitions`: the root is parsed first), "before" / "after" (both under
  `definitions` / `components.schemas`, in that order), "file-earlier" / "file-later" (directory input: the
  definition is in a file loaded earlier / later than the referring one; modular output), "external" (one
  input file referring to a file that is not part of the input: fetched while the reference is resolved);
* required or not, default absent / null, every option, where `required` is written, the kind of name.

* `campaign_refrule`: Model.Field.lazyFlags (driver `field.refrule`) against real `Reference` /
  `DataType(reference=…)` / `DataModel(reference=…, nullable=…)` objects built in the order of a random
  list of parse events: `is_optional` of every DataType after `type_hint` ran.
* vectors for the end-to-end campaigns of c05.py (`core_block`, `stratified`, `block`) and their runner
  (`run_refvec`: single document, directory or external-file input; the emitted package is imported)."""
from __future__ import annotations

import contextlib
import importlib
import io
import itertools
import json
import os
import shutil
import sys
import tempfile
import time
import warnings
from pathlib import Path

from .. import e2e, realcall
from ..common import Hang, watchdog
from ..runner import Check
from . import c05

TARGETS = ["no", "typelist", "flag"]
JS_PLACES = ["root", "before", "after", "file-earlier", "file-later", "external"]
OA_PLACES = ["before", "after"]
FORWARD = {"root": True, "before": False, "after": True, "file-earlier": False, "file-later": True, "external": True}
REF_DFLT = ["none", "null"]
PRESENT = {"q": 1}


def is_forward(v: dict) -> bool:
    """the member's DataType is built before the definition's model exists (what the harness believes
    about the parse order; the model proves that its answer does not depend on it)"""
    return FORWARD[v["place"]]


def dialect(v: dict) -> str:
    return "oa" if v["nullsrc"].startswith("oa") else "js"


def valid(v: dict) -> bool:
    if v["dflt"] not in REF_DFLT or v["constr"]:
        return False
    if v["target"] not in TARGETS or v["place"] not in (OA_PLACES if dialect(v) == "oa" else JS_PLACES):
        return False
    if v["target"] == "flag" and dialect(v) != "oa":
        return False  # `nullable` is an OpenAPI keyword
    if v["opts"]["an"] and not v["opts"]["fc"]:
        return False
    return v["via"] == "own" or v["inreq"]


def target_schema(v: dict) -> dict:
    t: dict = {"type": "object", "properties": {"q": {"type": "integer"}}}
    if v["target"] == "typelist":
        t["type"] = ["object", "null"]
    elif v["target"] == "flag":
        t["nullable"] = True
    return t


def file_names(v: dict) -> tuple[str, str]:
    """(file of the referring schema, file of the definition) for the places that use files"""
    if v["place"] == "file-later":
        return "a_m.json", "z_t.json"
    if v["place"] == "file-earlier":
        return "z_m.json", "a_t.json"
    return "main.json", "ext_t.json"


def in_root_of_file(v: dict) -> bool:
    """file places, odd variants: the definition is the ROOT schema of the other file (`$ref: "z_t.json"`)"""
    return v["place"] in ("file-earlier", "file-later", "external") and v.get("variant", 0) % 2 == 1


def ref_string(v: dict) -> str:
    if dialect(v) == "oa":
        return "#/components/schemas/T"
    if v["place"] in ("root", "before", "after"):
        return "#/definitions/T"
    tf = file_names(v)[1]
    return tf if in_root_of_file(v) else f"{tf}#/definitions/T"


def realise(v: dict) -> dict:
    member: dict = {"$ref": ref_string(v)}
    if v["dflt"] == "null":
        member["default"] = None
    return {"member": member, "jtype": "ref", "default": None, "present": PRESENT}


def build_input(v: dict) -> dict:
    """{"files": {name: document}, "entry": name | None (None: the directory is the input), "ift": …}"""
    obj = c05.build_obj(v)  # the object schema (class M) declaring the one member
    T = target_schema(v)
    place = v["place"]
    if dialect(v) == "oa":
        schemas = {"T": T, "M": obj} if place == "before" else {"M": obj, "T": T}
        doc = {"openapi": "3.0.3" if v["target"] != "typelist" else "3.1.0", "info": {"title": "t", "version": "1"}, "paths": {},
               "components": {"schemas": schemas}}
        return {"files": {"doc.json": doc}, "entry": "doc.json", "ift": "openapi", "single": True}
    if place == "root":
        return {"files": {"doc.json": {"title": "M", **obj, "definitions": {"T": T}}}, "entry": "doc.json", "ift": "jsonschema", "single": True}
    if place in ("before", "after"):
        defs = {"T": T, "M": obj} if place == "before" else {"M": obj, "T": T}
        return {"files": {"doc.json": {"definitions": defs}}, "entry": "doc.json", "ift": "jsonschema", "single": True}
    mf, tf = file_names(v)
    tdoc = {"title": "T", **T} if in_root_of_file(v) else {"title": "Other", "type": "object", "definitions": {"T": T}}
    files = {mf: {"title": "M", **obj}, tf: tdoc}
    return {"files": files, "entry": mf if place == "external" else None, "ift": "jsonschema", "single": False}


# ---------------------------------------------------------------- running the real generator on files
def run_generate_files(files: dict, entry: str | None, *, input_file_type: str, model: str, opts: dict, timeout: float = 20.0) -> e2e.Result:
    """like e2e.run_generate, for input given as files: `entry` names the input file, None = the
    directory of all files is the input. Output goes to a directory when the input is a directory."""
    import datamodel_code_generator as d
    from datamodel_code_generator.format import Formatter  # noqa: F401

    work = Path(tempfile.mkdtemp(dir=e2e.scratch_root()))
    indir = work / "in"
    indir.mkdir()
    for name, doc in files.items():
        (indir / name).write_text(json.dumps(doc), encoding="utf-8")
    out = work / ("pkg" if entry is None else "out.py")
    kwargs = dict(opts)
    kwargs.setdefault("disable_timestamp", True)
    kwargs["formatters"] = []
    res = e2e.Result(ok=False)
    t0 = time.time()
    cwd = os.getcwd()
    try:
        with watchdog(timeout), warnings.catch_warnings(), contextlib.redirect_stderr(io.StringIO()):
            warnings.simplefilter("ignore")
            d.generate(indir if entry is None else indir / entry, input_file_type=d.InputFileType(input_file_type), output=out,
                       output_model_type=d.DataModelType(model), **kwargs)
        res.ok = True
    except Hang as e:
        res.hang = True
        res.error_type, res.error_msg = "Hang", str(e)
    except RecursionError as e:
        res.error_type, res.error_msg = "RecursionError", str(e)[:200]
    except BaseException as e:  # noqa: BLE001 - generator errors are data here
        if isinstance(e, (KeyboardInterrupt, SystemExit)):
            raise
        res.error_type, res.error_msg = type(e).__name__, str(e)[:300]
    finally:
        if os.getcwd() != cwd:
            os.chdir(cwd)
    res.wall_s = time.time() - t0
    if out.is_file():
        res.files["out.py"] = out.read_text(encoding="utf-8", errors="surrogateescape")
    elif out.is_dir():
        for p in sorted(out.rglob("*")):
            if p.is_file():
                res.files[str(p.relative_to(out))] = p.read_text(encoding="utf-8", errors="surrogateescape")
    shutil.rmtree(work, ignore_errors=True)
    return res


_pkg_counter = 0


def load_package(files: dict[str, str], kind: str, module: str):
    """Write the emitted package to a scratch directory, import `<pkg>.<module>`; returns (module,
    unload function). pydantic-v1-style output runs on `pydantic.v1` (every file is rewritten)."""
    global _pkg_counter
    _pkg_counter += 1
    pkg = f"dcgverif_pkg_{os.getpid()}_{_pkg_counter}"
    root = Path(tempfile.mkdtemp(dir=e2e.scratch_root()))
    for rel, code in files.items():
        if kind == "pydantic.BaseModel":
            code = code.replace("from pydantic import", "from pydantic.v1 import").replace(
                "from pydantic.dataclasses import", "from pydantic.v1.dataclasses import")
        p = root / pkg / rel
        p.parent.mkdir(parents=True, exist_ok=True)
        p.write_text(code, encoding="utf-8")
    if not (root / pkg / "__init__.py").exists():
        (root / pkg / "__init__.py").write_text("")

    def unload(_mod=None) -> None:
        for name in [n for n in sys.modules if n == pkg or n.startswith(pkg + ".")]:
            sys.modules.pop(name, None)
        with contextlib.suppress(ValueError):
            sys.path.remove(str(root))
        shutil.rmtree(root, ignore_errors=True)

    sys.path.insert(0, str(root))
    importlib.invalidate_caches()
    try:
        with warnings.catch_warnings():
            warnings.simplefilter("ignore")
            mod = importlib.import_module(f"{pkg}.{module}")
    except BaseException:
        unload()
        raise
    return mod, unload


def run_refvec(v: dict) -> dict:
    """One `$ref`-typed member through the real generator (runs in a worker process); same record as
    `c05.run_vector`."""
    c05._install_capture()
    c05._captured.clear()
    v = c05.norm_vec(v)
    inp = build_input(v)
    real = realise(v)
    docs = {"files": inp["files"], "entry": inp["entry"]}
    if inp["single"]:
        r = e2e.run_generate(inp["files"]["doc.json"], input_file_type=inp["ift"], model=v["kind"], opts=c05.opts_of(v))
    else:
        r = run_generate_files(inp["files"], inp["entry"], input_file_type=inp["ift"], model=v["kind"], opts=c05.opts_of(v))
    if not r.ok:
        return {"error": f"{r.error_type}: {r.error_msg[:200]}", "hang": r.hang, "document": docs}
    jn, pn = c05.JSON_NAME[v["name"]], c05.py_name(v)
    loader = None
    if "out.py" in r.files:
        code = r.code
    else:
        module = Path(file_names(v)[0]).stem
        code = r.files.get(f"{module}.py", "")
        files = dict(r.files)
        loader = lambda: load_package(files, v["kind"], module)  # noqa: E731
    try:
        ir = c05.ir_of_captured("M", pn)
    except Exception as e:  # noqa: BLE001
        ir = f"error:{type(e).__name__}"
    try:
        sh = c05.observe(code, None, v["dflt"] != "none", pn, jn)
    except SyntaxError as e:
        return {"error": f"unparsable: {e}", "code": code, "document": docs}
    sem = c05.semantics(code, v, real, sh, loader=loader)
    return {"shape": c05.shape_str(sh), "sh": sh, "sem": sem, "ir": ir, "line": c05.member_line(code, pn, jn, "M"),
            "member": real["member"], "document": docs}


# ---------------------------------------------------------------- function level: the rule on real objects
MODEL_CLASSES = [
    ("datamodel_code_generator.model.pydantic_v2", "BaseModel"),
    ("datamodel_code_generator.model.pydantic", "BaseModel"),
    ("datamodel_code_generator.model.dataclass", "DataClass"),
    ("datamodel_code_generator.model.typed_dict", "TypedDict"),
    ("datamodel_code_generator.model.msgspec", "Struct"),
]


def gen_events(rng, n_refs: int) -> list[tuple]:
    """a list of parse events: every reference is defined at most once (as the resolver guarantees),
    used any number of times, before and after its definition; some references are never defined"""
    evs: list[tuple] = []
    for r in range(n_refs):
        if rng.chance(5, 6):
            evs.append(("d", r, rng.chance(1, 2)))
        for _ in range(rng.choice([0, 1, 1, 2, 3])):
            evs.append(("u", r))
    return rng.shuffle(evs)


def events_sx(evs: list[tuple]) -> str:
    return ".".join(f"u{e[1]}" if e[0] == "u" else f"d{e[1]}{'t' if e[2] else 'f'}" for e in evs) or "-"


def campaign_refrule(ck: Check, n: int) -> None:
    camp = ck.campaign("nullable-reference rule: Model.Field.lazyFlags (is_optional of every DataType(reference=…) once the modules are rendered) "
                       "vs real Reference / DataType / DataModel(nullable=…) objects built in the order of random parse events, then type_hint")
    t0 = time.time()
    rng = ck.rng.fork("refrule")
    import datamodel_code_generator.reference as ref_mod
    import datamodel_code_generator.types as types_mod

    Reference = realcall.resolve(ck, camp, ref_mod, "Reference")
    DataType = realcall.resolve(ck, camp, types_mod, "DataType")
    classes = []
    for modname, clsname in MODEL_CLASSES:
        try:
            classes.append(realcall.resolve(ck, camp, importlib.import_module(modname), clsname, f"{modname}.{clsname}"))
        except ImportError as e:
            ck.disagree(camp, {"real_call": modname}, "the model class exists", f"ImportError: {e}")
    classes = [c for c in classes if c is not None]
    if Reference is None or DataType is None or not classes:
        camp.wall_s = time.time() - t0
        return
    cases = [[("u", 0), ("d", 0, True)], [("d", 0, True), ("u", 0)], [("u", 0), ("d", 0, False)], [("u", 0)],
             [("u", 0), ("u", 1), ("d", 1, True), ("d", 0, False), ("u", 1), ("u", 0)]]
    while len(cases) < n:
        cases.append(gen_events(rng, rng.choice([1, 2, 2, 3, 4])))
    replies = ck.driver.run([f"field.refrule {events_sx(e)}" for e in cases])
    for i, (evs, rep) in enumerate(zip(cases, replies)):
        camp.evaluations += 1
        key = events_sx(evs)
        inp = {"events": key, "legend": "u<r>: a member referring to definition r is parsed; d<r>t / d<r>f: definition r is parsed (nullable / not)"}
        cls = classes[i % len(classes)]
        uo = bool(i % 3 == 0)
        refs: dict = {}
        dts = []
        ok = True
        with realcall.guard(ck, camp, "Reference / DataType(reference=…) / DataModel(reference=…, nullable=…)", inp):
            for e in evs:
                if e[1] not in refs:
                    ok, refs[e[1]] = realcall.call(ck, camp, "Reference(path=, original_name=, name=)", Reference,
                                                   path=f"#/definitions/K{e[1]}", original_name=f"K{e[1]}", name=f"K{e[1]}", _case=inp)
                    if not ok:
                        break
                if e[0] == "u":
                    ok, dt = realcall.call(ck, camp, "DataType(reference=, use_union_operator=)", DataType, reference=refs[e[1]], use_union_operator=uo, _case=inp)
                    if not ok:
                        break
                    dts.append(dt)
                else:
                    ok, _m = realcall.call(ck, camp, f"{cls.__name__}(reference=, fields=, nullable=)", cls, reference=refs[e[1]], fields=[], nullable=e[2], _case=inp)
                    if not ok:
                        break
            if not ok:
                continue
            hints = [dt.type_hint for dt in dts]
            flags = "".join("1" if dt.is_optional else "0" for dt in dts)
            # the written hint must say the same as the flag
            text = "".join("1" if (h.startswith("Optional[") or h.endswith("| None")) else "0" for h in hints)
            impl = f"ok {flags}" if text == flags else f"hint/flag mismatch {flags} vs {hints}"
            model_lazy = rep.split("/")[0]
            camp.distinct.add(key)
            uses_before = any(e[0] == "u" and not any(d[0] == "d" and d[1] == e[1] for d in evs[:j]) and any(d[0] == "d" and d[1] == e[1] and d[2] for d in evs[j:])
                              for j, e in enumerate(evs))
            camp.hit("forward-reference-to-nullable" if uses_before else "no-forward-reference-to-nullable")
            camp.hit(f"uses:{min(len(dts), 5)}")
            if impl != model_lazy:
                note = ""
                if impl == "ok " + rep.split("/")[1]:
                    note = " (what the rule gives when it is evaluated at construction of the DataType)"
                ck.disagree(camp, inp, model_lazy, impl + note)
            elif len(camp.samples) < 3 and uses_before:
                camp.samples.append({"events": key, "is_optional": flags, "hints": hints})
    camp.wall_s = time.time() - t0


# ---------------------------------------------------------------- vectors for the end-to-end campaigns
def mk_rvec(kind, dl, target, place, inreq, d="none", bits=None, variant=0, via="own", name="plain") -> dict:
    opts = dict(bits) if isinstance(bits, dict) else {t: False for t in c05.OPT_TAG}
    return c05.norm_vec({"kind": kind, "nullsrc": f"{dl}-no", "inreq": bool(inreq), "dflt": d, "ty": "ref", "constr": False,
                         "target": target, "place": place, "opts": {**{t: False for t in c05.OPT_TAG}, **opts},
                         "variant": variant, "via": via, "name": name})


def cells() -> list[tuple[str, str, str]]:
    out = [("js", t, p) for t in ("no", "typelist") for p in JS_PLACES]
    out += [("oa", t, p) for t in TARGETS for p in OA_PLACES]
    return out


def core_block(kinds=None) -> list[dict]:
    """small scope, complete: kind × dialect × how the definition admits null × where it stands ×
    listed in `required` or not (all options off; OpenAPI also under strict-nullable; the file places
    with the definition under `definitions` of the other file and as its root)"""
    out = []
    for kind in kinds or c05.KINDS:
        for dl, target, place in cells():
            for inreq in (True, False):
                for sn in ((False, True) if dl == "oa" else (False,)):
                    for variant in ((0, 1) if place.startswith(("file", "external")) else (0,)):
                        v = mk_rvec(kind, dl, target, place, inreq, bits={"sn": sn}, variant=variant)
                        if c05.valid(v):
                            out.append(v)
    return out


def _draw_bits(rng) -> dict:
    bits = {t: rng.chance(1, 4) for t in c05.OPT_TAG}
    bits["ug"] = False  # no container in the space
    if bits["an"]:
        bits["fc"] = True
    return bits


def stratified(ck: Check, n: int) -> list[dict]:
    rng = ck.rng.fork("ref-vectors")
    cs = [(k, *c, r) for k in c05.KINDS for c in cells() for r in (0, 1)]
    order = rng.shuffle(cs)
    out = []
    i = 0
    while len(out) < n:
        k, dl, target, place, r = order[i % len(order)]
        i += 1
        v = mk_rvec(k, dl, target, place, r, rng.choice(["none", "none", "null"]), _draw_bits(rng), variant=rng.below(4),
                    via=rng.choice(c05.VIAS) if r else "own", name=rng.choice(c05.NAMES))
        if c05.valid(v):
            out.append(v)
    return out


def block(ck: Check | None = None, kinds=None) -> list[dict]:
    """thorough tier / search: kind × dialect × definition × place × required × default (none / null) ×
    {strict-nullable, use-default, force-optional} × where `required` is written; the remaining
    dimensions (strip-default-none, spelling options, kind of name, layout of the other file) are drawn"""
    rng = ck.rng.fork("ref-block") if ck is not None else None
    out = []
    for kind in kinds or c05.KINDS:
        for dl, target, place in cells():
            for inreq in (True, False):
                for d in REF_DFLT:
                    for sn, ud, fo in itertools.product((False, True), repeat=3):
                        for via in (c05.VIAS if inreq else ["own"]):
                            bits = {t: False for t in c05.OPT_TAG}
                            bits.update(sn=sn, ud=ud, fo=fo)
                            name, variant = "plain", 0
                            if rng is not None:
                                for t in ("sd", "kw", "fc", "sc", "uo", "us"):
                                    bits[t] = rng.chance(1, 5)
                                bits["an"] = bits["fc"] and rng.chance(1, 2)
                                name = rng.choice(c05.NAMES)
                                variant = rng.below(4)
                            v = mk_rvec(kind, dl, target, place, inreq, d, bits, variant=variant, via=via, name=name)
                            if c05.valid(v):
                                out.append(v)
    return out
