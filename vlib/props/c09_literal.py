"""C09 — Literal-mode enums inside a union with another type, when the rendered hint is re-parsed as text.

With `enum_field_as_literal` (all / one; always for TypedDict) an enum is rendered as `Literal['a', 'b,c', …]` inside the
member's hint.  `types.get_optional_type` / `_remove_none_from_union` (and the unused `_remove_none_from_type`) RE-PARSE the
rendered `Union[...]` / `a | b` text of optional members: the typing spelling is cut at the commas at bracket depth 0 and re-joined
with ", ", the operator spelling at every `\\s*\\|\\s*` and re-joined with " | ".  The string values of the Literal are part of
that text.

The family (`lkind: literal_union`): an object schema whose members are anyOf / oneOf of one or two string enums and another type
(integer, number, boolean, array of strings, map), as an optional member, a nullable one (`{"type": "null"}` among the
alternatives), a required one, a required nullable one, the items of an array, an optional member with a default that names a
value; the enum values are built from the characters the re-parser is sensitive to — comma with and without blanks around it,
`[` `]` balanced and not, the words `None`, `Optional[`, `Union[`, ` | `, quotes, backslash; typing and operator spelling;
pydantic v1 / v2, dataclass, TypedDict.

Oracle (the property, nothing more): the module imports, the annotations of the holder can be evaluated, and for every member
the arguments (`typing.get_args`) of all Literal types inside its annotation are exactly the enum values the member's schema
lists — same type, same content, as many (distinct values stay distinct); a default that names a value is that value.

Model tie: `campaign_surgery` runs the real `types._remove_none_from_union` / `get_optional_type` against the Lean model
(`Dcg.Model.Types.removeNone`, `getOptionalType` through the driver's `types.litunion`) on seeded unions with Literal members and
checks the Lean side's verdict `literalItemsOK` (Dcg/Proofs/TypesLiteral: under it the Literal member comes back verbatim) against
the harness's own statement of it; `search_literal` embeds every disagreeing hint into a complete document of the family.

Known finding C09-F8 (the C13 finding D9 seen through C09's oracle): outside `literalItemsOK` (typing spelling, optional /
nullable member: a `[` or `]` in a value that leaves the bracket count of the Literal's argument text open, or a `],`) and outside
`pipeItemsOK` (operator spelling: a `|` inside a value that is not written exactly ` | `, or ` | None | `) the surgery damages the
Literal.  The trigger is computed from the INPUT alone (`trigger_of`), with these two predicates.
"""
from __future__ import annotations

import json
import re
import time
import typing
from typing import Any

from .. import e2e
from ..common import Rng, hx
from ..runner import Check

# ---------------------------------------------------------------- the two regions, stated by the harness (input only)


def scan_top(d: int, s: str) -> int | None:
    """Dcg.Proofs.Types.scanTop: the bracket depth after `s` read from depth `d`; None when a `]` closes nothing or a `,`
    stands at depth 0"""
    for c in s:
        if c == "[":
            d += 1
        elif c == "]":
            if d == 0:
                return None
            d -= 1
        elif c == "," and d == 0:
            return None
    return d


def literal_items_ok(items: list[str]) -> bool:
    """Dcg.Proofs.TypesLiteral.literalItemsOK on the repr texts of the values: read from inside `Literal[`, the argument text never
    falls to depth 0 at a comma, never closes more than is open, and ends where it began"""
    return bool(items) and scan_top(1, ", ".join(items)) == 1


def pipe_items_ok(items: list[str]) -> bool:
    """Dcg.Proofs.TypesLiteral.pipeItemsOK: cutting the Literal's text at every `\\s*\\|\\s*`, dropping the pieces `None` and
    joining with " | " gives the text back"""
    t = "Literal[" + ", ".join(items) + "]"
    return " | ".join(p for p in re.split(r"\s*\|\s*", t) if p != "None") == t


OPTIONAL_SHAPES = ("optional", "nullable", "required_nullable", "default")
SHAPES = ("optional", "nullable", "required", "required_nullable", "items", "default")
OTHERS = {
    "integer": {"type": "integer"},
    "number": {"type": "number"},
    "boolean": {"type": "boolean"},
    "strings": {"type": "array", "items": {"type": "string"}},
    "map": {"type": "object", "additionalProperties": {"type": "integer"}},
}

OTHER_VALUES = {"integer": 3, "number": 0.5, "boolean": True, "strings": ["s"], "map": {"k": 1}}


def trigger_of(prop: dict, opts: dict) -> str:
    """trigger class of the known finding, from the input alone"""
    for vals in prop["enums"]:
        items = [repr(v) for v in vals]
        if opts.get("use_union_operator"):
            if not pipe_items_ok(items):
                return "literal_pipe_outside_pipeItemsOK"
        elif prop["shape"] in OPTIONAL_SHAPES and not literal_items_ok(items):
            return "literal_brackets_outside_literalItemsOK"
    return "none"


# ---------------------------------------------------------------- documents
def prop_schema(prop: dict) -> dict:
    alts: list[dict] = [{"type": "string", "enum": list(v)} for v in prop["enums"]]
    alts.insert(1, OTHERS[prop["other"]])
    if prop["shape"] in ("nullable", "required_nullable"):
        alts.append({"type": "null"})
    s: dict[str, Any] = {prop.get("comb", "anyOf"): alts}
    if prop["shape"] == "items":
        return {"type": "array", "items": s}
    if prop["shape"] == "default":
        s["default"] = prop["enums"][0][0]
    return s


def build_doc(props: list[dict]) -> dict:
    return {
        "title": "M",
        "type": "object",
        "required": [p["name"] for p in props if p["shape"] in ("required", "required_nullable")],
        "properties": {p["name"]: prop_schema(p) for p in props},
    }


def all_literal_args(tp, out: list, depth: int = 0) -> list:
    if typing.get_origin(tp) is typing.Literal:
        out.extend(typing.get_args(tp))
        return out
    if depth < 8:
        for a in typing.get_args(tp):
            all_literal_args(a, out, depth + 1)
    return out


def typed(v: Any) -> tuple[str, str]:
    return (type(v).__name__, repr(v))


# ---------------------------------------------------------------- one case
def check_lcase(ck: Check, camp, w: dict, *, top: bool = True) -> None:
    """w = {"lkind": "literal_union", "props": [{name, shape, comb, enums: [[…], …], other}], "model", "opts"}"""
    from datamodel_code_generator import LiteralType

    props, model, opts = w["props"], w["model"], w.get("opts", {})
    if top:
        camp.evaluations += 1
        camp.hit("kind:" + model)
        camp.hit("spelling:" + ("operator" if opts.get("use_union_operator") else "typing"))
        camp.hit("literal:" + str(opts.get("enum_field_as_literal")))
        for p in props:
            camp.hit("shape:" + p["shape"])
            camp.hit("trigger:" + trigger_of(p, opts))
    gopts = {k: v for k, v in opts.items() if k != "enum_field_as_literal"}
    if opts.get("enum_field_as_literal"):
        gopts["enum_field_as_literal"] = LiteralType(opts["enum_field_as_literal"])
    res = e2e.run_generate(build_doc(props), model=model, opts=gopts, timeout=10.0)

    def whole(mechanism: str, observed: str) -> None:
        # a failure of the whole module: localise it (one document per member), so that the class of the failure is the class of
        # the member that causes it and the replay input is minimal
        if len(props) > 1:
            before = len(ck.failures) + sum(ck.known_hits.values())
            for p in props:
                check_lcase(ck, camp, {**w, "props": [p]}, top=False)
            if len(ck.failures) + sum(ck.known_hits.values()) > before:
                return
        trig = "none"
        for p in props:
            t = trigger_of(p, opts)
            if t != "none":
                trig = t
        ck.fail({"oracle": "e2e_literal_union", "kind": model, "mechanism": mechanism, "trigger": trig}, w, observed)

    if res.hang:
        return whole("hang", "generate() did not return within 10 s")
    if not res.ok:
        return whole("generate_error", f"generate() raised {res.error_type}: {res.error_msg}")
    err = e2e.parses(res.code)
    if err:
        return whole("unparsable", f"emitted module does not parse: {err}")
    try:
        mod = e2e.load_module(res.code, model)
    except BaseException as e:  # noqa: BLE001
        if isinstance(e, (KeyboardInterrupt, SystemExit)):
            raise
        return whole("import_error", f"importing the emitted module raised {type(e).__name__}: {str(e)[:200]}")
    try:
        holder = getattr(mod, "M", None)
        try:
            hints = typing.get_type_hints(holder, include_extras=True)
        except Exception as e:  # noqa: BLE001
            return whole("annotation_error", f"the annotations of M cannot be evaluated: {type(e).__name__}: {str(e)[:200]}")
        camp.distinct.add(json.dumps(w, sort_keys=True))
        lines = {ln.strip().split(":")[0]: ln.strip() for ln in res.code.splitlines() if ":" in ln}
        for p in props:
            base = {"oracle": "e2e_literal_union", "kind": model, "trigger": trigger_of(p, opts)}
            inp = {**w, "props": [p]}
            want = sorted(typed(v) for vals in p["enums"] for v in vals)
            got = sorted(typed(v) for v in all_literal_args(hints.get(p["name"]), []))
            if got != want:
                ck.fail({**base, "mechanism": "literal_values"}, inp,
                        f"Literal arguments of member {p['name']} are {[g[1] for g in got]}, the schema lists {[x[1] for x in want]}; "
                        f"emitted: {lines.get(p['name'], '?')[:200]}")
                continue
            camp.hit("literal_exact")
            if p["shape"] == "default" and model != "typing.TypedDict":
                # the required members get a value of their OTHER alternative (no Literal takes part in building the instance)
                req = {q["name"]: OTHER_VALUES[q["other"]] for q in props if q["shape"] in ("required", "required_nullable")}
                try:
                    x = getattr(holder(**req), p["name"])
                except Exception:  # noqa: BLE001
                    camp.hit("default_unobserved:instance_not_built")
                    continue
                x = getattr(x, "root", getattr(x, "__root__", x))
                if typed(x) != typed(p["enums"][0][0]):
                    ck.fail({**base, "mechanism": "default_value"}, inp, f"default {p['enums'][0][0]!r} names an enum value but M().{p['name']} is {x!r}")
                else:
                    camp.hit("default_exact")
        if len(camp.samples) < 3 and top:
            camp.samples.append({"input": w, "emitted": [ln for ln in lines.values() if "Literal[" in ln][:3]})
    finally:
        e2e.unload(mod)


# ---------------------------------------------------------------- generators
# strata of values: what the two re-parsers are sensitive to (each stratum = a few strings in the same class)
STRATA: dict[str, list[str]] = {
    "comma_tight": ["a,b", "x,y,z", "1,2"],
    "comma_blank_before": ["a ,b", "x ,y", "a , b"],
    "comma_blanks_after": ["a,  b", "a,\tb", "x,   y"],
    "comma_one_blank": ["a, b", "x, y, z"],
    "comma_edges": [",", ", ", " ,", ",a", "a,", ",,"],
    "brackets_balanced": ["a[b]", "[a, b]", "[[x],[y]]", "f[1,2]"],
    "bracket_open": ["x[", "[", "a[b, c"],
    "bracket_close": ["x]", "]", "a], b"],
    "brackets_crossed": ["][", "a],[b", "], ["],
    "none_word": ["None", "a, None, b", "None, None", " None "],
    "optional_word": ["Optional[", "Optional[int]", "Optional[None]"],
    "union_word": ["Union[", "Union[a, None]", "Union[None, a]", "Union[int, str], None"],
    "pipe_spaced": ["a | b", "x | y | z"],
    "pipe_tight": ["a|b", "a |b", "a  |  b", "|"],
    "pipe_none": ["a | None | b", "None | a", "a | None"],
    "quotes": ["a'b", 'a"b', "a', 'b", "'", '"', "a\\', b"],
    "literal_word": ["Literal['a', 'b']", "Literal["],
    "plain": ["a", "b c", "d-e"],
}
PIECES = [",", " ,", ", ", ",  ", "[", "]", "[]", "][", "None", "Optional[", "Union[", " | ", "|", "'", '"', "a", "b", " ", "x y", "\\", "é"]


def gen_value(rng: Rng) -> str:
    if rng.chance(1, 2):
        return rng.choice(STRATA[rng.choice(list(STRATA))])
    return "".join(rng.choice(PIECES) for _ in range(rng.range(1, 4)))


def gen_values(rng: Rng, n: int) -> list[str]:
    out: list[str] = []
    while len(out) < n:
        v = gen_value(rng)
        if v not in out:
            out.append(v)
    return out


def gen_props(rng: Rng, shapes: tuple[str, ...], stratum: str | None = None) -> list[dict]:
    props = []
    for i, shape in enumerate(shapes):
        n = rng.range(1, 4)
        vals = (rng.sample(STRATA[stratum], min(n, len(STRATA[stratum]))) if stratum else gen_values(rng, n))
        if stratum and rng.chance(1, 2):
            vals = vals + [v for v in gen_values(rng, 1) if v not in vals]
        enums = [vals]
        if rng.chance(1, 6):
            enums.append([v for v in gen_values(rng, 2) if v not in vals] or ["zz"])
        props.append({"name": f"{shape[0]}{i}", "shape": shape, "comb": rng.choice(["anyOf", "anyOf", "oneOf"]), "enums": enums,
                      "other": rng.choice(list(OTHERS))})
    return props


# minimised past failures first (the round-6 seed family: a re-implementation of the typing-spelling splitter that normalises the
# blanks around commas inside the members; must hold on the unchanged tree)
CORPUS: list[dict] = [
    {"lkind": "literal_union", "model": "pydantic_v2.BaseModel", "opts": {"enum_field_as_literal": "all"},
     "props": [{"name": "o0", "shape": "optional", "comb": "anyOf", "enums": [["p,q", "p ,q", "p,  q", "p, q"]], "other": "integer"}]},
    {"lkind": "literal_union", "model": "dataclasses.dataclass", "opts": {"enum_field_as_literal": "one"},
     "props": [{"name": "n0", "shape": "nullable", "comb": "oneOf", "enums": [["u ,v"]], "other": "strings"}]},
    {"lkind": "literal_union", "model": "typing.TypedDict", "opts": {},
     "props": [{"name": "d0", "shape": "default", "comb": "anyOf", "enums": [["k,None,m", "k, None, m"]], "other": "number"}]},
    {"lkind": "literal_union", "model": "pydantic.BaseModel", "opts": {"enum_field_as_literal": "all", "use_union_operator": True},
     "props": [{"name": "o0", "shape": "optional", "comb": "anyOf", "enums": [["s | t", "s,t", "[s]"]], "other": "integer"}]},
]


def lit_opts(rng: Rng, props: list[dict], operator: bool) -> dict:
    single = all(len(p["enums"]) == 1 and len(p["enums"][0]) == 1 for p in props)
    o: dict[str, Any] = {"enum_field_as_literal": "one" if single and rng.chance(1, 2) else "all"}
    if operator:
        o["use_union_operator"] = True
    return o


def campaign_literal_union(ck: Check, n: int) -> None:
    camp = ck.campaign("e2e Literal-in-union oracle (enum_field_as_literal × anyOf/oneOf with another type × optional / nullable / required / "
                       "items / default × Union and | spelling × 4 model kinds: typing.get_args of every Literal = the schema's values)")
    t0 = time.time()
    rng = ck.rng.fork("literal_union")
    for w in CORPUS:
        check_lcase(ck, camp, w)
    # stratified: every stratum of sensitive values, in both spellings, all shapes in one document, the model kind rotating
    k = 0
    for stratum in STRATA:
        for operator in (False, True):
            props = gen_props(rng, SHAPES, stratum)
            model = e2e.EXECUTABLE_KINDS[k % 4]
            k += 1
            check_lcase(ck, camp, {"lkind": "literal_union", "props": props, "model": model, "opts": lit_opts(rng, props, operator)})
    for i in range(n):
        shapes = tuple(rng.sample(list(SHAPES), rng.range(1, 4)))
        props = gen_props(rng, shapes)
        model = e2e.EXECUTABLE_KINDS[(k + i) % 4]
        check_lcase(ck, camp, {"lkind": "literal_union", "props": props, "model": model, "opts": lit_opts(rng, props, rng.chance(1, 3))})
    camp.wall_s = time.time() - t0


# ---------------------------------------------------------------- correspondence: the text surgery on unions with Literal members
RAW_MEMBERS = ["int", "str", "float", "bool", "None", "List[str]", "Dict[str, int]", "Any", "Union[int, None]", "Optional[int]", "List[Union[int, None]]"]
RAW_TO_OTHER = {"int": "integer", "float": "number", "bool": "boolean", "List[str]": "strings", "Dict[str, int]": "map"}


def gen_members(rng: Rng) -> list[dict]:
    ms: list[dict] = []
    k = rng.range(1, 4)
    lit_at = rng.below(k)
    for i in range(k):
        if i == lit_at or rng.chance(1, 5):
            ms.append({"lit": gen_values(rng, rng.range(1, 3))})
        else:
            ms.append({"raw": rng.choice(RAW_MEMBERS)})
    return ms


def member_text(m: dict) -> str:
    return "Literal[" + ", ".join(repr(v) for v in m["lit"]) + "]" if "lit" in m else m["raw"]


def member_sx(m: dict) -> str:
    if "lit" in m:
        return "(lit " + " ".join(hx(repr(v)) for v in m["lit"]) + ")"
    return f"(raw {hx(m['raw'])})"


SURGERY_CORPUS = [
    [{"lit": ["p,q", "p ,q", "p,  q"]}, {"raw": "int"}],
    [{"raw": "None"}, {"lit": ["k,None,m", "k, None ,m"]}, {"raw": "List[str]"}],
    [{"lit": ["x[", "y"]}, {"raw": "int"}],
    [{"lit": ["a|b", "a  |  b", "a | None | b"]}, {"raw": "int"}, {"raw": "None"}],
    [{"lit": ["["]}, {"lit": ["]"]}, {"raw": "None"}],
]


def _call(fn, *a, **kw) -> str:
    try:
        return fn(*a, **kw)
    except RecursionError:
        return "!RecursionError"
    except Exception as e:  # noqa: BLE001
        return "!" + type(e).__name__


def campaign_surgery(ck: Check, n: int) -> None:
    from datamodel_code_generator.types import _remove_none_from_union, get_optional_type

    from ..common import unhx

    camp = ck.campaign("types.litunion (Model.Types.removeNone / getOptionalType on unions with Literal members, literalItemsOK / pipeItemsOK, "
                       "theorem literal_union_kept_verbatim_partial) vs types._remove_none_from_union / get_optional_type, both spellings")
    t0 = time.time()
    rng = ck.rng.fork("surgery")
    cases = [list(c) for c in SURGERY_CORPUS] + [gen_members(rng) for _ in range(n)]
    reps = ck.driver.run(["types.litunion (" + " ".join(member_sx(m) for m in ms) + ")" for ms in cases])
    for ms, rep in zip(cases, reps):
        camp.evaluations += 1
        texts = [member_text(m) for m in ms]
        inp = {"members": ms}
        if not rep.startswith("ok "):
            ck.disagree(camp, inp, rep, "a reply")
            continue
        f = rep.split(" ")
        items_ok, pipe_ok, raw_closed = f[1] == "1", f[2] == "1", f[3] == "1"
        m_hint_u, m_rm_u, m_opt_u, m_expect, m_hint_b, m_rm_b, m_opt_b = (unhx(x) for x in f[4:11])
        hint_u = "Union[" + ", ".join(texts) + "]"
        hint_b = " | ".join(texts)
        camp.distinct.add(hint_u)
        camp.hit(f"itemsOK:{int(items_ok)} pipeOK:{int(pipe_ok)}")
        # the regions as the harness states them (trigger_of) and as the Lean side decides them
        lits = [[repr(v) for v in m["lit"]] for m in ms if "lit" in m]
        if items_ok != all(literal_items_ok(i) for i in lits) or pipe_ok != all(pipe_items_ok(i) for i in lits):
            ck.disagree(camp, {**inp, "what": "region"}, [items_ok, pipe_ok], [all(literal_items_ok(i) for i in lits), all(pipe_items_ok(i) for i in lits)])
        if (m_hint_u, m_hint_b) != (hint_u, hint_b):
            ck.disagree(camp, {**inp, "what": "hint text"}, [m_hint_u, m_hint_b], [hint_u, hint_b])
            continue
        real = [_call(_remove_none_from_union, hint_u, use_union_operator=False), _call(get_optional_type, hint_u, False),
                _call(_remove_none_from_union, hint_b, use_union_operator=True), _call(get_optional_type, hint_b, True)]
        model = [m_rm_u, m_opt_u, m_rm_b, m_opt_b]
        for j, what in enumerate(("rmnone typing", "getopt typing", "rmnone operator", "getopt operator")):
            if real[j] != model[j]:
                ck.disagree(camp, {**inp, "what": what, "hint": hint_b if j >= 2 else hint_u, "operator": j >= 2}, model[j], real[j])
        # the theorem's instance: inside the region every member that is not None comes back verbatim
        if items_ok and raw_closed:
            camp.hit("theorem_instance")
            if m_rm_u != m_expect:
                ck.disagree(camp, {**inp, "what": "theorem instance"}, m_rm_u, m_expect)
            if real[0] != m_expect:
                camp.hit("real_differs_from_theorem")
        if len(camp.samples) < 3 and lits and len(ms) > 1:
            camp.samples.append({"hint": hint_u, "literalItemsOK": items_ok, "model": m_rm_u, "real": real[0]})
    camp.wall_s = time.time() - t0


# ---------------------------------------------------------------- targeted search
def search_literal(ck: Check) -> None:
    """When a proof or a correspondence broke: every disagreeing union of the surgery campaign is embedded into complete documents
    of the family (its Literal values as the enum, a raw member as the other alternative; optional / nullable / default / required
    nullable members; the spelling of the disagreement first; the four executable kinds) and judged by the value oracle; then the
    stratified family at a larger size."""
    camp = ck.campaign("search: disagreeing unions with Literal members embedded into documents, end to end")
    t0 = time.time()
    seen = set()
    for d in ck.disagreements:
        inp = d.input if isinstance(d.input, dict) else {}
        ms = inp.get("members")
        if not ms or not any("lit" in m for m in ms):
            continue
        key = json.dumps(ms, sort_keys=True)
        if key in seen:
            continue
        seen.add(key)
        enums = [list(m["lit"]) for m in ms if "lit" in m][:2]
        other = next((RAW_TO_OTHER[m["raw"]] for m in ms if m.get("raw") in RAW_TO_OTHER), "integer")
        spellings = (True, False) if inp.get("operator") else (False, True)
        for operator in spellings:
            for ki, model in enumerate(e2e.EXECUTABLE_KINDS[1:] + e2e.EXECUTABLE_KINDS[:1]):
                props = [{"name": f"{s[0]}{i}", "shape": s, "comb": "anyOf", "enums": enums, "other": other}
                         for i, s in enumerate(("optional", "nullable", "default", "required_nullable"))]
                opts: dict[str, Any] = {"enum_field_as_literal": "all"}
                if operator:
                    opts["use_union_operator"] = True
                check_lcase(ck, camp, {"lkind": "literal_union", "props": props, "model": model, "opts": opts})
                if ck.failures:
                    return
        if time.time() - t0 > 60:
            break
    rng = ck.rng.fork("literal_search")
    for i in range(300):
        props = gen_props(rng, tuple(rng.sample(list(SHAPES), 3)), rng.choice(list(STRATA)) if rng.chance(1, 2) else None)
        check_lcase(ck, camp, {"lkind": "literal_union", "props": props, "model": e2e.EXECUTABLE_KINDS[i % 4], "opts": lit_opts(rng, props, rng.chance(1, 3))})
        if ck.failures or time.time() - t0 > 120:
            return


def campaigns(ck: Check, quick: bool) -> None:
    campaign_surgery(ck, 600 if quick else 12000)
    campaign_literal_union(ck, 40 if quick else 1500)
