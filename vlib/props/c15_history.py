"""C15 — str vs Path AFTER A HISTORY: the same path is handed over more than once in one process and the file behind it
is REWRITTEN between the calls.

"A file path or the file's content as a string give the same classes" speaks about the file's CURRENT content. The one
thing a path has and a string has not is an identity that outlives the call: anything the generator remembers under
the path (the text it read, the type it inferred for it, a document it fetched for a `$ref`) is an answer about an
earlier state of the file. So the equivalence is checked along histories:

    write document 1 to P → generate(P) → write document 2 to P → generate(P) → …

and after EVERY write generate(P) is compared — with the pair oracle of the str-vs-Path campaign, per top-level
definition by ast.dump — with generate(<the text that is in the file now>) and, from the second write on, with
generate(P') where P' is a copy of the same files made at that moment under a path that was never handed over (a sibling
file is fetched from disk for a string too, so something remembered under the sibling's path would mislead both the
string and the path; the fresh copy is the hand-over of the same documents that has no history).

What is varied (by family, every history is made of documents of the ordinary schema-set generator):

* shape `file`     — P is the input file itself;
* shape `dir`      — the input is a DIRECTORY that holds the one file; the file is rewritten, the directory is handed over;
* shape `sibling`  — the input file refers into a sibling file (`common.json#/definitions/X`); the SIBLING is rewritten
                     (the main file stays or is rewritten too); the string side is run from the file's directory;
* input_file_type explicit or Auto (with Auto the KIND of document may change between the writes: JSON Schema → OpenAPI
  → JSON Schema, so that a remembered inference picks the wrong parser);
* JSON (compact / indented) or YAML text, suffixes .json / .yaml / .yml; encoding utf-8 / utf-16 (handed to generate());
* the new text padded to exactly the byte length of the old one or not; the file's mtime carried over or not (what a
  cache keyed by (path, size, mtime) would look at); two to four writes; a history that returns to an earlier document
  (A, B, A);
* the path compared after every write, or only after the last one (the earlier calls are then made but not compared —
  what matters is that they happened).

A failure is replayed with the WHOLE history (every document, in order, and the way each was written): the replay
process starts empty, so only the order of the calls can reproduce it.
"""
from __future__ import annotations

import contextlib
import io
import json
import os
import shutil
import tempfile
import time
import warnings
from pathlib import Path
from typing import Any

from .. import e2e
from ..common import Hang, Rng, watchdog
from ..runner import Check

V2 = "pydantic_v2.BaseModel"
PAIR = "str_vs_path_history"
SHAPES = ["file", "dir", "sibling"]
SIBLING = "common"
MAX_REPORTED = 8


# ------------------------------------------------------------------ one call of generate()
def run_gen(source, input_file_type: str, encoding: str = "utf-8", cwd: str | None = None, timeout: float = 20.0) -> e2e.Result:
    """generate() with the source handed over as it is (str or Path; a Path may be a directory); every module written
    is read back (the output is written in `encoding` too)"""
    import datamodel_code_generator as d

    work = tempfile.mkdtemp(dir=e2e.scratch_root())
    # no suffix: a one-module result becomes the FILE `out`, a modular one the DIRECTORY `out` — for a string, a file and
    # a directory alike (a suffix would make generate() refuse a modular result, and a directory input always gives one)
    out = Path(work) / "out"
    res = e2e.Result(ok=False)
    old = os.getcwd()
    try:
        if cwd:
            os.chdir(cwd)
        with watchdog(timeout), warnings.catch_warnings(), contextlib.redirect_stderr(io.StringIO()), contextlib.redirect_stdout(io.StringIO()):
            warnings.simplefilter("ignore")
            d.generate(source, input_file_type=d.InputFileType(input_file_type), output=out, encoding=encoding,
                       output_model_type=d.DataModelType(V2), formatters=[], disable_timestamp=True)
        res.ok = True
    except Hang as e:
        res.hang, res.error_type, res.error_msg = True, "Hang", str(e)
    except RecursionError as e:
        res.error_type, res.error_msg = "RecursionError", str(e)[:200]
    except BaseException as e:  # noqa: BLE001
        if isinstance(e, (KeyboardInterrupt, SystemExit)):
            raise
        res.error_type, res.error_msg = type(e).__name__, str(e)[:300]
    finally:
        os.chdir(old)
    if out.is_file():
        res.files["out.py"] = out.read_text(encoding=encoding, errors="replace")
    elif out.is_dir():
        for p in sorted(out.rglob("*.py")):
            res.files[str(p.relative_to(out))] = p.read_text(encoding=encoding, errors="replace")
    shutil.rmtree(work, ignore_errors=True)
    return res


def merged(res: e2e.Result) -> e2e.Result:
    """the definitions of a run as ONE module text (a directory input gives a package: `__init__.py` without definitions and
    one module per input file — here always exactly one file, so its module holds what the string gives)"""
    if len(res.files) <= 1:
        return res
    bodies = [t for name, t in sorted(res.files.items()) if not (name == "__init__.py" and not c15_class_map(t))]
    r = e2e.Result(ok=res.ok)
    r.hang, r.error_type, r.error_msg = res.hang, res.error_type, res.error_msg
    if len(bodies) == 1:
        r.files["out.py"] = bodies[0]
    else:
        r.files.update(res.files)
    return r


def c15_class_map(text: str) -> dict:
    from . import c15

    try:
        return c15.class_map(text)
    except SyntaxError:
        return {"<unparsable>": ""}


def same(by_text: e2e.Result, by_path: e2e.Result, shape: str) -> tuple[str, str] | None | bool:
    """the pair oracle; False = not comparable here (a MODULAR result of a directory input: its module paths are derived from
    the file's name, those of the string are not — modular results of file inputs are compared module by module)"""
    from . import c15, c15_refs

    if shape == "dir":
        by_path = merged(by_path)
        if by_text.ok and by_path.ok and (len(by_text.files) > 1 or len(by_path.files) > 1):
            return False
        return c15.compare(by_text, by_path, set())
    return c15_refs.compare_files(by_text, by_path, c15)


def same_dirs(a: e2e.Result, b: e2e.Result) -> tuple[str, str] | None:
    """two directory inputs with the same file names: the same modules, compared module by module"""
    from . import c15, c15_refs

    return c15_refs.compare_files(a, b, c15)


# ------------------------------------------------------------------ the documents of one step
def step_docs(step: dict, extra: dict) -> tuple[dict, str, dict | None]:
    """(main document, its kind, the sibling document or None)"""
    from . import c15

    defs, kind = step["definitions"], step.get("kind", "jsonschema")
    if extra["shape"] == "sibling":
        sib = {"definitions": step["sibling"]}
        rel = SIBLING + extra["suffix"]
        doc = {"$schema": "http://json-schema.org/draft-07/schema#", "type": "object",
               "properties": {nm.lower(): {"$ref": f"{rel}#/definitions/{nm}"} for nm in step["sibling_refs"]},
               "definitions": defs}
        return doc, "jsonschema", sib
    if kind == "openapi":
        return c15.wrap_openapi(defs), "openapi", None
    return c15.wrap_jsonschema(defs, step.get("container", "definitions"), step.get("with_root", True)), "jsonschema", None


def text_of(doc, suffix: str, style: str) -> str:
    from . import c15

    if suffix.lower() == ".json":
        return json.dumps(doc, ensure_ascii=False, indent=2) if style == "indent" else json.dumps(doc, ensure_ascii=False)
    return c15.yaml_text(doc)


def pad_to(text: str, nbytes: int, encoding: str) -> str:
    """the text followed by as many line ends as bring its encoded length to `nbytes` (never shorter than it is; a trailing
    line end changes neither a JSON nor a YAML document)"""
    unit = len("\n".encode(encoding.replace("utf-16", "utf-16-le")))
    have = len(text.encode(encoding))
    return text + "\n" * max(0, (nbytes - have) // unit)


def write(path: Path, text: str, encoding: str, keep_mtime: bool) -> None:
    st = path.stat() if (keep_mtime and path.exists()) else None
    path.write_text(text, encoding=encoding)
    if st is not None:
        os.utime(path, ns=(st.st_atime_ns, st.st_mtime_ns))


# ------------------------------------------------------------------ one history
def run_history(steps: list[dict], extra: dict) -> tuple[str, str, dict] | None:
    """The whole history in this process. None when after every compared write the path and the file's current text give the
    same definitions; else (mechanism, observed, {"step": index of the write, "stale_of_step": j or None})."""
    from . import c15

    shape, suffix, enc = extra["shape"], extra["suffix"], extra.get("encoding", "utf-8")
    auto = extra.get("ift", "explicit") == "auto"
    d = os.path.realpath(tempfile.mkdtemp(dir=e2e.scratch_root()))
    try:
        holder = Path(d) / "in" if shape == "dir" else Path(d)
        holder.mkdir(exist_ok=True)
        main = holder / ("main" + suffix)
        handed = holder if shape == "dir" else main
        cwd = d if shape == "sibling" else None
        text_results: list[e2e.Result] = []
        # every text of the history first: with `same_length` all texts written to one path are padded to the longest of them
        planned: list[tuple[str, str | None, str | None]] = []  # (input file type, main text or None = left alone, sibling text)
        for k, step in enumerate(steps):
            doc, kind, sib = step_docs(step, extra)
            style = step.get("style", "compact")
            keep_main = shape == "sibling" and k > 0 and bool(step.get("main_unchanged"))
            planned.append(("auto" if auto else kind, None if keep_main else text_of(doc, suffix, style), None if sib is None else text_of(sib, suffix, style)))
        if extra.get("same_length"):
            for col in (1, 2):
                longest = max((len(t[col].encode(enc)) for t in planned if t[col] is not None), default=0)
                planned = [tuple(pad_to(x, longest, enc) if (c == col and x is not None) else x for c, x in enumerate(t)) for t in planned]  # type: ignore[misc]
        for k, (ift, text, stext) in enumerate(planned):
            if text is not None:
                write(main, text, enc, bool(extra.get("keep_mtime")))
            if stext is not None:
                write(holder / (SIBLING + suffix), stext, enc, bool(extra.get("keep_mtime")))
            by_path = run_gen(handed, ift, enc, cwd)
            if extra.get("probe", "every") == "last" and k < len(steps) - 1:
                text_results.append(e2e.Result(ok=False))
                continue
            by_text = run_gen(main.read_text(encoding=enc), ift, enc, cwd)
            text_results.append(by_text)
            r = same(by_text, by_path, shape)
            against = "the file's current text"
            if r is False:
                text_results[-1] = e2e.Result(ok=False)
                continue
            if r is None and k > 0:
                # the same files under a path that has no history: a copy of the directory made now. (What is remembered under a
                # path can mislead the string side too — a sibling file is fetched from disk for a string as well.)
                fresh = os.path.realpath(tempfile.mkdtemp(dir=e2e.scratch_root()))
                try:
                    copy = Path(fresh) / "c"
                    shutil.copytree(d, copy)
                    by_fresh = run_gen(copy / handed.relative_to(d), ift, enc, str(copy) if cwd else None)
                finally:
                    shutil.rmtree(fresh, ignore_errors=True)
                r = same_dirs(by_fresh, by_path) if shape == "dir" else same(by_fresh, by_path, shape)
                against = "a fresh copy of the same files under another path"
            if r is not None:
                stale = None
                for j in range(k - 1, -1, -1):
                    old = text_results[j]
                    if (old.ok or old.error_type) and same(old, by_path, shape) is None:
                        stale = j
                        break
                return (r[0], f"after write {k + 1} of {len(steps)} to the same path (first = {against}, second = the path written to {k + 1} times)"
                        + (f" — the path gives what document {stale + 1} gave" if stale is not None else "") + f": {r[1]}",
                        {"step": k, "stale_of_step": stale, "against": against})
        return None
    finally:
        shutil.rmtree(d, ignore_errors=True)


def fresh_path_agrees(steps: list[dict], extra: dict) -> bool:
    """the LAST document alone, written once to a fresh path: do path and text agree? (tells a difference that needs the
    history from one that the document shows on its own)"""
    return run_history(steps[-1:], extra) is None


# ------------------------------------------------------------------ oracle + shrinking
def oracle_case(ck: Check, camp, steps: list[dict], extra: dict) -> None:
    from . import c15

    camp.evaluations += 1
    camp.hit(f"shape:{extra['shape']}")
    camp.hit(f"ift:{extra.get('ift', 'explicit')}")
    camp.hit(f"file:{extra['suffix']}")
    camp.hit(f"encoding:{extra.get('encoding', 'utf-8')}")
    camp.hit(f"writes:{len(steps)}")
    for key in ("same_length", "keep_mtime"):
        if extra.get(key):
            camp.hit(key)
    camp.hit(f"probe:{extra.get('probe', 'every')}")
    if len({s.get("kind", "jsonschema") for s in steps}) > 1:
        camp.hit("kind_changes_between_writes")
    if any(json.dumps(steps[i], sort_keys=True) == json.dumps(steps[j], sort_keys=True) for i in range(len(steps)) for j in range(i + 2, len(steps))):
        camp.hit("returns_to_earlier_document")
    r = run_history(steps, extra)
    if r is None:
        camp.hit("same_models_after_every_write")
        if len(camp.samples) < 2 and len(json.dumps([steps, extra])) < 1500:
            camp.samples.append({"pair": PAIR, "steps": steps, "extra": extra})
        return
    mech = r[0]

    def still(ss: list[dict], ex: dict) -> bool:
        rr = run_history(ss, ex)
        return rr is not None and rr[0] == mech

    # the history first: cut it after the failing write, then drop earlier writes, then simplify how it is written
    small, sx = steps[: r[2]["step"] + 1], dict(extra)
    if not still(small, sx):
        small = steps
    changed = True
    while changed and len(small) > 1:
        changed = False
        for i in range(len(small) - 1):
            cand = small[:i] + small[i + 1:]
            if still(cand, sx):
                small, changed = cand, True
                break
    for key, plain in (("same_length", False), ("keep_mtime", False), ("encoding", "utf-8"), ("probe", "every")):
        if sx.get(key) not in (None, plain) and still(small, {**sx, key: plain}):
            sx[key] = plain
    # then the documents, the last one first
    t_end = time.time() + 14.0
    for i in range(len(small) - 1, -1, -1):
        for field in ("definitions", "sibling"):
            part = small[i].get(field)
            if isinstance(part, dict) and part and time.time() < t_end:
                shr = c15.shrink_defs(part, lambda p, i=i, field=field: still(small[:i] + [{**small[i], field: p}] + small[i + 1:], sx), budget_s=4.0)
                small = small[:i] + [{**small[i], field: shr}] + small[i + 1:]
    r2 = run_history(small, sx)
    if r2 is None or r2[0] != mech:
        small, sx, r2 = steps, extra, r
    needs_history = len(small) > 1 and fresh_path_agrees(small, sx)
    trig = c15.string_trigger([[s.get("definitions"), s.get("sibling")] for s in small])
    camp.hit(f"differ:{PAIR}:{mech}:{'history' if needs_history else 'single_document'}")
    ck.fail({"oracle": "equivalent_inputs", "pair": "str_vs_path", "family": "history:" + sx["shape"], "mechanism": mech, "trigger": trig, "style": "",
             "input_file_type": sx.get("ift", "explicit"), "file_suffix": sx["suffix"], "writes": len(small),
             "needs_history": needs_history, "path_gives_earlier_document": r2[2]["stale_of_step"] is not None,
             "compared_with": "current_text" if r2[2]["against"].startswith("the file") else "fresh_copy",
             "has_exponent_float": "exponent_float" in trig, "has_astral_char": "astral_char" in trig},
            {"pair": PAIR, "steps": small, "extra": sx}, r2[1])


# ------------------------------------------------------------------ generator of histories
def gen_step(rng: Rng, extra: dict, kind: str) -> dict:
    from . import c15, c15_refs

    step: dict[str, Any] = {"definitions": c15.gen_defs(rng), "style": rng.choice(["compact", "compact", "indent"])}
    if extra["shape"] == "sibling":
        names = rng.sample(["Tol", "Unit", "Money", "Stamp", "Level"], rng.range(1, 3))
        step["sibling"] = {nm: (c15_refs.object_schema(rng, [], "") if rng.chance(1, 2) else c15_refs.scalar_schema(rng, [], "")) for nm in names}
        step["sibling_refs"] = names if rng.chance(2, 3) else names[:1]
        return step
    step["kind"] = kind
    if kind == "jsonschema":
        step["with_root"] = rng.choice([False, True, True, 2])
        step["container"] = rng.choice(["definitions", "definitions", "$defs"])
    return step


def gen_history(rng: Rng, i: int) -> tuple[list[dict], dict]:
    shape = SHAPES[i % 3] if i % 4 != 3 else "file"
    suffix = rng.choice([".json", ".json", ".json", ".yaml", ".yml"])
    # what a cache keyed by more than the path would look at: the size and/or the mtime of the file stay the same
    disguise = rng.choice(["none", "none", "none", "same_length", "keep_mtime", "both", "both"])
    extra: dict[str, Any] = {"shape": shape, "suffix": suffix, "ift": "auto" if rng.chance(2, 5) else "explicit",
                             "encoding": "utf-16" if rng.chance(1, 6) else "utf-8", "same_length": disguise in ("same_length", "both"),
                             "keep_mtime": disguise in ("keep_mtime", "both"), "probe": "last" if rng.chance(1, 6) else "every"}
    n = 2 if i % 4 else rng.range(3, 4)
    kinds = ["jsonschema"] * n
    if shape != "sibling":
        if extra["ift"] == "auto" and rng.chance(1, 2):
            kinds = [rng.choice(["jsonschema", "openapi"]) for _ in range(n)]
            if len(set(kinds)) == 1:
                kinds[-1] = "openapi" if kinds[0] == "jsonschema" else "jsonschema"
        elif rng.chance(1, 3):
            kinds = ["openapi"] * n
    steps = [gen_step(rng, extra, kinds[k]) for k in range(n)]
    if n >= 3 and rng.chance(1, 2):
        steps[-1] = json.loads(json.dumps(steps[0]))  # A, B, …, A
    if shape == "sibling":
        for k in range(1, n):
            if rng.chance(1, 2):
                steps[k]["main_unchanged"] = True
                steps[k]["definitions"] = steps[k - 1]["definitions"]
                # the unchanged main file keeps its `$ref`s: the rewritten sibling must still hold what they name
                steps[k]["sibling_refs"] = steps[k - 1]["sibling_refs"]
                for nm in steps[k]["sibling_refs"]:
                    steps[k]["sibling"].setdefault(nm, {"type": "object", "properties": {"changed": {"type": "integer"}}})
    return steps, extra


_A = {"Item": {"type": "object", "properties": {"id": {"type": "integer"}, "name": {"type": "string"}}, "required": ["id"]}}
_B = {"Item": {"type": "object", "properties": {"id": {"type": "string"}, "price": {"type": "number"}}, "required": ["price"]}, "Tag": {"type": "object", "properties": {"label": {"type": "string"}}}}
_SA = {"Tol": {"type": "object", "properties": {"v": {"type": "number", "default": 0.5}}}}
_SB = {"Tol": {"type": "object", "properties": {"v": {"type": "string"}, "unit": {"type": "string", "enum": ["yes", "no"]}}}}

CORPUS: list[tuple[list[dict], dict]] = [
    # the smallest member of every shape × explicit/Auto
    *[([{"definitions": _A, "with_root": True, "kind": "jsonschema"}, {"definitions": _B, "with_root": True, "kind": "jsonschema"}],
       {"shape": shape, "suffix": suffix, "ift": ift, "encoding": "utf-8"})
      for shape in ("file", "dir") for ift in ("explicit", "auto") for suffix in (".json", ".yaml")],
    ([{"definitions": _A, "with_root": True, "kind": "jsonschema"}, {"definitions": _B, "kind": "openapi"}, {"definitions": _A, "with_root": True, "kind": "jsonschema"}],
     {"shape": "file", "suffix": ".json", "ift": "auto", "encoding": "utf-8", "same_length": True, "keep_mtime": True}),
    ([{"definitions": _A, "with_root": False, "kind": "jsonschema"}, {"definitions": _B, "with_root": False, "kind": "jsonschema"}],
     {"shape": "file", "suffix": ".json", "ift": "explicit", "encoding": "utf-16", "probe": "last"}),
    *[([{"definitions": _A, "sibling": _SA, "sibling_refs": ["Tol"]}, {"definitions": _A, "sibling": _SB, "sibling_refs": ["Tol"], "main_unchanged": unchanged}],
       {"shape": "sibling", "suffix": suffix, "ift": "explicit", "encoding": "utf-8", "same_length": unchanged, "keep_mtime": unchanged})
      for unchanged in (True, False) for suffix in (".json", ".yaml")],
]


def campaign_history(ck: Check, n: int) -> None:
    camp = ck.campaign("e2e differential str vs Path after a history: the same path (input file / the file of an input directory / a sibling file a `$ref` "
                       "fetches) is rewritten between calls of generate() in one process; after every write generate(path) = generate(current text) "
                       "(per-ClassDef AST)")
    t0 = time.time()
    rng = ck.rng.fork("history")
    before = len(ck.failures)
    for steps, extra in CORPUS:
        camp.distinct.add(json.dumps([steps, extra], sort_keys=True))
        oracle_case(ck, camp, steps, extra)
    for i in range(n):
        if len(ck.failures) - before >= MAX_REPORTED:
            camp.hit("stopped_after_%d_failing_histories" % MAX_REPORTED)  # each is shrunk and reported; more of them add time, not information
            break
        steps, extra = gen_history(rng, i)
        camp.distinct.add(json.dumps([steps, extra], sort_keys=True))
        oracle_case(ck, camp, steps, extra)
    camp.wall_s = time.time() - t0


def search(ck: Check) -> None:
    """targeted (run when an obligation or a tie broke): the two-write history of every shape × explicit/Auto × suffix ×
    encoding × same-length × kept-mtime"""
    camp = ck.campaign("search: two writes to the same path, every shape × explicit/Auto × suffix × encoding × same length × kept mtime")
    for shape in SHAPES:
        for ift in ("explicit", "auto"):
            for suffix in (".json", ".yaml"):
                for enc in ("utf-8", "utf-16"):
                    for same in (False, True):
                        extra = {"shape": shape, "suffix": suffix, "ift": ift, "encoding": enc, "same_length": same, "keep_mtime": same}
                        if shape == "sibling":
                            steps = [{"definitions": _A, "sibling": _SA, "sibling_refs": ["Tol"]}, {"definitions": _A, "sibling": _SB, "sibling_refs": ["Tol"], "main_unchanged": True}]
                        else:
                            steps = [{"definitions": _A, "with_root": True, "kind": "jsonschema"}, {"definitions": _B, "with_root": True, "kind": "jsonschema"}]
                        oracle_case(ck, camp, steps, extra)
                        if ck.failures:
                            return
