"""C11 — definitions that are FOLDED into another one (duplicates), and everybody who uses them.

Three passes of Parser.parse() remove a model from a module and re-point its users:
  * __delete_duplicate_models, alias branch: a definition that is only `{"$ref": X}` whose class name equals X's;
  * __delete_duplicate_models, twin branch: a definition with the class name of an earlier one and the same rendering;
  * __reuse_model (option reuse_model): an Enum with the rendering of an earlier model (object models become
    `class N(T): pass`).
C11 says the classes written are the models built, each once, every class after its bases, every name that is
used is defined. The family generated here: a target definition T (object or enum), 1..2 definitions folded into it
(same class name through another spelling of the key / $ref-only alias / another name with the same body), and
k = 0..6 USERS of each (members, array items, subclasses, chains of subclasses) in 1..3 user models whose names sort
before and after T — under keep_model_order x reuse_model x every output kind.

The oracle is the property's own: generate() returns, the module parses, every expected class is bound exactly
once, the module imports (no NameError), every class is usable (forward references resolve).
"""
from __future__ import annotations

import ast
import copy
import json
import typing

from .. import cpuwatch, e2e
from ..common import Hang, watchdog

KINDS = ["pydantic_v2.BaseModel", "pydantic.BaseModel", "dataclasses.dataclass", "typing.TypedDict"]
LETTERS = "ABCKMXZ"
WATCHDOG_S = 6
REF = "#/definitions/"


def spellings(name: str) -> list[str]:
    """other keys that the generator's class-name normalisation maps to the class name `name` (= letter + digits)"""
    a, d = name[0], name[1:]
    return [a.lower() + d, f"{a}_{d}", f"{a}-{d}", f"{a} {d}", f"{a.lower()}_{d}", f"{name}_"]


def _obj(own: str, members=(), base: str | None = None) -> dict:
    props: dict = {own: {"type": "integer"}}
    for nm, how, to in members:
        props[nm] = {"$ref": REF + to} if how == "plain" else {"type": "array", "items": {"$ref": REF + to}}
    body = {"type": "object", "properties": props}
    return {"allOf": [{"$ref": REF + base}, body]} if base else body


def dup_doc(rng, focus: str | None = None) -> dict:
    """one document of the family. `focus`: "keep" biases towards folded BASE classes under keep_model_order,
    "users" towards many users of a folded definition, "reuse" towards definitions with another name and the same
    body under reuse_model (enums are dropped, objects become subclasses); None: anything."""
    names = rng.shuffle([a + str(d) for a in LETTERS for d in range(1, 10)])
    fresh = iter(names)
    t = next(fresh)
    form = "object" if focus == "keep" or rng.chance(1, 2 if focus != "reuse" else 3) else "enum"
    defs: dict[str, dict] = {}
    expect: list[list[str]] = []
    helper = None
    if form == "object":
        members = []
        if rng.chance(1, 3):  # the target itself refers to another model
            helper = next(fresh)
            defs[helper] = _obj("h" + helper)
            expect.append([helper])
            members.append(("to" + helper, "plain", helper))
        tbase = None
        if rng.chance(1, 4):  # … or inherits from one
            tbase = next(fresh)
            defs[tbase] = _obj("b" + tbase)
            expect.append([tbase])
        tbody = _obj("v" + t, members, tbase)
    else:
        tbody = {"type": "string", "enum": [f"e{t}{i}" for i in range(rng.range(1, 3))]}
    defs[t] = tbody
    tgroup = [t]
    expect.append(tgroup)
    reuse = True if focus == "reuse" else rng.chance(1, 2)
    keep = True if focus == "keep" else rng.chance(1, 2)
    # the folded definitions
    hows = ["same-name", "ref-alias", "reuse-twin"]
    sp = rng.shuffle(spellings(t))
    folded: list[tuple[str, str]] = []
    for nth in range(rng.range(1, 2)):
        how = rng.choice(hows[:2] if focus == "keep" else hows[2:] if focus == "reuse" and nth == 0 else hows)
        if how == "same-name":
            key = sp.pop()
            defs[key] = copy.deepcopy(tbody)
        elif how == "ref-alias":
            key = sp.pop()
            defs[key] = {"$ref": REF + t}
        else:
            key = next(fresh)
            defs[key] = copy.deepcopy(tbody)
            if form == "enum" and reuse:
                tgroup.append(key)  # one of the two is dropped, whichever the sorter put second
            else:
                expect.append([key])
        folded.append((key, how))
    # the users
    targets = [k for k, _ in folded] + ([t] if rng.chance(1, 2) else [])
    n_users = rng.range(1, 3)
    users = [next(fresh) for _ in range(n_users)]
    members_of: dict[str, list] = {u: [] for u in users}
    for d in targets:
        k = rng.range(3, 6) if focus in ("users", "reuse") and d != t else rng.range(0, 6)
        for i in range(k):
            u = rng.choice(users)
            members_of[u].append((f"f{len(members_of[u])}", "plain" if rng.chance(2, 3) else "array", d))
    for u in users:
        defs[u] = _obj("u" + u, members_of[u])
        expect.append([u])
    if form == "object":
        subs = rng.range(1, 3) if focus == "keep" else rng.below(3)
        for _ in range(subs):
            how_of = dict(folded)
            cands = [d for d in targets if how_of.get(d) != "ref-alias" or rng.chance(1, 6)] or [t]
            base = rng.choice(cands)
            s = next(fresh)
            defs[s] = _obj("s" + s, (), base)
            expect.append([s])
            if rng.chance(1, 3):  # a chain: subclass of the subclass
                s2 = next(fresh)
                defs[s2] = _obj("s" + s2, (), s)
                expect.append([s2])
    keys = rng.shuffle(list(defs))
    doc = {"$schema": "http://json-schema.org/draft-07/schema#", "definitions": {k: defs[k] for k in keys}}
    opts = {}
    if keep:
        opts["keep_model_order"] = True
    if reuse:
        opts["reuse_model"] = True
    return {"doc": doc, "expect": expect, "opts": opts}


# ---------------------------------------------------------------------------------------------
def features(doc: dict) -> dict:
    """what the document contains, for the distribution and for classifying a failure by its trigger"""
    defs = doc.get("definitions", {})

    def is_alias(body) -> bool:
        return isinstance(body, dict) and set(body) == {"$ref"}

    def target(ref: str) -> str:
        return ref[len(REF):] if ref.startswith(REF) else ref

    uses: dict[str, int] = {}
    base_uses: dict[str, int] = {}

    def walk(x, as_base=False) -> None:
        if isinstance(x, dict):
            if "$ref" in x and isinstance(x["$ref"], str):
                d = uses if not as_base else base_uses
                d[target(x["$ref"])] = d.get(target(x["$ref"]), 0) + 1
            for k, v in x.items():
                if k == "allOf" and isinstance(v, list):
                    for item in v:
                        if isinstance(item, dict) and set(item) == {"$ref"}:
                            walk(item, True)
                        else:
                            walk(item)
                elif k != "$ref":
                    walk(v)
        elif isinstance(x, list):
            for v in x:
                walk(v)

    for k, body in defs.items():
        if not is_alias(body):
            walk(body)
    aliases = [k for k, b in defs.items() if is_alias(b)]
    bodies: dict[str, list[str]] = {}
    for k, b in defs.items():
        if not is_alias(b):
            bodies.setdefault(json.dumps(b, sort_keys=True), []).append(k)
    twins = [k for ks in bodies.values() if len(ks) > 1 for k in ks]
    folded = set(aliases) | set(twins)
    return {
        "alias_as_base": any(base_uses.get(a) for a in aliases),
        "twin_as_base": any(base_uses.get(k) for k in twins),
        "aliases": len(aliases),
        "twins": len(twins),
        "enum_twins": any(isinstance(defs[k], dict) and "enum" in defs[k] for k in twins),
        "max_users_of_folded": max([uses.get(k, 0) for k in folded] or [0]),
    }


def dups_case(ck, camp, case: dict, kind: str):
    """the property's oracle on one document. `case` = {"doc", "expect", "opts"}; returns the class order or None"""
    from .c11 import eager_use_of, top_level  # the same readers of the emitted module as the graph campaigns

    camp.evaluations += 1
    doc, expect, opts = case["doc"], case["expect"], dict(case.get("opts") or {})
    ft = features(doc)
    camp.hit("kind:" + kind)
    for k in sorted(opts):
        if opts[k]:
            camp.hit(k)
    camp.hit("users of a folded definition: %s" % (ft["max_users_of_folded"] if ft["max_users_of_folded"] < 6 else "6+"))
    for k in ("alias_as_base", "twin_as_base", "enum_twins"):
        if ft[k]:
            camp.hit(k)
    if ft["aliases"]:
        camp.hit("$ref-only alias of a same-named definition")
    inp = {"target": "e2e-dups", "doc": doc, "expect": expect, "opts": opts, "kind": kind}
    cls = {"oracle": "e2e-dups", "kind": kind, "keep_model_order": bool(opts.get("keep_model_order")), "reuse_model": bool(opts.get("reuse_model")),
           "alias_as_base": ft["alias_as_base"], "collapse_root_models": bool(opts.get("collapse_root_models"))}
    res = e2e.run_generate(doc, model=kind, opts=opts, timeout=WATCHDOG_S)
    res = cpuwatch.settle_hang(camp, res, lambda t: e2e.run_generate(doc, model=kind, opts=opts, timeout=t))  # a loaded machine is not a hang
    if res is None:
        return None
    if res.hang:
        ck.fail({**cls, "mechanism": "hang"}, inp, f"generate() does not terminate ({WATCHDOG_S} s watchdog, confirmed with {int(cpuwatch.CONFIRM_WALL_S)} s)")
        return None
    if not res.ok:
        ck.fail({**cls, "mechanism": "error_on_acyclic", "error_type": res.error_type}, inp,
                f"generate() raised {res.error_type}: {res.error_msg} on a document without any inheritance cycle")
        return None
    camp.distinct.add((json.dumps(doc, sort_keys=True), kind, json.dumps(opts, sort_keys=True)))
    err = e2e.parses(res.code)
    if err:
        ck.fail({**cls, "mechanism": "unparsable"}, inp, err)
        return None
    defs, _footer = top_level(res.code)
    names = [d[1] for d in defs]
    twice = sorted({x for x in names if names.count(x) > 1})
    if twice:
        ck.fail({**cls, "mechanism": "lost_or_duplicated"}, inp, f"{twice} bound more than once at top level: {names}")
        return None
    for group in expect:
        if not any(x in names for x in group):
            ck.fail({**cls, "mechanism": "lost_or_duplicated"}, inp, f"no class for the definition(s) {group}: top level binds {names}")
            return None
    if opts.get("collapse_root_models"):
        # --collapse-root-models takes a root model out of the module only when it was inlined wherever it was used:
        # a definition of the document that the module still NAMES (annotation, base class) must still be bound
        import ast

        named = {x.id for x in ast.walk(ast.parse(res.code)) if isinstance(x, ast.Name)}
        gone = sorted(k for k in doc.get("definitions", {}) if k in named and k not in names)
        if gone:
            ck.fail({**cls, "mechanism": "lost_while_referenced"}, inp, f"the module names {gone} but binds no such class: top level binds {names}")
            return None
    pos = {nm: k for k, nm in enumerate(names)}
    for what, nm, info in defs:
        if what == "class":
            for b in info:
                if b in pos and pos[b] >= pos[nm]:
                    ck.fail({**cls, "mechanism": "base_after_derived"}, inp, f"class {nm}({', '.join(info)}) is written before its base {b}; order {names}")
                    return None
    try:
        with watchdog(30):
            return _use(ck, camp, kind, inp, cls, res.code, defs, names)
    except Hang:
        camp.unmodelled += 1
        return None


def _use(ck, camp, kind, inp, cls, code, defs, names):
    import enum

    from .c11 import eager_use_of

    try:
        mod = e2e.load_module(code, kind)
    except Exception as ex:  # noqa: BLE001
        ck.fail({**cls, "mechanism": "import_error", "eager_use": eager_use_of(code, ex)}, inp,
                f"import of the emitted module fails: {type(ex).__name__}: {str(ex)[:200]}")
        return None
    try:
        for what, nm, _ in defs:
            if what != "class":
                continue
            c = getattr(mod, nm)
            if isinstance(c, type) and issubclass(c, enum.Enum):
                continue
            try:
                if kind == "pydantic_v2.BaseModel":
                    c.model_rebuild(force=True)
                    if "RootModel" not in [b.__name__ for b in c.__mro__]:
                        c.model_validate({})
                elif kind == "pydantic.BaseModel":
                    c.update_forward_refs()
                    if "__root__" not in getattr(c, "__fields__", {}):
                        c.parse_obj({})
                else:
                    typing.get_type_hints(c)
            except Exception as ex:  # noqa: BLE001
                undefined = isinstance(ex, NameError) or "not defined" in str(ex) or "not fully defined" in str(ex)
                ck.fail({**cls, "mechanism": "undefined_name" if undefined else "unusable"}, inp,
                        f"class {nm} is not usable after import: {type(ex).__name__}: {' '.join(str(ex).split())[:200]}")
                return None
    finally:
        e2e.unload(mod)
    if len(camp.samples) < 2 and len(names) >= 5:
        camp.samples.append({"definitions": list(inp["doc"]["definitions"]), "opts": inp["opts"], "kind": kind, "class_order": names})
    return names


# ---------------------------------------------------------------------------------------------
# shrinking the failing document that becomes the replay (delta debugging over definitions and members)
class _Probe:
    """just enough of Check / Campaign for dups_case"""

    def __init__(self):
        self.failures, self.evaluations, self.unmodelled = [], 0, 0
        self.distinct, self.samples = set(), [None, None]

    def fail(self, classification, input_, observed, expected=""):
        self.failures.append((classification, input_, observed))
        return True

    def hit(self, key, n=1):
        pass


def _still_fails(case: dict, kind: str, mechanism: str):
    pr = _Probe()
    dups_case(pr, pr, case, kind)
    return pr.failures[0] if pr.failures and pr.failures[0][0]["mechanism"] == mechanism else None


def _referenced(defs: dict, key: str) -> bool:
    return (REF + key) in {x for k, b in defs.items() if k != key for x in _refs(b)}


def _refs(x):
    if isinstance(x, dict):
        for k, v in x.items():
            if k == "$ref" and isinstance(v, str):
                yield v
            else:
                yield from _refs(v)
    elif isinstance(x, list):
        for v in x:
            yield from _refs(v)


def shrink_first(ck) -> None:
    """when the first oracle failure of the run is a document of this family: drop unreferenced definitions and members
    as long as the SAME mechanism still fails; the smaller document becomes the replay"""
    if len(ck.failures) != 1 or not isinstance(ck.failures[0].input, dict) or ck.failures[0].input.get("target") != "e2e-dups":
        return
    f = ck.failures[0]
    kind, mech = f.input["kind"], f.classification["mechanism"]
    case = {"doc": copy.deepcopy(f.input["doc"]), "expect": copy.deepcopy(f.input["expect"]), "opts": dict(f.input["opts"])}
    best = None
    for _round in range(3):
        changed = False
        defs = case["doc"]["definitions"]
        for key in list(defs):
            if _referenced(defs, key):
                continue
            cand = {"doc": {**case["doc"], "definitions": {k: v for k, v in defs.items() if k != key}},
                    "expect": [g2 for g2 in ([x for x in g if x != key] for g in case["expect"]) if g2], "opts": case["opts"]}
            got = _still_fails(cand, kind, mech)
            if got:
                case, best, changed = cand, got, True
                defs = case["doc"]["definitions"]
        for key in list(defs):
            body = defs[key]
            objs = [body] if "properties" in body else [b for b in body.get("allOf", []) if isinstance(b, dict) and "properties" in b]
            for o in objs:
                for pname in list(o["properties"]):
                    if len(o["properties"]) == 1:
                        break
                    cand = copy.deepcopy(case)
                    cb = cand["doc"]["definitions"][key]
                    co = cb if "properties" in cb else [b for b in cb["allOf"] if isinstance(b, dict) and "properties" in b][0]
                    del co["properties"][pname]
                    got = _still_fails(cand, kind, mech)
                    if got:
                        case, best, changed = cand, got, True
                        defs = case["doc"]["definitions"]
                        o = co
        for opt in list(case["opts"]):
            cand = {**case, "opts": {k: v for k, v in case["opts"].items() if k != opt}}
            got = _still_fails(cand, kind, mech)
            if got:
                case, best, changed = cand, got, True
        if not changed:
            break
    if best is not None:
        f.classification, f.input, f.observed = best


CORPUS: list[dict] = []


def campaign_dups(ck, n_docs: int) -> None:
    camp = ck.campaign("e2e folded definitions (same class name / $ref-only alias / identical body) x k users x keep_model_order x reuse_model: "
                       "every class once, bases first, module imports, every name used is defined")
    import time

    t0 = time.time()
    rng = ck.rng.fork("e2e-dups")
    shrunk = bool(ck.failures)
    for case in CORPUS:
        for kind in KINDS:
            dups_case(ck, camp, case, kind)
    for i in range(n_docs):
        case = dup_doc(rng, (None, "keep", "users", "reuse")[i % 4])
        for kind in (KINDS if i % 8 == 1 else [KINDS[0], rng.choice(KINDS[1:])] if i % 2 == 0 else [rng.choice(KINDS)]):
            dups_case(ck, camp, case, kind)
            if len(ck.failures) == 1 and not shrunk:
                shrunk = True
                shrink_first(ck)
    camp.wall_s = time.time() - t0


def search_dups(ck) -> None:
    """a theorem or a correspondence broke: the folded-definition family again, larger and biased towards what broke"""
    camp = ck.campaign("search: folded definitions x users x keep_model_order / reuse_model, end to end")
    rng = ck.rng.fork("search-dups")
    broken = " ".join(sorted({d.campaign for d in ck.disagreements}) + sorted(ck.broken))
    focus = ["keep", "users", "reuse"]
    if "sort_models" in broken or "sortModels" in broken:
        focus = ["keep", "keep", None]
    if "repoint" in broken.lower() or "replace_reference" in broken:
        focus = ["users", "reuse", None]
    for i in range(600):
        case = dup_doc(rng, focus[i % 3])
        for kind in (KINDS[0], KINDS[2]) if i % 2 else (KINDS[0], KINDS[1]):
            dups_case(ck, camp, case, kind)
            if ck.failures:
                shrink_first(ck)
                return


def replay_case(ck, camp, inp: dict) -> None:
    dups_case(ck, camp, {"doc": inp["doc"], "expect": inp["expect"], "opts": inp.get("opts") or {}}, inp["kind"])
