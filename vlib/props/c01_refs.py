"""C01 campaign: malformed and unusual JSON pointers in `$ref` (JSON Schema and OpenAPI), under the watchdog.

Family: local `$ref`s whose fragment is a JSON pointer with an empty segment (trailing slash, doubled slash, the empty
key), `~0` / `~1` escapes (proper and improper), percent-encoding, a pointer into a sub-schema (`/properties/x`,
`/items`, `/allOf/0`), to a value that is not a schema (`/type`, `/required`, `/required/0`, `/description`), into an
array (index in and out of range, `-`, leading zero), to the document itself (`#`, `#/`, the container), to a missing
target, to itself and in pure reference cycles, without the slash after `#`, with two `#` — placed in a property, array
items, an `allOf` / `anyOf` member, `additionalProperties`, a definition that is only a reference, and the root.

Oracle: C01's own (`c01.run_case`): generate() returns within the watchdog, with output that parses or with a
reported error; a hang, RecursionError or unparsable module is a failure.  `classify` names the pointer shapes of a
document (for the classification of failures, so that a recorded finding matches its mechanism only)."""
from __future__ import annotations

import copy
import time
from typing import Any

from .. import docs, e2e
from ..runner import Check

TARGETS: dict[str, Any] = {
    "A": {"type": "object", "description": "an object", "properties": {"x": {"type": "integer"}, "y": {"type": "array", "items": {"type": "string"}},
                                                                       "z": {"anyOf": [{"type": "string"}, {"type": "object", "properties": {"w": {"type": "boolean"}}}]}},
          "required": ["x"], "allOf": [{"type": "object", "properties": {"v": {"type": "string"}}}], "additionalProperties": {"type": "integer"}},
    "Pet": {"type": "object", "properties": {"name": {"type": "string"}, "kind": {"type": "string", "enum": ["cat", "dog"]}}, "required": ["name"]},
    "Arr": {"type": "array", "items": {"type": "object", "properties": {"i": {"type": "integer"}}}},
    "Str": {"type": "string", "minLength": 1},
    "En": {"type": "string", "enum": ["a", "b"]},
    "a/b": {"type": "object", "properties": {"q": {"type": "integer"}}},
    "a~b": {"type": "string"},
    "a b": {"type": "integer"},
    "é": {"type": "object", "properties": {"r": {"type": "number"}}},
    "": {"type": "object", "properties": {"e": {"type": "integer"}}},
    "0": {"type": "object", "properties": {"zero": {"type": "integer"}}},
    "items": {"type": "object", "properties": {"it": {"type": "integer"}}},
}


def esc(key: str) -> str:
    return key.replace("~", "~0").replace("/", "~1")


def pct(key: str) -> str:
    return "".join(c if c.isascii() and c.isalnum() else "".join("%%%02X" % b for b in c.encode("utf-8")) for c in key)


# shape name -> function (container path, key) -> reference text
SHAPES = {
    "plain": lambda c, k: f"#/{c}/{esc(k)}",
    "trailing_slash": lambda c, k: f"#/{c}/{esc(k)}/",
    "double_slash_mid": lambda c, k: f"#/{c}//{esc(k)}",
    "double_slash_lead": lambda c, k: f"#//{c}/{esc(k)}",
    "two_trailing": lambda c, k: f"#/{c}/{esc(k)}//",
    "empty_key": lambda c, k: f"#/{c}/",
    "unescaped": lambda c, k: f"#/{c}/{k}",
    "bad_tilde": lambda c, k: f"#/{c}/{esc(k)}~2",
    "lone_tilde": lambda c, k: f"#/{c}/{esc(k)}~",
    "percent": lambda c, k: f"#/{c}/{pct(k)}",
    "percent_slash": lambda c, k: f"#%2F{c}%2F{pct(k)}",
    "sub_property": lambda c, k: f"#/{c}/{esc(k)}/properties/x",
    "sub_items": lambda c, k: f"#/{c}/{esc(k)}/properties/y/items",
    "sub_items_direct": lambda c, k: f"#/{c}/{esc(k)}/items",
    "sub_allof0": lambda c, k: f"#/{c}/{esc(k)}/allOf/0",
    "sub_anyof1": lambda c, k: f"#/{c}/{esc(k)}/properties/z/anyOf/1",
    "sub_addprops": lambda c, k: f"#/{c}/{esc(k)}/additionalProperties",
    "sub_property_slash": lambda c, k: f"#/{c}/{esc(k)}/properties/x/",
    "nonschema_type": lambda c, k: f"#/{c}/{esc(k)}/type",
    "nonschema_required": lambda c, k: f"#/{c}/{esc(k)}/required",
    "nonschema_required0": lambda c, k: f"#/{c}/{esc(k)}/required/0",
    "nonschema_description": lambda c, k: f"#/{c}/{esc(k)}/description",
    "nonschema_properties": lambda c, k: f"#/{c}/{esc(k)}/properties",
    "nonschema_enum0": lambda c, k: f"#/{c}/{esc(k)}/enum/0",
    "index_out_of_range": lambda c, k: f"#/{c}/{esc(k)}/allOf/5",
    "index_dash": lambda c, k: f"#/{c}/{esc(k)}/allOf/-",
    "index_leading_zero": lambda c, k: f"#/{c}/{esc(k)}/allOf/00",
    "whole_document": lambda c, k: "#",
    "whole_document_slash": lambda c, k: "#/",
    "container": lambda c, k: f"#/{c}",
    "missing": lambda c, k: f"#/{c}/Missing{esc(k)}",
    "no_slash": lambda c, k: f"#{c}/{esc(k)}",
    "two_hashes": lambda c, k: f"#/{c}/{esc(k)}#",
    "hash_segment": lambda c, k: f"#/{c}/#{esc(k)}",
    "hash_last_segment": lambda c, k: f"#/{c}/{esc(k)}/#",
    "empty": lambda c, k: "",
}
# shapes that end in RecursionError on the unchanged tree (finding C01-pointer-empty-segment; about a second each): rationed
EMPTY_SEGMENT_SHAPES = {"trailing_slash", "double_slash_mid", "double_slash_lead", "two_trailing", "empty_key", "sub_property_slash", "hash_segment", "hash_last_segment"}
POSITIONS = ["property", "items", "allOf", "anyOf", "additionalProperties", "alias", "root", "nested"]


def build(container: str, key: str, shape: str, position: str, targets: dict[str, Any], second: str | None = None) -> dict:
    """a JSON-Schema document (`container` = definitions | $defs) with one unusual reference"""
    ref = {"$ref": SHAPES[shape](container, key)}
    root: dict[str, Any] = {"title": "Root", "type": "object", "properties": {"plain": {"$ref": f"#/{container}/Pet"}}}
    defs = copy.deepcopy(targets)
    if position == "property":
        root["properties"]["p"] = ref
    elif position == "items":
        root["properties"]["p"] = {"type": "array", "items": ref}
    elif position == "allOf":
        defs["Derived"] = {"allOf": [ref, {"type": "object", "properties": {"d": {"type": "integer"}}}]}
    elif position == "anyOf":
        root["properties"]["p"] = {"anyOf": [ref, {"type": "string"}]}
    elif position == "additionalProperties":
        root["properties"]["p"] = {"type": "object", "additionalProperties": ref}
    elif position == "alias":
        defs["Alias"] = ref
        root["properties"]["p"] = {"$ref": f"#/{container}/Alias"}
    elif position == "root":
        root = {"title": "Root", **ref}
    elif position == "nested":
        defs["Outer"] = {"type": "object", "properties": {"inner": {"type": "object", "properties": {"deep": ref}}}}
    if second:
        root.setdefault("properties", {})["second"] = {"$ref": SHAPES[second](container, "Pet")}
    root[container] = defs
    return root


CYCLES = [
    ("self_ref", {"title": "Root", "type": "object", "properties": {"p": {"$ref": "#/definitions/A"}}, "definitions": {"A": {"$ref": "#/definitions/A"}}}),
    ("self_ref", {"title": "Root", "type": "object", "properties": {"p": {"$ref": "#/properties/p"}}}),
    ("ref_cycle", {"title": "Root", "type": "object", "properties": {"p": {"$ref": "#/definitions/A"}},
                   "definitions": {"A": {"$ref": "#/definitions/B"}, "B": {"$ref": "#/definitions/A"}}}),
    ("ref_cycle", {"title": "Root", "type": "object", "properties": {"p": {"$ref": "#/properties/q"}, "q": {"$ref": "#/properties/p"}}}),
    ("ref_chain", {"title": "Root", "type": "object", "properties": {"p": {"$ref": "#/definitions/A"}},
                   "definitions": {"A": {"$ref": "#/definitions/B"}, "B": {"$ref": "#/definitions/C"}, "C": {"type": "object", "properties": {"c": {"type": "integer"}}}}}),
    ("ref_to_property", {"title": "Root", "type": "object", "properties": {"p": {"$ref": "#/properties/q"}, "q": {"type": "object", "properties": {"k": {"type": "string"}}}}}),
    ("root_self", {"title": "Root", "$ref": "#"}),
    ("items_self", {"title": "Root", "type": "array", "items": {"$ref": "#"}}),
]


# ---------------------------------------------------------------- classification
def refs_of(doc: Any, at: tuple = ()) -> list[tuple[tuple, str]]:
    """(location, reference text) of every `$ref` of a document"""
    out = []
    if isinstance(doc, dict):
        for k, v in doc.items():
            if k == "$ref" and isinstance(v, str):
                out.append((at, v))
            else:
                out += refs_of(v, (*at, k))
    elif isinstance(doc, list):
        for i, v in enumerate(doc):
            out += refs_of(v, (*at, str(i)))
    return out


def pointer_segments(ref: str) -> list[str] | None:
    """segments of the fragment of a local reference (None: not local / no pointer)"""
    if "#" not in ref or ref.split("#", 1)[0]:
        return None
    frag = ref.split("#", 1)[1]
    if not frag.startswith("/"):
        return None
    return frag[1:].split("/")


def classify(doc: Any) -> set[str]:
    """pointer shapes present in a document: empty_segment (a `$ref` whose pointer has an empty segment), self_ref (a
    schema whose `$ref` points at itself), pure_ref_cycle (schemas that are only references, in a cycle)"""
    out: set[str] = set()
    if isinstance(doc, str):
        return out
    rs = refs_of(doc)
    only_ref: dict[tuple, tuple] = {}
    for at, ref in rs:
        segs = pointer_segments(ref)
        if segs is None:
            continue
        if "" in segs and ref not in ("#/",):
            out.add("empty_segment")
        if any(x.startswith("#") for x in segs):
            out.add("hash_segment")
        target = tuple(s.replace("~1", "/").replace("~0", "~") for s in segs)
        if target == at:
            out.add("self_ref")
        only_ref[at] = target
    for start in only_ref:
        seen, cur = [start], only_ref[start]
        while cur in only_ref and cur not in seen:
            seen.append(cur)
            cur = only_ref[cur]
        if cur == start and len(seen) > 1:
            out.add("pure_ref_cycle")
    return out


def without_empty_segments(doc: Any) -> Any:
    """the document with the empty segments of every local pointer removed (the reference a user most likely meant) and
    every reference that has a segment starting with `#` dropped"""
    d = copy.deepcopy(doc)

    def go(x):
        if isinstance(x, dict):
            for k, v in list(x.items()):
                if k == "$ref" and isinstance(v, str) and pointer_segments(v) is not None:
                    segs = [s for s in pointer_segments(v) if s]
                    if any(s.startswith("#") for s in segs):
                        del x[k]
                    else:
                        x[k] = "#/" + "/".join(segs) if segs else "#"
                else:
                    go(v)
        elif isinstance(x, list):
            for v in x:
                go(v)

    go(d)
    return d


def without_self_refs(doc: Any) -> Any:
    """the document with every reference of a pure reference cycle (self reference included) replaced by `{}`"""
    d = copy.deepcopy(doc)
    rs = refs_of(d)
    only_ref = {}
    for at, ref in rs:
        segs = pointer_segments(ref)
        if segs is not None:
            only_ref[at] = tuple(s.replace("~1", "/").replace("~0", "~") for s in segs)
    bad = set()
    for start in only_ref:
        seen, cur = [start], only_ref[start]
        while cur in only_ref and cur not in seen:
            seen.append(cur)
            cur = only_ref[cur]
        if cur == start:
            bad.update(seen)
    for at in bad:
        x = d
        for s in at:
            x = x[int(s)] if isinstance(x, list) else x[s]
        x.pop("$ref", None)
    return d


# ---------------------------------------------------------------- the campaign
def cases(rng, n: int, max_empty: int) -> list[dict]:
    out: list[dict] = []
    keys = list(TARGETS)
    # fixed part: every shape once on the plain object target, rotating positions / kinds / containers
    shapes = list(SHAPES)
    empties = 0
    for i, shape in enumerate(shapes):
        if shape in EMPTY_SEGMENT_SHAPES:
            empties += 1
            if empties > max_empty:
                continue
        container = ["definitions", "$defs"][i % 2]
        out.append({"doc": build(container, "A", shape, POSITIONS[i % 3], TARGETS), "model": e2e.MODEL_KINDS[i % 5], "opts": {},
                    "features": [f"shape:{shape}", f"position:{POSITIONS[i % 3]}", f"container:{container}"]})
    for i, (label, doc) in enumerate(CYCLES):
        out.append({"doc": doc, "model": e2e.MODEL_KINDS[i % 5], "opts": {}, "features": [f"shape:{label}"]})
    # random part
    empty_budget = max_empty
    while len(out) < n:
        shape = rng.choice(shapes)
        if shape in EMPTY_SEGMENT_SHAPES:
            if empty_budget <= 0:
                continue
            empty_budget -= 1
        key = rng.choice(keys)
        position = rng.choice(POSITIONS)
        container = rng.choice(["definitions", "$defs"])
        second = rng.choice(shapes) if rng.chance(1, 6) else None
        if second in EMPTY_SEGMENT_SHAPES:
            second = None
        doc = build(container, key, shape, position, TARGETS, second)
        ift = "jsonschema"
        if rng.chance(1, 3):
            # the same schemas as an OpenAPI document: `#/components/schemas/…`
            d2 = build("definitions", key, shape, position, TARGETS, second)
            doc, ift = docs.to_openapi(d2), "openapi"
        opts = {}
        if rng.chance(1, 4):
            opts = dict(rng.choice([{"reuse_model": True}, {"collapse_root_models": True}, {"use_title_as_name": True}, {"keep_model_order": True},
                                    {"use_schema_description": True}, {"field_constraints": True}]))
        out.append({"doc": doc, "model": rng.choice(e2e.MODEL_KINDS), "opts": opts, "input_file_type": ift,
                    "features": [f"shape:{shape}", f"position:{position}", f"container:{container if ift == 'jsonschema' else 'components/schemas'}"]})
    return out


def campaign_pointers(ck: Check, run_case, n: int, max_empty: int) -> None:
    """`run_case` is c01.run_case (oracle + classification)"""
    camp = ck.campaign("e2e: malformed / unusual JSON pointers in $ref (empty segments, ~0 ~1, percent-encoding, into sub-schemas, "
                       "non-schema values, array indices, self references and pure reference cycles), JSON Schema + OpenAPI, all model kinds, watchdog")
    t0 = time.time()
    rng = ck.rng.fork("json-pointers")
    hangs = 0
    for c in cases(rng, n, max_empty):
        c["clean"] = False
        for f in c["features"]:
            camp.hit(f)
        if hangs >= 2 and classify(c["doc"]) & {"empty_segment", "hash_segment"}:
            camp.hit("skipped-after-two-hangs")
            continue
        before = len(ck.failures)
        run_case(ck, camp, c)
        if any(f.classification.get("mechanism") == "hang" for f in ck.failures[before:]):
            hangs += 1
    camp.wall_s = time.time() - t0
