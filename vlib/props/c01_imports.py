"""C01 campaign for the IMPORT BLOCK of an emitted module: documents whose rendered module uses few or NO names of
some import group once `Parser.parse` has pruned the unused ones.

Family (not one document): objects whose members are null-typed, untyped (`Any`), references to definitions that are
null / untyped / a scalar / a format type of another package (`datetime`, `decimal`, `uuid`, …) / an array / an enum
— directly, through `allOf`, inside an array or `additionalProperties`, in a union with null — required or not;
definition-only documents (every definition a root type); × the options that decide which names a module needs
(collapse_root_models, use_union_operator, use_standard_collections, use_generic_container_types, strict_nullable,
use_annotated, enum_field_as_literal, target version, …) × all 5 model kinds × formatters OFF (isort silently drops a
dangling `from x import ` line, so the default formatters hide it) and, for a share, on.

Two judgements per case:

* C01's own oracle (`c01.run_case`: generate() returns, every written file parses; the documents are ordinary schema
  documents, so an error is a failure too: must-succeed stream).
* the INVARIANT of `Imports` that Props/C01 `dump_lines_have_names` assumes and `imports_no_empty_group` proves of the
  model: the append/remove history of every REAL `Imports` object of the run is recorded (vlib/importledger.py), sent
  through `Model.Imports.run`, and the groups of the real object — EMPTY ONES INCLUDED — and its `dump()` text are
  compared with the model's.  A real group the model does not have (e.g. one a `defaultdict` read re-created, empty)
  is a broken correspondence with the document as failing input; the search (`search`) then runs the document with
  the formatters off for every model kind through the oracle."""
from __future__ import annotations

import json
import time

from .. import docs, e2e, importledger, shape
from ..common import unhx
from ..runner import Check

# ---------------------------------------------------------------- the document family
# definitions a member can refer to: name -> schema
DEFS = {
    "Nul": {"type": "null"},
    "NulT": {"type": "null", "title": "NulT", "description": "nothing"},
    "Anything": {},
    "AnyD": {"description": "anything goes"},
    "Text": {"type": "string"},
    "Count": {"type": "integer", "minimum": 0},
    "Day": {"type": "string", "format": "date"},
    "Stamp": {"type": "string", "format": "date-time"},
    "Money": {"type": "string", "format": "decimal"},
    "Ident": {"type": "string", "format": "uuid"},
    "Host": {"type": "string", "format": "ipv4"},
    "Loc": {"type": "string", "format": "uri"},
    "Items": {"type": "array"},
    "Nuls": {"type": "array", "items": {"type": "null"}},
    "Table": {"type": "object", "additionalProperties": {"type": "null"}},
    "Colour": {"type": "string", "enum": ["red", "green"]},
    "One": {"const": "one"},
    "MaybeText": {"type": ["string", "null"]},
    "Either": {"anyOf": [{"type": "string"}, {"type": "integer"}]},
    "Inner": {"type": "object", "properties": {"v": {"type": "null"}}},
}
DEF_NAMES = sorted(DEFS)
# definitions whose collapsed / rendered type needs no imported name at all (the group-emptying ones)
BARE = ["Nul", "NulT", "Text", "Count", "Inner"]


def member(rng, key: str) -> tuple[dict, list[str]]:
    """(schema of one member, names of the definitions it refers to)"""
    d = rng.choice(BARE) if rng.chance(1, 2) else rng.choice(DEF_NAMES)
    ref = {"$ref": f"#/{key}/{d}"}
    k = rng.below(12)
    if k <= 2:
        return ref, [d]
    if k == 3:
        return {"allOf": [ref]}, [d]
    if k == 4:
        return {"type": "null"}, []
    if k == 5:
        return rng.choice([{}, {"description": "free"}, {"type": ["null"]}, {"const": None}, {"enum": [None]}]), []
    if k == 6:
        return {"type": "array", "items": ref}, [d]
    if k == 7:
        return {"type": "object", "additionalProperties": ref}, [d]
    if k == 8:
        return {rng.choice(["anyOf", "oneOf"]): [ref, {"type": "null"}]}, [d]
    if k == 9:
        return {"allOf": [ref], "description": "wrapped"}, [d]
    if k == 10:
        return {**ref, "nullable": True}, [d]
    return {**DEFS[d]}, []


def document(rng) -> tuple[dict, list[str]]:
    key = rng.choice(["definitions", "definitions", "$defs"])
    feats = []
    used: list[str] = []
    if rng.chance(1, 6):
        # a definition-only document: every definition is a root type / class of its own
        used = rng.sample(DEF_NAMES, rng.range(1, 3))
        feats.append("definitions_only")
        return {key: {n: DEFS[n] for n in used}}, feats
    props = {}
    for i in range(rng.choice([1, 1, 1, 2, 2, 3])):
        sch, ds = member(rng, key)
        props["version" if i == 0 else f"m{i}"] = sch
        used += ds
        feats.append("member:" + ("ref" if set(sch) == {"$ref"} else sorted(sch)[0] if sch else "untyped"))
    doc = {"type": "object", "properties": props}
    if rng.chance(1, 3):
        doc["required"] = rng.sample(sorted(props), rng.range(1, len(props)))
        feats.append("required")
    if rng.chance(1, 3):
        doc["title"] = "Model"
    if used:
        extra = [rng.choice(DEF_NAMES)] if rng.chance(1, 4) else []  # a definition nobody refers to
        doc[key] = {n: DEFS[n] for n in dict.fromkeys(used + extra)}
    feats += ["def:" + n for n in dict.fromkeys(used)]
    return doc, feats


def dotted(doc: dict, rng) -> dict:
    """the same document with every definition moved into a module (`pkg.Nul`, `other.Day`, …), references rewritten"""
    key = "definitions" if "definitions" in doc else "$defs"
    mods = {n: rng.choice(["pkg", "pkg", "other", "pkg.sub"]) for n in doc[key]}
    text = json.dumps(doc)
    for n, m in mods.items():
        text = text.replace(f'"#/{key}/{n}"', f'"#/{key}/{m}.{n}"')
    d = json.loads(text)
    d[key] = {f"{mods[n]}.{n}": v for n, v in d[key].items()}
    return d


# options that decide which imported names a module needs
IMPORT_OPTS = ["collapse_root_models", "use_union_operator", "use_standard_collections", "use_generic_container_types", "strict_nullable",
               "force_optional_for_required_fields", "field_constraints", "use_annotated", "use_one_literal_as_default", "use_field_description",
               "use_schema_description", "strip_default_none", "use_default_kwarg", "reuse_model", "keep_model_order", "use_subclass_enum",
               "use_pendulum", "allow_extra_fields", "enable_faux_immutability", "use_title_as_name", "apply_default_values_for_required_fields"]


def make_case(rng, random_opts) -> dict:
    doc, feats = document(rng)
    model = rng.choice(e2e.MODEL_KINDS)
    opts: dict = {}
    if rng.chance(2, 3):
        opts["collapse_root_models"] = True
    for _ in range(rng.range(0, 3)):
        opts[rng.choice(IMPORT_OPTS)] = True
    if rng.chance(1, 4):
        opts.update(random_opts(rng, model))
    if rng.chance(1, 6):
        opts["enum_field_as_literal"] = rng.choice(["all", "one"])
    if opts.get("use_annotated"):
        opts["field_constraints"] = True
    # options documented to refuse some inputs stay out of a must-succeed stream (as in c01.make_case)
    for k in ("treat_dot_as_module", "use_exact_imports", "keyword_only", "parent_scoped_naming"):
        opts.pop(k, None)
    ift = "jsonschema"
    modular = False
    if ("definitions" in doc or "$defs" in doc) and rng.chance(1, 7):
        # package output: the definitions live in modules of their own (dotted names), every module has its own Imports
        # object and imports the others relatively — pruning works per module
        doc, modular = dotted(doc, rng), True
        feats.append("package_output")
    elif "definitions" in doc and rng.chance(1, 6):
        doc, ift = docs.to_openapi(doc), "openapi"
    # `const` is not in the documented feature set (docs/supported-data-types.md; `const: null` ends in a pydantic ValidationError
    # of the generator's own ContextDataType for pydantic_v2 output): such documents are judged as the adversarial stream
    # (no hang, no unparsable file), every other one must succeed
    clean = "const" not in json.dumps(doc)
    case = {"doc": doc, "model": model, "opts": opts, "input_file_type": ift, "clean": clean, "features": ["import_groups"] + feats}
    if modular:
        case["modular"] = True
    if rng.chance(1, 6):
        case["formatters"] = "default"
    if rng.chance(1, 4):
        case["target"] = rng.choice(["3.9", "3.10", "3.11", "3.12"])
    return case


CORPUS_DOCS = [
    # the only typing name of the module goes when the root model of a null definition is collapsed into its user
    {"type": "object", "properties": {"version": {"$ref": "#/$defs/Version"}}, "$defs": {"Version": {"type": "null"}}},
    {"type": "object", "properties": {"version": {"allOf": [{"$ref": "#/$defs/Version"}]}}, "$defs": {"Version": {"type": "null"}}},
    {"type": "object", "properties": {"a": {"$ref": "#/definitions/T"}, "b": {"$ref": "#/definitions/T"}}, "definitions": {"T": {"type": "string"}}, "required": ["a", "b"]},
    {"type": "object", "properties": {"a": {}, "b": {"type": "null"}}},
    {"definitions": {"Day": {"type": "string", "format": "date"}, "N": {"type": "null"}}},
]


# ---------------------------------------------------------------- the real Imports objects vs Model.Imports.run
def real_groups(im) -> list:
    return [[f, sorted(ns)] for f, ns in im.items()]


def model_groups(st) -> tuple[list, str] | str:
    """(groups incl. empty ones, dump text) of a `(st … | … | … | … | dump)` reply of the driver"""
    if st == "raise":
        return "raise"
    parts, cur = [], []
    for t in st[1:]:
        if t == "|":
            parts.append(cur)
            cur = []
        else:
            cur.append(t)
    parts.append(cur)
    groups = [[None if e[0] == "-" else unhx(e[0]), sorted(unhx(n) for n in e[1:])] for e in parts[0]]
    return groups, unhx(parts[4][0])


def observe(case: dict) -> tuple[e2e.Result, list]:
    """one recorded generate() run: (result, [(instance index, history, real groups, real dump text)])"""
    opts = case["opts"]
    if case.get("set_opts"):
        opts = {k: (set(v) if k in case["set_opts"] else v) for k, v in opts.items()}
    with importledger.recording() as rec:
        res = e2e.run_generate(shape.doc_text(case["doc"]), input_file_type=case.get("input_file_type", "jsonschema"), model=case["model"], opts=opts,
                               formatters=case.get("formatters"), timeout=15, target=case.get("target"),
                               modular=bool(opts.get("treat_dot_as_module")) or case.get("modular", False))
    out = []
    for k, (inst, hist) in enumerate(zip(rec.instances, rec.histories)):
        try:
            dump = inst.dump()
        except Exception as e:  # noqa: BLE001
            dump = f"raise {type(e).__name__}"
        out.append((k, hist, real_groups(inst), dump))
    return res, out


def check_invariant(ck: Check, camp, cases: list[dict], observed: list) -> list[dict]:
    """compare every recorded real Imports object with the model's run of its history; returns the cases with a broken one"""
    from .c02 import ops_sx, parse_sx  # the S-expression encoding of the Imports driver (read-only use)

    flat = [(c, k, h, g, d) for c, (res, insts) in zip(cases, observed) if res.ok for (k, h, g, d) in insts]
    reps = ck.driver.run([f"imports.ledger {ops_sx(h)}" for _, _, h, _, _ in flat]) if flat else []
    bad: list[dict] = []
    for (c, k, h, g, d), rep in zip(flat, reps):
        camp.evaluations += 1
        if not rep.startswith("ok "):
            ck.infra_errors.append(f"driver reply {rep[:80]!r} for imports.ledger")
            continue
        final = parse_sx(rep[3:])[1]
        m = model_groups(final)
        camp.hit("imports_object:" + ("parser" if k == 0 else "module"))
        camp.hit(f"groups:{min(len(g), 4)}")
        if any(op[0] == "rem1" for op in h):
            camp.hit("pruned_a_name")
            camp.distinct.add(json.dumps([h, c["model"]], sort_keys=True, default=str))
        filed = {(None if "." in i["name"] else i["from"]) for op in h if op[0] == "app" for i in op[1]}
        if m != "raise" and any(op[0] == "rem1" for op in h) and len(m[0]) < len(filed):
            camp.hit("pruned_a_whole_group")
        if any(not ns for _, ns in g):
            camp.hit("REAL_EMPTY_GROUP")
        if m == "raise":
            ck.disagree(camp, {**_case_json(c), "imports_instance": k}, "the recorded history raises KeyError in Model.Imports.run", {"groups": g, "dump": d})
            bad.append(c)
        elif sorted(map(json.dumps, m[0])) != sorted(map(json.dumps, g)) or m[1] != d:
            ck.disagree(camp, {**_case_json(c), "imports_instance": k}, {"groups": m[0], "dump": m[1]}, {"groups": g, "dump": d})
            bad.append(c)
        elif len(camp.samples) < 2 and any(op[0] == "rem1" for op in h):
            camp.samples.append({"doc": c["doc"], "model": c["model"], "opts": c["opts"], "dump": d})
    return bad


def _case_json(case: dict) -> dict:
    return {k: v for k, v in case.items() if not k.startswith("_")}


def campaign_import_groups(ck: Check, run_case, random_opts, n: int) -> None:
    """`run_case`, `random_opts` are c01's (oracle + classification, option vectors)"""
    camp = ck.campaign("e2e + imports at dump: modules that use few or no names of an import group after pruning (null / Any / collapsed-root / "
                       "format-typed members × import-deciding options × all kinds, formatters off): oracle, and every REAL Imports object "
                       "vs Model.Imports.run of its recorded history (groups incl. empty ones, dump text)")
    t0 = time.time()
    rng = ck.rng.fork("import-groups")
    cases = []
    for d in CORPUS_DOCS:
        for model in e2e.MODEL_KINDS:
            for o in ({"collapse_root_models": True}, {}, {"collapse_root_models": True, "use_union_operator": True, "use_standard_collections": True}):
                cases.append({"doc": d, "model": model, "opts": dict(o), "clean": True, "features": ["import_groups", "corpus"]})
    cases += [make_case(rng, random_opts) for _ in range(n)]
    observed = []
    for c in cases:
        for f in c.get("features", []):
            camp.hit("doc:" + f)
        for o in c["opts"]:
            camp.hit("opt:" + o)
        observed.append(observe(c))
        run_case(ck, camp, c)
    ck.notes["import_groups_broken"] = [_case_json(c) for c in check_invariant(ck, camp, cases, observed)][:20]
    camp.wall_s = time.time() - t0


IMPORT_THEOREMS = {"imports_no_empty_group", "pruning_keeps_groups_nonempty", "dump_lines_have_names", "empty_group_dangles"}


def search(ck: Check) -> None:
    """Failing-input search after a broken import-group correspondence: the documents on which a real Imports object
    differed from the model, with the formatters OFF (they hide a dangling import line), for every model kind and
    with / without the options of the case, through C01's own oracle."""
    from . import c01

    broken = ck.notes.get("import_groups_broken") or []
    camp = ck.campaign("search: documents with a broken Imports invariant, formatters off, all kinds")
    for c in broken:
        for model in [c["model"]] + [m for m in e2e.MODEL_KINDS if m != c["model"]]:
            for opts in (c["opts"], {k: v for k, v in c["opts"].items() if k in ("collapse_root_models",)}):
                case = {**c, "model": model, "opts": {k: v for k, v in opts.items() if not (k == "keyword_only" and model != "dataclasses.dataclass")}}
                case.pop("formatters", None)
                c01.run_case(ck, camp, case)
                if ck.failures:
                    return
    if ck.failures or broken or not (set(ck.broken) & IMPORT_THEOREMS):
        return
    # nothing recorded (e.g. an obligation broke, not the correspondence): the family once more, formatters off
    rng = ck.rng.fork("import-groups-search")
    for _ in range(600):
        case = make_case(rng, c01.random_opts)
        case.pop("formatters", None)
        c01.run_case(ck, camp, case)
        if ck.failures:
            return
