"""C16 — a model inferred from sample data accepts that sample."""
from __future__ import annotations

import contextlib
import csv
import io
import json
import keyword
import math
import os
import shutil
import tempfile
import time
import warnings
from pathlib import Path
from typing import Any

import sys

from .. import e2e, guard
from ..common import Hang, Rng, hx, unhx, watchdog
from ..runner import Check
from . import c16_bridge, c16_hetero, c16_names, c16_singular
from .c17 import parse_sx, unbound_aliased

# (document, kind, None | failing mechanism) of every end-to-end case of this run: input of the
# acceptance tie of the bridge (c16_bridge.campaign_accepts)
ACCEPT_LOG: list = []


# ------------------------------------------------------------------ JSON values ⇄ line protocol
def js_sx(v) -> str:
    if v is None:
        return "null"
    if isinstance(v, bool):
        return f"(b {int(v)})"
    if isinstance(v, int):
        return f"(i {v})"
    if isinstance(v, float):
        return f"(f {int(v.is_integer())})"
    if isinstance(v, str):
        return f"(s {hx(v)})"
    if isinstance(v, list):
        return "(a" + "".join(" " + js_sx(x) for x in v) + ")"
    return "(o" + "".join(f" ({hx(k)} {js_sx(x)})" for k, x in v.items()) + ")"


def node_of_sx(sx) -> dict:
    assert sx[0] == "node", sx
    _, nu, bo, st, nm, ar, ob = sx
    n = {"null": nu == "1", "bool": bo == "1", "str": st == "1", "num": None if nm == "-" else nm, "arr": None, "obj": None}
    if ar != "-":
        n["arr"] = node_of_sx(ar[1])
    if ob != "-":
        props = {unhx(p[0]): node_of_sx(p[1]) for p in ob[1][1:]}
        n["obj"] = (props, sorted(unhx(k) for k in ob[2][1:]))
    return n


def node_of_schema(s: dict) -> dict:
    """genson's to_schema() output read back as the set of active strategies (anyOf order and the
    order of properties are not part of the comparison)."""
    n = {"null": False, "bool": False, "str": False, "num": None, "arr": None, "obj": None}
    s = {k: v for k, v in s.items() if k != "$schema"}
    if not s:
        return n
    alts = s["anyOf"] if "anyOf" in s else [s]
    for a in alts:
        extra = set(a) - {"type", "items", "properties", "required"}
        if extra:
            raise ValueError(f"keyword outside the modelled shapes: {sorted(extra)}")
        ts = a["type"] if isinstance(a["type"], list) else [a["type"]]
        for t in ts:
            if t == "null":
                n["null"] = True
            elif t == "boolean":
                n["bool"] = True
            elif t == "string":
                n["str"] = True
            elif t == "integer":
                n["num"] = "i"
            elif t == "number":
                n["num"] = "n"
            elif t == "array":
                n["arr"] = node_of_schema(a.get("items", {}))
            elif t == "object":
                n["obj"] = ({k: node_of_schema(v) for k, v in a.get("properties", {}).items()}, sorted(a.get("required", [])))
            else:
                raise ValueError(t)
    return n


def genson_schema(v) -> dict:
    from genson import SchemaBuilder

    b = SchemaBuilder()
    b.add_object(v)
    return b.to_schema()


# ------------------------------------------------------------------ generators
KEYS_PLAIN = ["a", "b", "name", "userId", "snake_case", "value", "x1", "Name", "ID", "id", "Id", "A", "B"]
KEYS_NONIDENT = ["a b", "x-y", "1st", "a.b", "@type", "$id", " ", "é", "日本", "a\tb", "a'b", 'a"b', "a\\b", "a\nb", "a/b", "a:b", "#", "{{x}}", "a-b", "a_b", "-", "9"]
KEYS_KEYWORD = ["class", "def", "None", "True", "import", "from", "global", "lambda", "in", "is", "async", "match", "type"]
KEYS_RESERVED = ["copy", "dict", "json", "schema", "model_config", "model_fields", "validate", "construct", "fields", "__root__", "root", "self", "model_dump", "parse_obj", "Config", "model_validate", "items", "keys", "values"]
KEYS_UNDERSCORE = ["_p", "__q", "__dunder__", "_", "__", "_1", "p_", "field_", "class_"]
KEYS_TYPENAME = ["int", "str", "List", "Optional", "Any", "Model", "BaseModel", "Field", "object", "Dict", "Union", "float", "bool"]
# YAML treats U+0085, U+2028, U+2029 as line breaks (even inside double quotes); the rest are other Unicode
# separators / format characters; the last ones lie outside the BMP
KEYS_UNISEP = ["a\u0085b", "a\u2028b", "a\u2029b", "\u0085", "\u2028x", "a\u00a0b", "\ufeffa", "a\u200bb", "a\x0bb", "a\x0cb", "a\x1cb", "a\x1eb", "a\u3000b", "a\u2003b", "a\u202fb", "a\x7fb"]
KEYS_ASTRAL = ["a\U0001f600b", "\U00010348", "k\U0001d11e"]
UNISEP_CHARS = set("\u0085\u2028\u2029\u00a0\ufeff\u200b\x0b\x0c\x1c\x1d\x1e\x1f\u3000\u2003\u202f\x7f")
KEY_GROUPS = [KEYS_PLAIN, KEYS_PLAIN, KEYS_PLAIN, KEYS_NONIDENT, KEYS_NONIDENT, KEYS_KEYWORD, KEYS_RESERVED, KEYS_UNDERSCORE, KEYS_TYPENAME, [""], KEYS_UNISEP, KEYS_ASTRAL]
STRINGS = ["", "x", "some text", "2020-01-01", "2020-01-01T10:00:00Z", "1", "true", "null", "1.5", "é", "a'b", "line\nbreak", "~", "yes", "0x10", "12:30"]


def key_class(k: str) -> str:
    if k == "":
        return "empty"
    if any(ord(c) > 0xFFFF for c in k):
        return "astral"
    if any(c in UNISEP_CHARS for c in k):
        return "unicode_separator"
    if k in KEYS_RESERVED:
        return "reserved"
    if k in KEYS_TYPENAME:
        return "typename"
    if k in c16_singular.POOL_SET:
        return "singular_pool"   # plural spelling of a keyword / of a name the module uses, or the letter s (c16_singular)
    if keyword.iskeyword(k) or keyword.issoftkeyword(k):
        return "keyword"
    if k.startswith("_") or k.endswith("_"):
        return "underscore"
    if not k.isidentifier():
        return "non_identifier"
    if not k.isascii():
        return "non_ascii"
    return "plain"


def rand_key(rng: Rng) -> str:
    return rng.choice(rng.choice(KEY_GROUPS))


def rand_scalar(rng: Rng):
    c = rng.below(7)
    if c == 0:
        return None
    if c == 1:
        return rng.chance(1, 2)
    if c == 2:
        return rng.choice([0, 1, -7, 42, 2**40, -(2**63)])
    if c == 3:
        return rng.choice([1.5, -0.25, 1.0, 1e10, 3.14159, 0.0])
    return rng.choice(STRINGS)


def rand_value(rng: Rng, depth: int):
    c = rng.below(10)
    if depth <= 0 or c < 5:
        return rand_scalar(rng)
    if c < 7:
        return rand_object(rng, depth - 1, rng.below(4))
    shape = rng.below(6)
    n = rng.below(4)
    if shape == 0:
        return []
    if shape == 1:  # homogeneous scalars
        proto = rand_scalar(rng)
        return [proto if i == 0 else _same_kind(rng, proto) for i in range(max(1, n))]
    if shape == 2:  # objects with overlapping key sets
        ks = [rand_key(rng) for _ in range(rng.range(1, 3))]
        return [{k: rand_value(rng, depth - 2) for k in ks if rng.chance(2, 3)} for _ in range(max(1, n))]
    if shape == 3:  # nested lists
        return [[rand_scalar(rng) for _ in range(rng.below(3))] for _ in range(n)]
    return [rand_value(rng, depth - 1) for _ in range(n)]  # heterogeneous


def _same_kind(rng: Rng, proto):
    if proto is None:
        return None
    if isinstance(proto, bool):
        return rng.chance(1, 2)
    if isinstance(proto, int):
        return rng.range(-5, 500)
    if isinstance(proto, float):
        return rng.choice([2.5, 1.0, -3.75])
    return rng.choice(STRINGS)


def rand_object(rng: Rng, depth: int, n_keys: int) -> dict:
    out: dict[str, Any] = {}
    for _ in range(n_keys):
        k = rand_key(rng)
        if rng.chance(1, 8) and out:  # a key differing only in case / separator from an earlier one
            k0 = rng.choice(list(out))
            k = rng.choice([k0.upper(), k0.lower(), k0.capitalize(), k0.replace("_", "-"), k0.replace("-", "_"), k0 + "_", "_" + k0])
        out[k] = rand_value(rng, depth)
    return out


def without_v1_root_key(v):
    """`__root__` is pydantic v1's own wire name for custom root types (its dict() unwraps it); a document
    using that key is outside the domain of the v1-style output"""
    if isinstance(v, dict):
        return {("root__" if k == "__root__" else k): without_v1_root_key(x) for k, x in v.items()}
    if isinstance(v, list):
        return [without_v1_root_key(x) for x in v]
    return v


STEMS = [("content", "type"), ("x", "id"), ("user", "name"), ("a", "b", "c"), ("first", "last")]
SEPS = ["-", " ", ".", "_", ":", "/", "+", "~", "@"]
PARENTS = [("entry", "entries"), ("item", "items"), ("user", "users"), ("tag", "tags"), ("box", "boxes")]


def rand_collision_document(rng: Rng) -> dict:
    """Two (or three) different objects that get the SAME inferred class name — an `entry` object beside
    an `entries` array (singular naming), or the same key under two parents — whose keys differ only in
    punctuation, so that they sanitise to the same member name with different wire names."""
    n_fields = rng.range(1, 3)
    stems = rng.sample(STEMS, n_fields)
    n_objs = rng.range(2, 3)

    def obj(j: int) -> dict:
        out = {}
        for st in stems:
            mode = rng.below(5)
            sep = rng.choice(SEPS) if mode else "_"  # mode 0: identical keys on every side (a legitimate merge)
            out[sep.join(st)] = rng.choice([1, "x", 2.5, True]) if rng.chance(1, 5) else "v"
        if rng.chance(1, 4):
            out["plain"] = j
        return out

    sing, plur = rng.choice(PARENTS)
    shape = rng.below(4)
    objs = [obj(j) for j in range(n_objs)]
    if shape == 0:
        doc = {sing: objs[0], plur: objs[1:]}
    elif shape == 1:
        doc = {"a": {sing: objs[0]}, "b": {sing: objs[1]}}
        if n_objs > 2:
            doc["c"] = {sing: objs[2]}
    elif shape == 2:
        doc = {"first": {plur: [objs[0]]}, "second": {plur: objs[1:]}}
    else:
        doc = {sing: objs[0], "nested": {sing: objs[1], plur: objs[2:]}}
    return doc


def rand_document(rng: Rng) -> dict:
    return rand_object(rng, rng.range(1, 4), rng.range(0, 6) if rng.chance(1, 12) else rng.range(1, 6))


# ------------------------------------------------------------------ correspondence: Model.Infer vs genson, validL vs jsonschema
def campaign_infer(ck: Check, n: int) -> None:
    camp = ck.campaign("Model.Infer.infer vs genson SchemaBuilder().add_object(v).to_schema()")
    t0 = time.time()
    rng = ck.rng.fork("infer")
    vals = [rand_document(rng) if rng.chance(2, 3) else rand_value(rng, 3) for _ in range(n)]
    vals[:4] = [{}, [], {"a": [1, 2.5, None, {"k": 1}, {"k": "s", "j": []}, []], "A": []}, [[1], ["x"], [], [{}], [{"": None}]]]
    replies = ck.driver.run([f"infer.schema {js_sx(v)}" for v in vals])
    for v, rep in zip(vals, replies):
        camp.evaluations += 1
        sx = parse_sx(rep)
        model = node_of_sx(sx[1]) if sx and sx[0] == "ok" else rep
        try:
            impl = node_of_schema(genson_schema(v))
        except Exception as e:  # noqa: BLE001
            impl = f"{type(e).__name__}: {e}"
        text = json.dumps(v, sort_keys=True)
        camp.hit("root:" + type(v).__name__)
        if "anyOf" in json.dumps(genson_schema(v)):
            camp.hit("anyOf")
        if isinstance(v, (dict, list)) and v:
            camp.distinct.add(text)
        if model != impl:
            ck.disagree(camp, {"value": v}, model, impl)
        elif len(camp.samples) < 2 and 40 < len(text) < 200:
            camp.samples.append({"value": v, "schema": genson_schema(v)})
    camp.wall_s = time.time() - t0


def mutate(rng: Rng, v, depth: int = 0):
    """a value near v: one scalar swapped for another kind, a key dropped/added, an element added"""
    if isinstance(v, dict) and v and rng.chance(3, 4):
        k = rng.choice(list(v))
        c = rng.below(4)
        out = dict(v)
        if c == 0:
            del out[k]
        elif c == 1:
            out[rand_key(rng)] = rand_scalar(rng)
        else:
            out[k] = mutate(rng, v[k], depth + 1)
        return out
    if isinstance(v, list) and rng.chance(3, 4):
        out = list(v)
        if out and rng.chance(1, 2):
            i = rng.below(len(out))
            out[i] = mutate(rng, out[i], depth + 1)
        else:
            out.append(rand_value(rng, 1))
        return out
    return rand_value(rng, 1)


def campaign_valid(ck: Check, n: int) -> None:
    camp = ck.campaign("Model.Infer.validL (infer v) w vs jsonschema.Draft7Validator(genson(v)).is_valid(w)")
    t0 = time.time()
    import jsonschema

    rng = ck.rng.fork("valid")
    pairs = []
    for _ in range(n):
        v = rand_document(rng) if rng.chance(3, 4) else rand_value(rng, 3)
        c = rng.below(4)
        w = v if c == 0 else (mutate(rng, v) if c < 3 else rand_document(rng))
        pairs.append((v, w))
    pairs[:3] = [({"a": 1}, {"a": 1.0}), ({"a": []}, {"a": [1, "x"]}), ({"a": [{"k": 1}, {}]}, {"a": [{"j": None}]})]
    replies = ck.driver.run([f"infer.valid {js_sx(v)} {js_sx(w)}" for v, w in pairs])
    for (v, w), rep in zip(pairs, replies):
        camp.evaluations += 1
        model = rep == "ok 1" if rep in ("ok 0", "ok 1") else rep
        impl = jsonschema.Draft7Validator(genson_schema(v)).is_valid(w)
        camp.hit("valid" if impl else "invalid")
        camp.hit("same" if v == w else "different")
        if v != w:
            camp.distinct.add(json.dumps([v, w], sort_keys=True))
        if model != impl:
            ck.disagree(camp, {"sample": v, "instance": w}, model, impl)
        elif len(camp.samples) < 2 and not impl and len(json.dumps([v, w])) < 160:
            camp.samples.append({"sample": v, "instance": w, "valid": impl})
    camp.wall_s = time.time() - t0


# ------------------------------------------------------------------ the property's own oracle
def run_raw(source, input_file_type: str, model: str, timeout: float = 20.0) -> e2e.Result:
    """generate() on raw data; unlike e2e.run_generate the source is handed over as it is (a str, or a
    dict for input_file_type='dict')."""
    import datamodel_code_generator as d

    work = tempfile.mkdtemp(dir=e2e.scratch_root())
    out = Path(work) / "out.py"
    res = e2e.Result(ok=False)
    cwd = os.getcwd()
    t0 = time.time()
    try:
        with watchdog(timeout), warnings.catch_warnings(), contextlib.redirect_stderr(io.StringIO()):
            warnings.simplefilter("ignore")
            d.generate(source, input_file_type=d.InputFileType(input_file_type), output=out,
                       output_model_type=d.DataModelType(model), formatters=[], disable_timestamp=True)
        res.ok = True
    except Hang as e:
        res.hang, res.error_type, res.error_msg = True, "Hang", str(e)
    except RecursionError as e:
        res.error_type, res.error_msg = "RecursionError", str(e)[:200]
    except BaseException as e:  # noqa: BLE001
        if isinstance(e, (KeyboardInterrupt, SystemExit)):
            raise
        res.error_type, res.error_msg = type(e).__name__, (str(e) + (" <- " + repr(e.__cause__) if e.__cause__ else ""))[:300]
    finally:
        if os.getcwd() != cwd:
            os.chdir(cwd)
    res.wall_s = time.time() - t0
    if out.is_file():
        res.files["out.py"] = out.read_text(encoding="utf-8", errors="surrogateescape")
    shutil.rmtree(work, ignore_errors=True)
    return res


class NotEquivalent(Exception):
    pass


def encode(doc: dict, fmt: str):
    """the document in the representation `fmt`, together with the input_file_type"""
    if fmt == "json":
        return json.dumps(doc, ensure_ascii=False), "json"
    if fmt == "json_ascii":
        return json.dumps(doc, ensure_ascii=True, indent=1), "json"
    if fmt == "yaml":
        import yaml

        # PyYAML's emitter writes U+0085 raw into a folded quoted scalar that its own reader does not
        # read back; the text handed over must *be* the document for the stock loader
        for allow_unicode in (True, False):
            text = yaml.safe_dump(doc, allow_unicode=allow_unicode, sort_keys=False)
            if yaml.safe_load(text) == doc:
                return text, "yaml"
        raise NotEquivalent("no YAML text of this document is read back as the document by the stock loader")
    if fmt == "dict":
        return doc, "dict"
    if fmt.startswith("csv"):
        # csv[+long1|+long2|+trail|+short][+quoted][+crlf][+ragged_later][+file]: the shape of the rows below the header
        flags = set(fmt.split("+")[1:])
        buf = io.StringIO()
        w = csv.writer(buf, lineterminator="\r\n" if "crlf" in flags else "\n", quoting=csv.QUOTE_ALL if "quoted" in flags else csv.QUOTE_MINIMAL)
        row = list(doc.values())
        if "long1" in flags:      # one surplus cell with content
            row = row + ["surplus"]
        elif "long2" in flags:    # two surplus cells
            row = row + ["s1", ""]
        elif "short" in flags and len(row) > 1:   # the last cell is missing
            row = row[:-1]
        w.writerow(list(doc))
        w.writerow(row)
        later = ["later row"] * len(doc)
        if "ragged_later" in flags:
            later = later[:-1] if len(later) > 1 else later + ["x"]
        w.writerow(later)
        text = buf.getvalue()
        if "trail" in flags:      # an export whose data rows all end with the delimiter
            head, *rest = text.split("\n") if "crlf" not in flags else text.split("\r\n")
            nl = "\r\n" if "crlf" in flags else "\n"
            text = nl.join([head, *[r + "," if r else r for r in rest]])
        if "file" in flags:
            d = tempfile.mkdtemp(dir=e2e.scratch_root())
            pth = Path(d) / "export.csv"
            pth.write_text(text, encoding="utf-8", newline="")
            return pth, "csv"
        return text, "csv"
    raise ValueError(fmt)


def csv_pair(doc: dict, fmt: str) -> dict:
    """the header/row pair of a CSV case: header names paired with the cells below them (a surplus cell has no header
    name and belongs to no column; a missing cell leaves its column out of the pair)"""
    if fmt.startswith("csv") and "short" in fmt.split("+") and len(doc) > 1:
        return dict(list(doc.items())[:-1])
    return doc


def keys_differ(doc, dumped, path: str = "$") -> str | None:
    if isinstance(doc, dict):
        if not isinstance(dumped, dict):
            return f"{path}: an object was dumped as {type(dumped).__name__}"
        if set(doc) != set(dumped):
            return f"{path}: document keys {sorted(doc)} but dumped keys {sorted(dumped)}"
        for k in doc:
            r = keys_differ(doc[k], dumped[k], f"{path}[{k!r}]")
            if r:
                return r
    elif isinstance(doc, list):
        if not isinstance(dumped, (list, tuple, set)) or len(dumped) != len(doc):
            return f"{path}: an array of {len(doc)} was dumped as {type(dumped).__name__}"
        for i, (a, b) in enumerate(zip(doc, list(dumped))):
            r = keys_differ(a, b, f"{path}[{i}]")
            if r:
                return r
    return None


def evaluate(doc: dict, fmt: str, kind: str) -> tuple[str, str] | None:
    """None when C16 holds on this case, else (mechanism, observed)."""
    try:
        src, ift = encode(doc, fmt)
    except NotEquivalent:
        return None
    res = run_raw(src, ift, kind)
    if isinstance(src, Path):
        shutil.rmtree(src.parent, ignore_errors=True)
    doc = csv_pair(doc, fmt)
    if res.hang:
        return None  # C01's business
    if not res.ok:
        return ("generate_error", f"generate() raised {res.error_type}: {res.error_msg}")
    code = res.code
    err = e2e.parses(code)
    if err:
        # the spelling of the class names is part of the observation (an empty name, a keyword)
        return ("unparsable", err + c16_singular.class_tag(code))
    ua = unbound_aliased(code)
    if ua:
        return ("aliased_name_unbound", f"the module refers to {ua} which it never binds (C02's domain)")
    try:
        mod = e2e.load_module(code, kind)
    except BaseException as e:  # noqa: BLE001
        if isinstance(e, (KeyboardInterrupt, SystemExit)):
            raise
        return ("import_error", f"importing the generated module raised {type(e).__name__}: {str(e)[:200]}")
    try:
        root = getattr(mod, "Model", None)
        if root is None:
            return ("no_root_model", "the module defines no class Model")
        try:
            with warnings.catch_warnings():
                warnings.simplefilter("ignore")
                if kind == "pydantic_v2.BaseModel":
                    obj = root.model_validate(doc)
                    dumped = obj.model_dump(by_alias=True, exclude_unset=True)
                else:
                    obj = root.parse_obj(doc)
                    dumped = obj.dict(by_alias=True, exclude_unset=True)
        except Exception as e:  # noqa: BLE001
            # what the emitted classes shadow is part of the observation (pydantic v2 evaluates annotations inside the class namespace)
            return ("sample_rejected", f"{type(e).__name__}: {str(e)[:300]}" + (c16_names.shadow_tag(code) + c16_singular.alias_tag(code, doc) if kind == "pydantic_v2.BaseModel" else ""))
        diff = keys_differ(doc, dumped)
        if diff:
            return ("keys_differ", diff)
        return None
    finally:
        e2e.unload(mod)


def all_keys(v) -> list[str]:
    out: list[str] = []
    if isinstance(v, dict):
        for k, x in v.items():
            out.append(k)
            out += all_keys(x)
    elif isinstance(v, list):
        for x in v:
            out += all_keys(x)
    return out


def shrink(doc: dict, fmt: str, kind: str, mechanism: str, budget_s: float = 8.0, want_cause: str | None = None) -> dict:
    """greedy structural shrinking: drop keys / elements, replace values by simpler ones, while the
    same mechanism still fails"""
    t_end = time.time() + budget_s

    def fails(d) -> bool:
        if not d:
            return False
        r = evaluate(d, fmt, kind)
        return r is not None and r[0] == mechanism and (want_cause is None or cause_of(r[0], r[1]) == want_cause)

    fresh = [0]

    def variants(v, top=True):
        if isinstance(v, dict):
            for k in list(v):
                yield {a: b for a, b in v.items() if a != k}
            for k in list(v):  # hoist a nested object / the objects of a nested array
                if not top:
                    break
                if isinstance(v[k], dict) and v[k]:
                    yield {**{a: b for a, b in v.items() if a != k}, **v[k]}
            for k in list(v):
                for sub in variants(v[k], False):
                    yield {a: (sub if a == k else b) for a, b in v.items()}
            for k in list(v):  # an irrelevant key becomes a plain one
                if not (k.startswith("k") and k[1:].isdigit()):
                    fresh[0] += 1
                    yield {(f"k{fresh[0]}" if a == k else a): b for a, b in v.items()}
        elif isinstance(v, list):
            for i in range(len(v)):
                yield v[:i] + v[i + 1:]
            for i in range(len(v)):
                if isinstance(v[i], (list, dict)):
                    yield v[i] if isinstance(v[i], list) else v[:i] + [1] + v[i + 1:]
                for sub in variants(v[i], False):
                    yield v[:i] + [sub] + v[i + 1:]
        elif not fmt.startswith("csv") and v not in (1, None):
            yield 1

    changed = True
    while changed and time.time() < t_end:
        changed = False
        for cand in variants(doc):
            if time.time() > t_end:
                break
            if isinstance(cand, dict) and fails(cand):
                doc, changed = cand, True
                break
    return doc


def trigger_of(doc: dict) -> str:
    ks = all_keys(doc)
    cls = sorted({key_class(k) for k in ks})
    folded: dict[str, set] = {}
    for k in set(ks):
        folded.setdefault("".join(c for c in k.lower() if c.isalnum()), set()).add(k)
    if any(len(v) > 1 for v in folded.values()):
        cls.append("colliding_keys")
    return "+".join(cls) or "no_keys"


def has_all_null_array(v) -> bool:
    if isinstance(v, list):
        return (len(v) > 0 and all(x is None for x in v)) or any(has_all_null_array(x) for x in v)
    if isinstance(v, dict):
        return any(has_all_null_array(x) for x in v.values())
    return False


def cause_of(mechanism: str, observed: str) -> str:
    if "shadows a BaseModel attribute" in observed:
        return "shadows_basemodel_attribute"
    if mechanism == "aliased_name_unbound":
        return "aliased_name_unbound"
    if mechanism == "keys_differ" and " was dumped as " in observed:
        return "value_coerced_to_other_type"
    if mechanism == "generate_error":
        return observed.split(":")[0].replace("generate() raised ", "")
    if mechanism == "unparsable" and c16_singular.cause_from_tag(observed):
        return c16_singular.cause_from_tag(observed)   # class_name_is_empty | class_name_is_keyword | class_name_is_not_identifier
    if mechanism == "sample_rejected" and c16_names.cause_from_tag(observed):
        return c16_names.cause_from_tag(observed)   # member_shadows_own_type_class | member_shadows_sibling_type_class
    if mechanism == "sample_rejected" and c16_singular.cause_from_alias_tag(observed):
        return c16_singular.cause_from_alias_tag(observed)   # the rename pass wrote the Python name over the member's wire name
    return "other"


def oracle_case(ck: Check, camp, doc: dict, fmt: str, kind: str) -> None:
    camp.evaluations += 1
    camp.hit(f"format:{fmt}")
    camp.hit(f"kind:{kind}")
    r = evaluate(doc, fmt, kind)
    if csv_pair(doc, fmt) is doc:   # a short CSV row is not the sample the generator inferred from (it pairs the whole header)
        ACCEPT_LOG.append((doc, kind, None if r is None else r[0], None if r is None else cause_of(r[0], r[1])))
    if r is None:
        camp.hit("accepted_and_keys_equal")
        if len(camp.samples) < 3 and 30 < len(json.dumps(doc)) < 240:
            camp.samples.append({"document": doc, "format": fmt, "model": kind})
        return
    mechanism, observed = r
    small = shrink(doc, fmt, kind, mechanism, want_cause=cause_of(mechanism, observed))
    r2 = evaluate(small, fmt, kind)
    if r2 is not None and r2[0] == mechanism:
        observed = r2[1]
    else:
        small = doc
    trig = trigger_of(small)
    camp.hit(f"fail:{mechanism}:{trig}")
    ck.fail({"oracle": "sample_accepted", "format": "csv" if fmt.startswith("csv") else "document", "csv_shape": fmt if fmt.startswith("csv") else "n/a",
             "csv_short_row": fmt.startswith("csv") and "short" in fmt.split("+"), "kind": kind, "mechanism": mechanism, "trigger": trig,
             "cause": cause_of(mechanism, observed), "has_all_null_array": has_all_null_array(small),
             "has_typename_key": any(key_class(k) == "typename" for k in all_keys(small)),
             "has_astral_key": any(key_class(k) == "astral" for k in all_keys(small)),
             # array-of-objects members whose first (singular) class name is unusable; the same keyword twice is the recorded defect
             "singular_sites": c16_singular.singular_sites(small), "dup_singular_keyword": c16_singular.dup_singular_keyword(small),
             # where the shrunk document lies w.r.t. the decidable hypothesis of C16.sample_accepted_partial
             "v1_region": c16_bridge.region_of(ck, small, kind) if mechanism == "sample_rejected" else "n/a"},
            {"document": small, "format": fmt, "model": kind, "original_document": doc if small is not doc else None}, observed)


FORMATS = ["json", "yaml", "dict"]


def campaign_documents(ck: Check, n: int) -> None:
    camp = ck.campaign("e2e: seeded raw documents as JSON / YAML / dict → generate() → Model validates the document, dump(by_alias) has its keys")
    t0 = time.time()
    rng = ck.rng.fork("documents")
    for doc, kind in CORPUS:
        for fmt in FORMATS:
            oracle_case(ck, camp, doc, fmt, kind)
    for i in range(n):
        doc = rand_collision_document(rng) if i % 4 == 3 else rand_document(rng)
        camp.hit("family:colliding_class_names" if i % 4 == 3 else "family:general")
        kind = "pydantic_v2.BaseModel" if (i // 4 if i % 4 == 3 else i) % 2 == 0 else "pydantic.BaseModel"
        if kind == "pydantic.BaseModel":
            doc = without_v1_root_key(doc)
        for k in set(all_keys(doc)):
            camp.hit("key:" + key_class(k))
        camp.distinct.add(json.dumps(doc, sort_keys=True))
        for fmt in FORMATS + (["json_ascii"] if i % 5 == 0 else []):
            oracle_case(ck, camp, doc, fmt, kind)
    camp.wall_s = time.time() - t0


def campaign_csv(ck: Check, n: int) -> None:
    camp = ck.campaign("e2e: CSV header + first row → generate() → Model validates the row, dump(by_alias) has the header names")
    t0 = time.time()
    rng = ck.rng.fork("csv")
    for i in range(n):
        width = rng.range(1, 5)
        doc: dict[str, str] = {}
        while len(doc) < width:
            k = rand_key(rng)
            if "\n" in k or "\r" in k:
                continue
            doc[k] = rng.choice(STRINGS + ["3", "4.5"]).replace("\n", " ")
        kind = "pydantic_v2.BaseModel" if i % 2 == 0 else "pydantic.BaseModel"
        if kind == "pydantic.BaseModel":
            doc = without_v1_root_key(doc)
        # shape of the rows: rectangular; first row longer than the header (surplus cells, trailing delimiter on every
        # row); shorter; all cells quoted; CRLF line ends; later rows ragged; handed over as a file
        shape = ["", "", "+long1", "+long2", "+trail", "+short", "+trail", "+long1"][i % 8]
        extra = "".join(f for f, p in (("+quoted", 4), ("+crlf", 5), ("+ragged_later", 4), ("+file", 3)) if rng.chance(1, p))
        fmt = "csv" + shape + extra
        camp.distinct.add(json.dumps(doc, sort_keys=True) + fmt)
        for k in doc:
            camp.hit("key:" + key_class(k))
        for f in fmt.split("+")[1:] or ["rectangular"]:
            camp.hit("csv:" + f)
        oracle_case(ck, camp, doc, fmt, kind)
    camp.wall_s = time.time() - t0


def campaign_csv_sample(ck: Check, n: int) -> None:
    """Model.Infer.csvSample (the header/row pairing of the CSV branch) against the schema generate() really infers"""
    camp = ck.campaign("Model.Infer.infer ∘ csvSample vs the schema text generate() hands to JsonSchemaParser for CSV input "
                       "(first row rectangular / shorter / longer than the header, trailing delimiters, quoted cells, text and file)")
    t0 = time.time()
    rng = ck.rng.fork("csv-sample")
    cases = []
    for i in range(n):
        header: list[str] = []
        while len(header) < rng.range(1, 5):
            k = rand_key(rng)
            if "\n" not in k and "\r" not in k and k not in header:
                header.append(k)
        delta = [0, 0, 1, 2, -1, 1, -2, 3][i % 8]
        width = max(0, len(header) + delta)
        row = [rng.choice(STRINGS + ["3", "4.5", ""]).replace("\n", " ") for _ in range(width)]
        if not row:
            row = [""]   # an empty line is no row at all for the csv module
        cases.append((header, row, rng.chance(1, 4), rng.chance(1, 3)))
    replies = ck.driver.run([f"infer.csv ({' '.join(hx(h) for h in hd)}) ({' '.join(hx(c) for c in row)})" for hd, row, _, _ in cases])
    for (hd, row, quoted, as_file), rep in zip(cases, replies):
        camp.evaluations += 1
        shape = "rectangular" if len(row) == len(hd) else ("longer" if len(row) > len(hd) else "shorter")
        camp.hit(f"row:{shape}")
        camp.hit("quoted" if quoted else "minimal-quoting")
        camp.hit("file" if as_file else "text")
        sx = parse_sx(rep)
        model = node_of_sx(sx[1]) if sx and sx[0] == "ok" else rep
        buf = io.StringIO()
        w = csv.writer(buf, lineterminator="\n", quoting=csv.QUOTE_ALL if quoted else csv.QUOTE_MINIMAL)
        w.writerow(hd)
        w.writerow(row)
        w.writerow(["later"] * len(hd))
        text = buf.getvalue()
        if list(csv.reader(io.StringIO(text)))[:2] != [hd, row]:
            camp.unmodelled += 1   # the csv module does not read this text back as (header, row)
            continue
        src: Any = text
        tmpd = None
        if as_file:
            tmpd = tempfile.mkdtemp(dir=e2e.scratch_root())
            src = Path(tmpd) / "in.csv"
            src.write_text(text, encoding="utf-8", newline="")
        try:
            impl: Any = node_of_schema(json.loads(c16_bridge.captured_schema_text(src, "csv")))
        except Hang:
            camp.unmodelled += 1
            continue
        except Exception as e:  # noqa: BLE001
            impl = f"no schema: {type(e).__name__}: {str(e)[:160]}"
        finally:
            if tmpd:
                shutil.rmtree(tmpd, ignore_errors=True)
        camp.distinct.add(json.dumps([hd, row]))
        if model != impl:
            ck.disagree(camp, {"header": hd, "row": row, "quoted": quoted, "file": as_file}, repr(model)[:400], repr(impl)[:400])
        elif len(camp.samples) < 2 and shape != "rectangular":
            camp.samples.append({"header": hd, "row": row, "schema": repr(impl)[:300]})
    camp.wall_s = time.time() - t0


CORPUS = [
    ({"entry": {"content-type": "v", "x-id": "v"}, "entries": [{"content type": "v", "x.id": "v"}]}, "pydantic_v2.BaseModel"),
    ({"a": {"item": {"content-type": "v"}}, "b": {"item": {"content type": "v"}}, "c": {"item": {"content-type": "v"}}}, "pydantic.BaseModel"),
    ({"a\u0085b": 1, "o": {"a\u2028b": "x", "\u2029": [{"\u0085": None}]}}, "pydantic_v2.BaseModel"),
    ({"k3": [{}, [{"k1": 1, "k2": 1}]]}, "pydantic_v2.BaseModel"),
    ({"": "x"}, "pydantic_v2.BaseModel"),
    ({"a": 1, "A": 2}, "pydantic_v2.BaseModel"),
    ({"a": [1, 2.5, None, {"k": 1}, {"k": "s", "j": []}], "b": [], "c": {}, "d": [[1, 2], [3]], "e": None}, "pydantic.BaseModel"),
    ({"class": {"x-y": None, "_p": 1, "copy": 3}, "1st": {}, "a b": 1}, "pydantic_v2.BaseModel"),
    # the boundary of the region of C16.sample_accepted_partial for pydantic-v1 output: the first lies outside
    # (`Optional[List[None]]`, known finding C16-v1-list-of-none), the others inside and are accepted
    ({"k1": [[None], None]}, "pydantic.BaseModel"),
    ({"k1": [[None], None]}, "pydantic_v2.BaseModel"),
    ({"k1": [[None, 1], None], "k2": [[None]], "k3": [[None], None, 1], "k4": [None], "k5": [[[None]], None]}, "pydantic.BaseModel"),
]


def known_findings(ck: Check) -> None:
    for f in ck.findings:
        w = f["witness"]
        r = evaluate(w["document"], w["format"], w["model"])
        want = f["match"].get("mechanism")
        if r is not None and (want is None or r[0] == want or (isinstance(want, list) and r[0] in want)):
            ck.known(f["id"], f["what"])


def search_keys(ck: Check) -> None:
    """every key of the pools alone and in pairs with a plain key, all formats (run when a proof or the
    correspondence broke)"""
    camp = ck.campaign("search: every pooled key alone, in a nested object and in an array of objects")
    pool = sorted({k for g in KEY_GROUPS for k in g})
    for k in pool:
        for doc in ({k: 1}, {"outer": {k: "x"}}, {"list": [{k: 1}, {k: None, "other": 2}]}):
            for fmt in ("json", "yaml"):
                oracle_case(ck, camp, doc, fmt, "pydantic_v2.BaseModel")
        if ck.failures:
            return


def run(ck: Check) -> None:
    quick = ck.tier == "quick"
    ck.prove()
    ck.assumptions += [
        "genson 1.x (SchemaBuilder.add_object / to_schema) is modelled by Dcg/Model/Infer.lean and jsonschema validity of the inferred shapes by validL; both are validated in this run, not verified",
        "documents are JSON-like: string keys, null/bool/int/float/str scalars, arrays, objects; NaN/Infinity and non-string YAML keys are outside the domain",
        "floats are distinguished from ints the way Python's json/yaml loaders do (1.0 is a float)",
        "'dumping by wire name returns the document's keys' is read as model_dump(by_alias=True, exclude_unset=True): members the document did not set (optional members of merged array items) are not part of the comparison",
        "the composed theorems (sample_accepted_*) are about Model.Infer ∘ InferBridge.toSchema ∘ Model.Translate.tr ∘ Sem.Pyd.acceptsTy; each seam is validated in this run (genson, the schema text generate() hands to the parser, the parser's IR, the exec'd classes), not verified; class / member names and the wire names of model_dump(by_alias) are outside those models and rest on the end-to-end oracle only",
        "Sem.Pyd (trusted, C03) does not model pydantic v1's refusal of None for Optional[List[None]]: the v1 statement is claimed on v1Safe only (known finding C16-v1-list-of-none is the refuting witness outside it)",
        "pydantic-v1-style output is executed on pydantic.v1 of pydantic 2.13; the key `__root__` (pydantic v1's own wire name for custom roots, unwrapped by its dict()) is not used in documents for v1-style output",
    ]
    guard.campaign(ck, campaign_infer, 600 if quick else 6000)
    guard.campaign(ck, campaign_valid, 600 if quick else 6000)
    guard.campaign(ck, c16_bridge.campaign_bridge, 120 if quick else 1500, sys.modules[__name__])
    guard.campaign(ck, c16_hetero.campaign_text, 40 if quick else 1200, sys.modules[__name__])
    guard.campaign(ck, c16_names.campaign_member_rename, 300 if quick else 3000)
    del ACCEPT_LOG[:]
    guard.campaign(ck, campaign_documents, 200 if quick else 2500)
    guard.campaign(ck, c16_hetero.campaign_hetero, 16 if quick else 1500, sys.modules[__name__])
    guard.campaign(ck, c16_names.campaign_selfnamed, 120 if quick else 1500, sys.modules[__name__])
    guard.campaign(ck, c16_singular.campaign_names, 150 if quick else 1500)
    guard.campaign(ck, c16_singular.campaign_singular, 150 if quick else 2000, sys.modules[__name__])
    guard.campaign(ck, campaign_csv, 80 if quick else 800)
    guard.campaign(ck, campaign_csv_sample, 120 if quick else 1200)
    guard.campaign(ck, c16_bridge.campaign_accepts, list(ACCEPT_LOG))
    guard.campaign(ck, c16_bridge.campaign_v1_boundary, 2 if quick else 3, sys.modules[__name__])
    ck.search_hooks.append(lambda ck_: c16_hetero.search_hetero(ck_, sys.modules[__name__]))
    ck.search_hooks.append(lambda ck_: c16_names.search_selfnamed(ck_, sys.modules[__name__]))
    ck.search_hooks.append(lambda ck_: c16_singular.search_singular(ck_, sys.modules[__name__]))
    ck.search_hooks.append(search_keys)
    known_findings(ck)


def replay(ck: Check, path: str) -> int:
    data = json.loads(open(path).read())
    inp = data.get("input") or {}
    camp = ck.campaign("replay")
    ck.findings = []
    if "document" in inp:
        oracle_case(ck, camp, inp["document"], inp["format"], inp["model"])
    for f in ck.failures:
        print("REPLAY-FAILS:", json.dumps(f.classification), f.observed[:300])
    if not ck.failures:
        print("replay: the oracle does not fail on this input")
    return 1 if ck.failures else 0
