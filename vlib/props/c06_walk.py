"""C06 — `$ref`s under EVERY schema keyword: the walk that hands references to the loader.

`JsonSchemaParser.parse_ref` is the only place where a `$ref` is handed to `resolve_ref` (which loads an
external file at once or reserves a local pointer for the work list).  A reference the walk does not reach is
registered by the type builder (`model_resolver.add_ref`) but never loaded: no class for the referenced
subschema, `A Parser can not resolve classes`.  References to entries of `definitions` / `$defs` of a document
that is parsed anyway (or to files of a directory input) hide this, because those subschemas get their class
without the walk.  The family here therefore is

* SINGLE-FILE input `main.json` next to sibling files that are NOT part of the input set;
* targets that nothing but the reference makes the generator look at: a whole external file, an entry of the
  `definitions` of an external file, an object outside `definitions` of an external file (`x-parts/…`), an
  object outside `definitions` of the input document (`#/x-parts/…`, `#/properties/spare/properties/…`);
  plus, as controls, an entry of the document's own `definitions`;
* the reference placed under every keyword under which a subschema can stand (the schema-valued fields of
  `JsonSchemaObject`, read from the source by the translator: properties, items — single and tuple form —,
  additionalProperties, patternProperties, allOf, anyOf, oneOf) and under chains of up to three of them,
  hosted by a property of the root object, of an entry of `definitions`, or of a referenced target
  (references found while an external subschema is being parsed).

Oracle = the property: generation succeeds; every referenced subschema has exactly ONE class (the class
carrying the marker member that only this subschema has); from the member that holds the reference, the set
of marker classes reachable through annotations, base classes, root types and type aliases is exactly the set
of subschemas the member's schema refers to.

`campaign_walk_model`: `Model.ResolverWalk.collect` (the walk over the generated keyword list
`Gen.ResolverTables.parseRefVisits`) against the real `parse_ref` (the `$ref` strings it hands to
`resolve_ref`, recorded on a parser whose `resolve_ref` is replaced by a recorder) on random `JsonSchemaObject`
trees that also contain boolean subschemas, empty lists and keywords the walk does not know.
"""
from __future__ import annotations

import ast
import json
import time
import typing

from .. import e2e
from ..common import Rng, hx
from ..runner import Check
from ..translate import c06_tables

KINDS = ["pydantic_v2.BaseModel", "pydantic_v2.BaseModel", "pydantic.BaseModel", "dataclasses.dataclass", "typing.TypedDict", "msgspec.Struct"]
#: keywords of the family; `items[]` is the tuple form of `items`
KEYWORDS = ["properties", "items", "items[]", "additionalProperties", "patternProperties", "allOf", "anyOf", "oneOf"]
MULTI = {"properties", "items[]", "patternProperties", "allOf", "anyOf", "oneOf"}
#: target id -> (file, pointer segments or None for the whole file, marker stem)
TARGETS = {
    "cat": ("cat.json", None),
    "dog": ("kennel.json", ["definitions", "Dog"]),
    "pup": ("kennel.json", ["x-parts", "Pup"]),
    "colt": ("stable.json", ["definitions", "Colt"]),
    "foal": ("stable.json", ["x-parts", "Foal"]),
    "bird": ("main.json", ["x-parts", "Bird"]),
    "finch": ("main.json", ["properties", "spare", "properties", "finch"]),
    "local": ("main.json", ["definitions", "Local"]),
}
INLINE_TOO = {"finch"}
WALK_ONLY = ["cat", "dog", "pup", "colt", "foal", "bird", "finch"]
FILE_TITLES = {"main.json": "Main", "cat.json": "Cat", "kennel.json": "Kennel", "stable.json": "Stable"}


def marker(t: str) -> str:
    return f"{t}_marker"


def ref_string(src_file: str, t: str) -> str:
    f, ptr = TARGETS[t]
    file_part = "" if f == src_file else f
    if ptr is None:
        return file_part
    return file_part + "#/" + "/".join(ptr)


def wrap(kw: str, inners: list) -> dict:
    if kw == "properties":
        return {"type": "object", "properties": {f"q{i}": s for i, s in enumerate(inners)}}
    if kw == "items":
        return {"type": "array", "items": inners[0]}
    if kw == "items[]":
        return {"type": "array", "items": list(inners)}
    if kw == "additionalProperties":
        return {"type": "object", "additionalProperties": inners[0]}
    if kw == "patternProperties":
        return {"type": "object", "patternProperties": {f"^{chr(97 + i)}": s for i, s in enumerate(inners)}}
    return {kw: list(inners)}


def member_schema(src_file: str, chain: list, targets: list) -> dict:
    """the schema of a member: `chain[0]` ⊃ `chain[1]` ⊃ … ⊃ the references to `targets`"""
    refs = [{"$ref": ref_string(src_file, t)} for t in targets]
    if not chain:
        return refs[0]
    inner = wrap(chain[-1], refs if chain[-1] in MULTI else refs[:1])
    for kw in reversed(chain[:-1]):
        inner = wrap(kw, [inner])
    return inner


def members_of(case: dict, host: str) -> list:
    return [m for m in case["members"] if m["host"] == host]


def target_body(case: dict, t: str) -> dict:
    f, _ = TARGETS[t]
    props = {marker(t): {"type": "string"}}
    for k, m in enumerate(case["members"]):
        if m["host"] == t:
            props[f"p{k}"] = member_schema(f, m["chain"], m["targets"])
    return {"type": "object", "properties": props, "required": [marker(t)]}


def used_targets(case: dict) -> list:
    """targets referred to from the root / the holder definition, closed under the members hosted by targets"""
    seen: list = []
    todo = [t for m in case["members"] if m["host"] in ("root", "holder") for t in m["targets"]]
    while todo:
        t = todo.pop(0)
        if t in seen:
            continue
        seen.append(t)
        todo += [u for m in members_of(case, t) for u in m["targets"]]
    return seen


def chain_ok(chain: list) -> bool:
    """`allOf` is the innermost keyword, or stands over an object with `properties` / another `allOf`: the generator renders an
    allOf member that is neither a reference nor an object with properties as `Any` (no reference is written at all — a matter
    of C03, what the type says, not of where references land)"""
    return all(nxt in ("properties", "allOf") for kw, nxt in zip(chain, chain[1:]) if kw == "allOf")


def check_family(case: dict) -> None:
    order = list(TARGETS)
    for m in case["members"]:
        assert m["host"] in ("root", "holder") or m["host"] in TARGETS
        assert all(kw in KEYWORDS for kw in m["chain"]) and len(m["chain"]) <= 3 and chain_ok(m["chain"])
        assert m["targets"] and all(t in TARGETS for t in m["targets"])
        assert len(set(m["targets"])) == len(m["targets"])
        if not m["chain"] or m["chain"][-1] not in MULTI:
            assert len(m["targets"]) == 1
        if m["host"] in TARGETS:  # references hosted by a target go to LATER targets only (acyclic)
            assert all(order.index(t) > order.index(m["host"]) for t in m["targets"])


def build_files(case: dict) -> dict:
    check_family(case)
    used = used_targets(case)
    files: dict = {}

    def doc(f: str) -> dict:
        if f not in files:
            files[f] = {"$schema": "http://json-schema.org/draft-07/schema#", "title": FILE_TITLES[f], "type": "object",
                        "properties": {f"{f.split('.')[0]}_own": {"type": "string"}}}
        return files[f]

    main = doc("main.json")
    for k, m in enumerate(case["members"]):
        if m["host"] == "root":
            main["properties"][f"p{k}"] = member_schema("main.json", m["chain"], m["targets"])
    holder = members_of(case, "holder")
    if holder:
        body = {"type": "object", "properties": {"holder_marker": {"type": "string"}}}
        for k, m in enumerate(case["members"]):
            if m["host"] == "holder":
                body["properties"][f"p{k}"] = member_schema("main.json", m["chain"], m["targets"])
        main.setdefault("definitions", {})["Holder"] = body
    for t in used:
        f, ptr = TARGETS[t]
        body = target_body(case, t)
        d = doc(f)
        if ptr is None:
            d["properties"].update(body["properties"])
            d["required"] = body["required"]
            continue
        cur = d
        for seg in ptr[:-1]:
            if seg == "spare":
                cur = cur.setdefault(seg, {"type": "object", "properties": {}})
                continue
            cur = cur.setdefault(seg, {})
        cur[ptr[-1]] = body
    return files


# ------------------------------------------------------------------ reading the generated module
def names_in(node) -> list:
    """every name an expression mentions, string annotations opened"""
    out: list = []
    for n in ast.walk(node):
        if isinstance(n, ast.Name):
            out.append(n.id)
        elif isinstance(n, ast.Attribute):
            out.append(n.attr)
        elif isinstance(n, ast.Constant) and isinstance(n.value, str):
            try:
                out += names_in(ast.parse(n.value, mode="eval").body)
            except (SyntaxError, ValueError):
                pass
    return out


def module_graph(code: str) -> tuple[dict, dict]:
    """(members, uses): members[C] = {member: names its annotation mentions} for every top-level class /
    functional TypedDict; uses[X] = names mentioned by the bases of class X, or by the value of a top-level
    assignment `X = …` (type alias)"""
    members: dict = {}
    uses: dict = {}
    for node in ast.parse(code).body:
        if isinstance(node, ast.ClassDef):
            ms = {}
            for st in node.body:
                if isinstance(st, ast.AnnAssign) and isinstance(st.target, ast.Name):
                    ms[st.target.id] = names_in(st.annotation)
            members.setdefault(node.name, {}).update(ms)
            uses.setdefault(node.name, []).extend(x for b in node.bases for x in names_in(b))
        elif isinstance(node, (ast.Assign, ast.AnnAssign)) and node.value is not None:
            tgt = node.targets[0] if isinstance(node, ast.Assign) else node.target
            if not isinstance(tgt, ast.Name):
                continue
            v = node.value
            if isinstance(v, ast.Call) and getattr(v.func, "id", "") == "TypedDict" and len(v.args) == 2 and isinstance(v.args[1], ast.Dict):
                members.setdefault(tgt.id, {}).update(
                    {k.value: names_in(val) for k, val in zip(v.args[1].keys, v.args[1].values) if isinstance(k, ast.Constant)})
            else:
                uses.setdefault(tgt.id, []).extend(names_in(v))
    return members, uses


def reachable(start: list, members: dict, uses: dict) -> set:
    seen: set = set()
    todo = list(start)
    while todo:
        x = todo.pop()
        if x in seen:
            continue
        seen.add(x)
        todo += uses.get(x, [])
        for names in members.get(x, {}).values():
            todo += names
    return seen


def expected_closure(case: dict, targets: list) -> set:
    out: set = set()
    todo = list(targets)
    while todo:
        t = todo.pop()
        if t in out:
            continue
        out.add(t)
        todo += [u for m in members_of(case, t) for u in m["targets"]]
    return out


def input_trigger(case: dict) -> str:
    """class of the input w.r.t. the recorded defects (from the input alone)"""
    for m in case["members"]:
        if m["host"] in TARGETS and TARGETS[m["host"]][0] != "main.json" and m["chain"] and m["chain"][-1] == "allOf" and len(m["targets"]) == 1:
            f, ptr = TARGETS[m["targets"][0]]
            if f == TARGETS[m["host"]][0] and ptr is not None and m["host"] in used_targets(case):
                return "single_allOf_local_ref_written_in_external_file"  # C06-K5
    return "none"


def walk_oracle(ck: Check, camp, case: dict) -> bool:
    """The property's own oracle on one single-file input with sibling files. True when it passed."""
    from . import c06 as base_mod

    camp.evaluations += 1
    files = build_files(case)
    kind = case.get("kind", "pydantic_v2.BaseModel")
    res = base_mod.run_generate_files(files, kind)
    camp.hit("kind:" + kind)
    inner = sorted({m["chain"][-1] if m["chain"] else "direct" for m in case["members"]})
    for m in case["members"]:
        camp.hit("under:" + (m["chain"][-1] if m["chain"] else "direct"))
        camp.hit(f"depth:{len(m['chain'])}")
        camp.hit("host:" + (m["host"] if m["host"] in ("root", "holder") else "target"))
        for kw in m["chain"][:-1]:
            camp.hit("through:" + kw)
        for t in m["targets"]:
            f, ptr = TARGETS[t]
            camp.hit("target:" + ("whole-file" if ptr is None else ("local" if f == "main.json" else "external") + ("-definitions" if ptr[0] == "definitions" else "-outside-definitions")))
    cls = {"oracle": "e2e-walk", "kind": kind, "under": inner}
    trig = {"trigger": input_trigger(case)}

    def fail(mech: str, observed: str, **extra) -> bool:
        camp.hit("fail:" + mech)
        ck.fail({**cls, "mechanism": mech, **extra}, case, observed)
        return False

    if res.hang:
        return fail("hang", "generate() did not return")
    if not res.ok:
        return fail("generation_error", f"{res.error_type}: {res.error_msg}", error=res.error_type, **trig)
    err = e2e.parses(res.code)
    if err:
        return fail("unparsable", err)
    members, uses = module_graph(res.code)
    names = sorted(set(members) | set(uses))
    owner: dict = {}
    for t in used_targets(case):
        holders = [c for c, ms in members.items() if marker(t) in ms]
        # an object nested in `properties` of the input document is emitted inline (it is part of its parent) and once more when
        # a pointer refers to it: it is not a named schema, one or two classes
        if not 1 <= len(holders) <= (2 if t in INLINE_TOO else 1):
            return fail("missing_class" if not holders else "duplicated_class",
                        f"subschema {ref_string('', t) or TARGETS[t][0]}: classes carrying its marker: {holders}; module names: {names}", target=t, **trig)
        owner[t] = holders
    hosts = {"root": [c for c, ms in members.items() if "main_own" in ms], "holder": [c for c, ms in members.items() if "holder_marker" in ms]}
    by_class = {c: t for t, cs in owner.items() for c in cs}
    for k, m in enumerate(case["members"]):
        if m["host"] in ("root", "holder"):
            hs = hosts[m["host"]]
            if len(hs) != 1:
                return fail("missing_class" if not hs else "duplicated_class", f"host {m['host']}: classes {hs}; module names: {names}")
            host_cls = hs[0]
        elif m["host"] in owner:
            host_cls = owner[m["host"]][0]
        else:
            continue  # hosted by a target that nothing refers to
        ann = members[host_cls].get(f"p{k}")
        if ann is None:
            return fail("member_missing", f"{host_cls}.p{k} is not in the output", under=[m["chain"][-1] if m["chain"] else "direct"])
        got = {by_class[c] for c in reachable(ann, members, uses) if c in by_class}
        want = expected_closure(case, m["targets"])
        if got != want:
            return fail("ref_mislanded", f"{host_cls}.p{k} (chain {m['chain']}) reaches the classes of {sorted(got)}, its schema refers to {sorted(want)}",
                        under=[m["chain"][-1] if m["chain"] else "direct"])
    camp.distinct.add(json.dumps([case["members"], kind], sort_keys=True))
    if len(camp.samples) < 3:
        camp.samples.append({"input": case, "observed": "ok: " + ", ".join(f"{t}->{'/'.join(c)}" for t, c in owner.items())})
    return True


# ------------------------------------------------------------------ generators
def gen_chain(rng: Rng, last: str | None = None, depth: int | None = None) -> list:
    depth = depth if depth is not None else rng.choice([1, 1, 1, 2, 2, 3])
    while True:
        chain = [rng.choice(KEYWORDS) for _ in range(depth)]
        if last is not None:
            chain[-1] = last
        if chain_ok(chain):
            return chain


def gen_targets(rng: Rng, chain: list, pool: list) -> list:
    if chain and chain[-1] in MULTI and len(pool) >= 2 and rng.chance(2, 3):
        return rng.sample(pool, min(len(pool), rng.choice([2, 2, 3])))
    return [rng.choice(pool)]


def focus_case(rng: Rng, kw: str) -> dict:
    """one case whose references ALL stand directly under `kw` and go to targets that only the walk can load"""
    chain = gen_chain(rng, last=kw, depth=rng.choice([1, 1, 2]))
    return {"walk": True, "kind": rng.choice(KINDS), "members": [{"host": "root", "chain": chain, "targets": gen_targets(rng, chain, WALK_ONLY)}]}


def gen_case(rng: Rng) -> dict:
    order = list(TARGETS)
    members = []
    for _ in range(rng.choice([1, 2, 2, 3])):
        chain = gen_chain(rng) if rng.chance(9, 10) else []
        members.append({"host": rng.choice(["root", "root", "holder"]), "chain": chain, "targets": gen_targets(rng, chain, order if rng.chance(1, 4) else WALK_ONLY)})
    case = {"walk": True, "kind": rng.choice(KINDS), "members": members}
    if rng.chance(1, 3):  # a reference found while a referenced subschema is being parsed
        hosts = [t for t in used_targets(case) if order.index(t) < len(order) - 1]
        if hosts:
            h = rng.choice(hosts)
            chain = gen_chain(rng)
            later = [t for t in order[order.index(h) + 1:]]
            # a reference written in an external file to the input document would need `main.json#/…`: keep targets
            # in files other than main.json unless the host itself is in main.json
            if TARGETS[h][0] != "main.json":
                later = [t for t in later if TARGETS[t][0] != "main.json"]
            if later:
                members.append({"host": h, "chain": chain, "targets": gen_targets(rng, chain, later)})
    return case


CORPUS: list = [
    # every keyword once, references to a whole file and to an entry of an external `definitions`
    {"walk": True, "kind": "pydantic_v2.BaseModel", "members": [{"host": "root", "chain": [kw], "targets": ["cat", "dog"] if kw in MULTI else ["dog"]}]}
    for kw in KEYWORDS
] + [
    {"walk": True, "kind": "pydantic_v2.BaseModel", "members": [{"host": "root", "chain": [], "targets": ["pup"]}, {"host": "holder", "chain": ["items", "anyOf"], "targets": ["bird", "finch"]}]},
]


def campaign_walk(ck: Check, n: int, label: str = "", cases: list | None = None, only: list | None = None) -> None:
    camp = ck.campaign("e2e $ref under every schema keyword (single-file input, targets that only the parse_ref walk loads: external files, pointers outside definitions)" + label)
    t0 = time.time()
    rng = ck.rng.fork("walk" + label)
    todo = list(cases) if cases is not None else list(CORPUS)
    if cases is None:
        kws = only or KEYWORDS
        for kw in kws:  # stratified: every keyword is the innermost one of at least one case in every run
            todo += [focus_case(rng, kw) for _ in range(2 if n <= 200 else 4)]
        while len(todo) < n + len(CORPUS):
            todo.append(focus_case(rng, rng.choice(kws)) if only else gen_case(rng))
    for case in todo:
        walk_oracle(ck, camp, case)
    camp.wall_s = time.time() - t0


# ------------------------------------------------------------------ Model.ResolverWalk.collect vs the real parse_ref
#: keywords that are not fields of JsonSchemaObject (kept in `extras`): no walk descends into them
FOREIGN_KEYWORDS = ["not", "if", "then", "contains", "propertyNames", "prefixItems", "dependentSchemas", "x-schema"]


def gen_schema_tree(rng: Rng, fields: list, depth: int, counter: list) -> dict:
    """a raw schema: maybe a `$ref` (numbered), subschemas under schema keywords in every syntactic form (single,
    list, mapping; boolean subschemas and empty lists included) and under keywords the parser does not know"""
    s: dict = {}
    if rng.chance(1, 2) or depth == 0:
        s["$ref"] = f"#/definitions/R{counter[0]}"
        counter[0] += 1
    if depth == 0:
        return s
    for _ in range(rng.choice([0, 1, 1, 2, 2, 3])):
        kw = rng.choice(fields + fields + FOREIGN_KEYWORDS)
        if kw in s:
            continue

        def sub():
            return gen_schema_tree(rng, fields, depth - 1, counter)

        if kw in ("properties", "patternProperties", "dependentSchemas"):
            v: typing.Any = {f"k{i}": (rng.choice([True, False]) if kw == "properties" and rng.chance(1, 6) else sub()) for i in range(rng.choice([0, 1, 2, 2]))}
        elif kw in ("oneOf", "anyOf", "allOf", "prefixItems"):
            v = [sub() for _ in range(rng.choice([0, 1, 2, 2, 3]))]
        elif kw == "items":
            v = rng.choice([lambda: sub(), lambda: [sub() for _ in range(rng.choice([0, 1, 2]))], lambda: True])()
        elif kw == "additionalProperties":
            v = rng.choice([lambda: sub(), lambda: sub(), lambda: False, lambda: True])()
        else:
            v = sub()
        s[kw] = v
    return s


def tree_sx(raw: dict, fields: list) -> str:
    """the schema as a `Model.ResolverWalk.Sch` (entries in document order)"""
    out = []
    for k, v in raw.items():
        if k == "$ref":
            out.append(f"(r {int(v.rsplit('R', 1)[1])})")
        elif k in fields or k in FOREIGN_KEYWORDS:
            kids = v if isinstance(v, list) else (list(v.values()) if k in ("properties", "patternProperties", "dependentSchemas") and isinstance(v, dict) else [v])
            out += [f"(s {hx(k)} {tree_sx(c, fields)})" for c in kids if isinstance(c, dict)]
    return "(" + " ".join(out) + ")"


def all_refs(raw, fields: list, only: list | None = None) -> list:
    out = []
    if isinstance(raw, dict):
        for k, v in raw.items():
            if k == "$ref":
                out.append(int(v.rsplit("R", 1)[1]))
            elif k in (only if only is not None else fields + FOREIGN_KEYWORDS):
                kids = v if isinstance(v, list) else (list(v.values()) if k in ("properties", "patternProperties", "dependentSchemas") and isinstance(v, dict) else [v])
                for c in kids:
                    out += all_refs(c, fields, only)
    return out


def real_walk(raw: dict) -> list:
    """the `$ref`s the real `parse_ref` hands to `resolve_ref`"""
    from datamodel_code_generator.parser.jsonschema import JsonSchemaObject, JsonSchemaParser

    parser = JsonSchemaParser("")
    seen: list = []
    parser.resolve_ref = lambda ref: seen.append(ref)  # type: ignore[method-assign]
    parser.parse_ref(JsonSchemaObject.parse_obj(raw), [])
    return sorted(int(r.rsplit("R", 1)[1]) for r in seen)


WALK_CORPUS: list = [
    {"$ref": "#/definitions/R0"},
    {kw: [{"$ref": "#/definitions/R0"}, {"items": {"$ref": "#/definitions/R1"}}] for kw in ("oneOf", "anyOf", "allOf")},
    {"properties": {"a": {"oneOf": [{"$ref": "#/definitions/R0"}]}, "b": True}, "additionalProperties": False, "not": {"$ref": "#/definitions/R1"}},
    {"items": [{"$ref": "#/definitions/R0"}, {"patternProperties": {"^a": {"additionalProperties": {"$ref": "#/definitions/R1"}}}}]},
]


def campaign_walk_model(ck: Check, n: int, cases: list | None = None) -> None:
    camp = ck.campaign("Model.ResolverWalk.collect over Gen.parseRefDescends vs JsonSchemaParser.parse_ref ($refs handed to resolve_ref) on random schema trees")
    t0 = time.time()
    v = c06_tables.values()
    fields = [f for f in v["schemaFields"] if f != "<unrecognised>"] or ["items", "additionalProperties", "patternProperties", "oneOf", "anyOf", "allOf", "properties"]
    rng = ck.rng.fork("walk-model")
    if cases is None:
        cases = list(WALK_CORPUS) + [gen_schema_tree(rng, fields, rng.choice([1, 2, 2, 3, 4]), [0]) for _ in range(n)]
    replies = ck.driver.run([f"res.walk {tree_sx(c, fields)}" for c in cases])
    for c, rep in zip(cases, replies):
        camp.evaluations += 1
        if not rep.startswith("ok ("):
            ck.infra_errors.append(f"driver reply {rep!r} for {c!r}")
            continue
        model = sorted(int(x) for x in rep[4:-1].split())
        try:
            real: typing.Any = real_walk(c)
        except Exception as ex:  # noqa: BLE001
            real = f"raised {type(ex).__name__}"
        everything = sorted(all_refs(c, fields))
        under_fields = sorted(all_refs(c, fields, only=fields))
        camp.hit("refs:" + ("0" if not everything else "1" if len(everything) == 1 else "2+"))
        if under_fields != everything:
            camp.hit("ref_below_foreign_keyword")
        if real == under_fields:
            camp.hit("walk_reaches_every_ref_below_schema_keywords")
        elif isinstance(real, list):
            camp.hit("walk_skips_refs_below_schema_keywords")
        if len(everything) >= 2:
            camp.distinct.add(json.dumps(c, sort_keys=True))
        if model != real:
            ck.disagree(camp, {"walk_tree": c}, model, real)
        elif len(camp.samples) < 2 and len(everything) >= 3:
            camp.samples.append({"case": c, "result": real})
    camp.wall_s = time.time() - t0


def search(ck: Check) -> None:
    """failing-input search for a broken walk obligation / correspondence: the family restricted to references that stand
    directly under the keywords the walk of the source as it is now does NOT descend into (read from the regenerated
    tables), then the whole family with a wider stream"""
    v = c06_tables.values()
    missing = [k for k in v["schemaFields"] if k not in v["parseRefDescends"]]
    only = [kw for kw in KEYWORDS if kw.rstrip("[]") in missing]
    if only:
        campaign_walk(ck, 40, " [search: keywords parse_ref does not descend into: " + ", ".join(missing) + "]", only=only)
        if ck.failures:
            return
    campaign_walk(ck, 300, " [search]")
