"""C15 — JSON text vs the equivalent YAML text, for YAML *surface features* that have no JSON spelling.

`util.load_yaml` (the patched `SafeLoaderTemp`) reads BOTH JSON and YAML text. yaml.safe_dump — what the older
json-vs-yaml pair writes — never emits merge keys (`<<: *a`, `<<: [*a, *b]`), anchors / aliases on mappings, sequences
and scalars, explicit tags (`!!str 12`, `!!int "7"`), block scalars (`|`, `>`), flow collections inside block ones, plain
multi-word scalars, the YAML-1.1 spellings of booleans / null / integers (`yes`, `~`, `1_000`, `0x1F`, `017`), `? key`
entries, document markers, directives or comments. The writer below produces YAML TEXT with those features from a seeded
schema value; the *meaning* of a text is what the reference loader makes of it:

    reference loader = stock PyYAML SafeLoader (pure Python, assembled from the pristine Reader / Scanner / Parser /
    Composer / SafeConstructor / Resolver layers) with the REVIEWED overrides of the project applied (timestamps are
    constructed like strings; lean/Dcg/Gen/YamlLoader.lean + theorem yaml_loader_overrides_reviewed).

Two things are checked:

* the loader itself (correspondence): `load_yaml(text)` = reference(text), typed (1 ≠ 1.0 ≠ '1' ≠ True, key types and key
  order included), for seeded texts of the surface family — here also with what JSON cannot say at all (non-string keys
  `on` / `404` / `1.0` / `null` / `~`, `.inf`, `!!binary`, `!!set`, `!!omap`, tagged timestamps) — and a stream of malformed texts;
* the property's own oracle (pair `json_vs_yaml_surface`): generate(YAML text) against generate(JSON text of reference(text))
  gives the same classes (per-ClassDef AST, c15.compare).
"""
from __future__ import annotations

import json
import math
import re
import time
from typing import Any

from ..common import Hang, Rng, watchdog
from ..runner import Check

PAIR = "json_vs_yaml_surface"
TS = "tag:yaml.org,2002:timestamp"
STR = "tag:yaml.org,2002:str"


# ------------------------------------------------------------------ the reference loader
_REF = None


def ref_loader():
    global _REF
    if _REF is None:
        import yaml
        from yaml.composer import Composer
        from yaml.constructor import SafeConstructor
        from yaml.parser import Parser
        from yaml.reader import Reader
        from yaml.resolver import Resolver
        from yaml.scanner import Scanner

        class RefLoader(Reader, Scanner, Parser, Composer, SafeConstructor, Resolver):
            yaml_constructors = dict(SafeConstructor.yaml_constructors)
            yaml_multi_constructors = dict(SafeConstructor.yaml_multi_constructors)
            yaml_implicit_resolvers = {k: list(v) for k, v in Resolver.yaml_implicit_resolvers.items()}
            yaml_path_resolvers = dict(Resolver.yaml_path_resolvers)

            def __init__(self, stream):
                Reader.__init__(self, stream)
                Scanner.__init__(self)
                Parser.__init__(self)
                Composer.__init__(self)
                SafeConstructor.__init__(self)
                Resolver.__init__(self)

        # the reviewed overrides (theorem yaml_loader_overrides_reviewed): timestamps stay strings
        RefLoader.yaml_constructors[TS] = SafeConstructor.construct_yaml_str
        _REF = RefLoader
        assert yaml.__with_libyaml__ or True
    return _REF


def ref_load(text: str):
    import yaml

    return yaml.load(text, Loader=ref_loader())  # noqa: S506


def resolves_to(text: str) -> str:
    """tag the stock resolver gives the plain scalar `text`"""
    from yaml.resolver import Resolver

    for tag, rx in Resolver.yaml_implicit_resolvers.get(text[:1] if text else "", []) + Resolver.yaml_implicit_resolvers.get(None, []):
        if rx.match(text):
            return tag
    return STR


def canon(v) -> str:
    from .c15_refs import typed

    return json.dumps(typed(v), sort_keys=False, ensure_ascii=True)


def jsonable(v) -> bool:
    """a value JSON text can say: string keys, finite floats, no dates / bytes / sets"""
    if isinstance(v, dict):
        return all(isinstance(k, str) and jsonable(x) for k, x in v.items())
    if isinstance(v, list):
        return all(jsonable(x) for x in v)
    if isinstance(v, float):
        return math.isfinite(v) and "e" not in repr(v)   # exponent spellings are the recorded finding C15-json-exponent-number
    return v is None or isinstance(v, (bool, int, str))


# ------------------------------------------------------------------ the writer
def printable(c: str) -> bool:
    o = ord(c)
    return 0x20 <= o <= 0x7E or 0xA0 <= o <= 0xD7FF and o not in (0x2028, 0x2029) or 0xE000 <= o <= 0xFFFD and o != 0xFEFF or 0x10000 <= o <= 0x10FFFF


PLAIN_FIRST = re.compile(r"[A-Za-z0-9_$/.(\u00c0-\ud7ff]")


def plain_syntax_ok(s: str, flow: bool) -> bool:
    """may be written without quotes (whatever it then resolves to)"""
    if not s or not PLAIN_FIRST.match(s[0]) or s[-1] in " :" or s.startswith(("...", "---")):
        return False
    if not all(printable(c) for c in s) or ": " in s or " #" in s or "  " in s:
        return False
    if flow and any(c in s for c in ",[]{}?:"):
        return False
    return True


def dq(s: str) -> str:
    out = ['"']
    for c in s:
        if c == '"':
            out.append('\\"')
        elif c == "\\":
            out.append("\\\\")
        elif c == "\n":
            out.append("\\n")
        elif c == "\t":
            out.append("\\t")
        elif printable(c):
            out.append(c)
        elif ord(c) <= 0xFF:
            out.append(f"\\x{ord(c):02x}")
        elif ord(c) <= 0xFFFF:
            out.append(f"\\u{ord(c):04x}")
        else:
            out.append(f"\\U{ord(c):08x}")
    return "".join(out) + '"'


def sq_ok(s: str) -> bool:
    return all(printable(c) for c in s)


COMMENTS = ["# shared", "# see above", "# TODO: check", "# key: value", "# - item", "#", "# <<: *a1"]
BOOLS = {True: ["true", "True", "TRUE", "yes", "Yes", "on", "On", "ON"], False: ["false", "False", "no", "No", "NO", "off", "Off"]}
NULLS = ["null", "~", "Null", "NULL", ""]

FEATURES = ["merge", "alias", "tag", "block_scalar", "flow", "plain", "spellings", "explicit_key", "markers", "comments", "indentless", "wild"]


class Writer:
    """YAML text for a JSON-like value, decorated with the surface features in `feats` (a set of FEATURES).
    Without `merge` and `wild` the reference loader reads the text back as the value (self-check of the campaigns);
    with them the text means what the reference loader says it means."""

    def __init__(self, rng: Rng, feats: set[str]) -> None:
        self.rng, self.f = rng, feats
        self.step = rng.choice([2, 2, 4, 3])
        self.anchors: list[tuple[str, str, str | None, Any]] = []   # name, canon, kind, value
        self.n = 0
        self.used: dict[str, int] = {}
        self.counts: dict[str, int] = {}

    def hit(self, k: str) -> None:
        self.used[k] = self.used.get(k, 0) + 1

    def on(self, feat: str, num: int = 1, den: int = 2) -> bool:
        return feat in self.f and self.rng.chance(num, den)

    # ---- scalars
    def check(self, text: str, v) -> bool:
        """the reference loader reads the scalar spelling `text` as v (same type)"""
        try:
            got = ref_load("- " + text)[0]
        except Exception:  # noqa: BLE001
            return False
        return canon(got) == canon(v)

    def string(self, s: str, flow: bool, key: bool = False, block_ok: bool = False, ind: int = 0) -> tuple[str, list[str]]:
        rng = self.rng
        plain_ok = plain_syntax_ok(s, flow or key)
        looks = resolves_to(s) if plain_ok else STR
        if plain_ok and looks in (STR, TS) and (self.on("plain", 3, 4) or "plain" not in self.f and rng.chance(1, 2)):
            self.hit("plain_timestamp" if looks == TS else ("plain_multiword" if " " in s else "plain"))
            return s, []
        if plain_ok and looks not in (STR, TS) and self.on("wild", 1, 2) and (not key or "wildkeys" in self.f):
            self.hit("wild_plain:" + looks.rsplit(":", 1)[-1])
            return s, []
        if plain_ok and self.on("tag", 1, 3) and not key:
            self.hit("tag:str")
            return "!!str " + s, []
        if block_ok and not flow and not key and self.on("block_scalar", 2, 3):
            body = s[:-1] if s.endswith("\n") else s
            lines = body.split("\n")
            if body and all(printable(c) or c == "\n" for c in body) and not any(ln[:1] in (" ", "\t") or ln.endswith(" ") for ln in lines) and lines[0] \
                    and not body.endswith("\n") and "\r" not in body:
                chomp = "" if s.endswith("\n") else "-"
                pad = " " * ind
                if len(lines) == 1 and rng.chance(1, 2):
                    words = lines[0].split(" ")
                    if len(words) > 1 and all(words):
                        cut = rng.range(1, len(words) - 1)
                        self.hit("block_scalar:folded_two_lines")
                        return ">" + chomp, [pad + " ".join(words[:cut]), pad + " ".join(words[cut:])]
                    self.hit("block_scalar:folded")
                    return ">" + chomp, [pad + lines[0]]
                self.hit("block_scalar:literal")
                return "|" + chomp, [(pad + ln) if ln else "" for ln in lines]
        if sq_ok(s) and rng.chance(1, 2):
            self.hit("single_quoted")
            return "'" + s.replace("'", "''") + "'", []
        self.hit("double_quoted")
        return dq(s), []

    def scalar(self, v, flow: bool, block_ok: bool, ind: int, map_value: bool) -> tuple[str, list[str]]:
        rng = self.rng
        if isinstance(v, str):
            return self.string(v, flow, block_ok=block_ok, ind=ind)
        cands: list[str] = []
        if v is None:
            base = "null"
            if self.on("spellings", 2, 3):
                cands = [x for x in NULLS if x or (map_value and not flow)]
        elif isinstance(v, bool):
            base = "true" if v else "false"
            if self.on("spellings", 2, 3):
                cands = BOOLS[v]
            if self.on("tag", 1, 4):
                cands = [f'!!bool "{base}"']
        elif isinstance(v, int):
            base = str(v)
            if self.on("spellings", 2, 3):
                cands = [f"{v:_}"] + ([f"+{v}", hex(v), "0" + oct(v)[2:], bin(v)] if v > 0 else [])
            if self.on("tag", 1, 4):
                cands = [f'!!int "{v}"', f"!!int {v}"]
        elif isinstance(v, float):
            r = repr(v)
            if "e" in r and "." not in r.split("e")[0]:
                m, e = r.split("e")
                r = m + ".0e" + e
            base = {"inf": ".inf", "-inf": "-.inf", "nan": ".nan"}.get(r, r)
            if self.on("spellings", 1, 2) and math.isfinite(v):
                cands = ["+" + base] if v > 0 else []
                if 0 < abs(v) < 1 and base.startswith("0."):
                    cands.append(base[1:])
            if self.on("tag", 1, 4) and v == int(v) and abs(v) < 1e15:
                cands = [f"!!float {int(v)}"]
        else:
            return dq(repr(v)), []
        if cands:
            c = rng.choice(cands)
            if self.check(c, v):
                self.hit("spelling:" + type(v).__name__ + (":tagged" if c.startswith("!!") else ""))
                return c, []
        return base, []

    def key(self, k, flow: bool) -> str:
        if not isinstance(k, str):
            return self.scalar(k, True, False, 0, False)[0]
        return self.string(k, flow, key=True)[0]

    # ---- anchors / aliases
    def count(self, v) -> None:
        c = canon(v)
        self.counts[c] = self.counts.get(c, 0) + 1
        if isinstance(v, dict):
            for x in v.values():
                self.count(x)
        elif isinstance(v, list):
            for x in v:
                self.count(x)

    def props(self, v, kind) -> tuple[str | None, str]:
        """(alias to write instead of the node, or None; node properties `&a1 !!map ` to prefix)"""
        rng = self.rng
        c = canon(v)
        trivial = v in ({}, [], "", None) or isinstance(v, bool)
        if "alias" in self.f and not trivial:
            for name, ac, _, _ in self.anchors:
                if ac == c and rng.chance(3, 4):
                    self.hit("alias:" + type(v).__name__)
                    return "*" + name, ""
        prefix = ""
        want = False
        if not trivial and ("alias" in self.f or "merge" in self.f):
            if isinstance(v, dict):
                want = self.counts.get(c, 0) > 1 and "alias" in self.f or "merge" in self.f and kind in ("props", "schema") and rng.chance(1, 3) or rng.chance(1, 10)
            elif isinstance(v, list):
                want = self.counts.get(c, 0) > 1 and "alias" in self.f or rng.chance(1, 12)
            else:
                want = "alias" in self.f and (self.counts.get(c, 0) > 1 and rng.chance(2, 3) or rng.chance(1, 20))
        if want:
            self.n += 1
            name = rng.choice(["a", "anchor-", "Shared_", "x"]) + str(self.n)
            self.pending = (name, c, kind, v)
            prefix = "&" + name + " "
            self.hit("anchor:" + type(v).__name__)
        else:
            self.pending = None
        if isinstance(v, (dict, list)) and v and self.on("tag", 1, 8):
            prefix += "!!map " if isinstance(v, dict) else "!!seq "
            self.hit("tag:collection")
        return None, prefix

    # ---- merge keys
    def merge_entry(self, v: dict, kind) -> tuple[list[tuple[str, Any]], str | None]:
        """own entries to write and the merge value (`*a` or `[*a, *b]`), None when no merge is written"""
        rng = self.rng
        items = list(v.items())
        if "merge" not in self.f or kind not in ("props", "schema"):
            return items, None
        cands = [(n, val) for n, _, k, val in self.anchors if k == kind and isinstance(val, dict) and val]
        if not cands or not rng.chance(1, 2):
            return items, None
        picked = rng.sample(cands, 2 if len(cands) > 1 and rng.chance(1, 3) else 1)
        if rng.chance(1, 2):   # what the merged mappings supply is not written again (the usual reason for a merge key)
            supplied = {k: canon(x) for _, val in reversed(picked) for k, x in val.items()}
            items = [(k, x) for k, x in items if supplied.get(k) != canon(x)]
        self.hit("merge:list" if len(picked) > 1 else "merge:one")
        if any(k in dict(items) for _, val in picked for k in val):
            self.hit("merge:overridden_key")
        if len(picked) > 1 or rng.chance(1, 6):
            return items, "[" + ", ".join("*" + n for n, _ in picked) + "]"
        return items, "*" + picked[0][0]

    # ---- nodes
    def child_kind(self, kind, k):
        if kind in ("props", "defs"):
            return "schema"
        if kind in ("schema", "root"):
            if k == "properties":
                return "props"
            if k in ("items", "additionalProperties"):
                return "schema"
            if k in ("definitions", "$defs", "schemas"):
                return "defs"
            if k == "components":
                return "root"
        return None

    def flow_node(self, v, kind) -> str:
        alias, prefix = self.props(v, kind)
        if alias:
            return alias
        pend = self.pending
        if isinstance(v, dict):
            items, merge = self.merge_entry(v, kind) if v else ([], None)
            parts = [f"{self.key(k, True)}: {self.flow_node(x, self.child_kind(kind, k))}" for k, x in items]
            if merge:
                parts.insert(self.rng.below(len(parts) + 1) if self.rng.chance(1, 3) else 0, "<<: " + merge)
            out = prefix + "{" + ", ".join(parts) + "}"
        elif isinstance(v, list):
            out = prefix + "[" + ", ".join(self.flow_node(x, None) for x in v) + "]"
        else:
            out = prefix + self.scalar(v, True, False, 0, False)[0]
        if pend:
            self.anchors.append(pend)
        return out

    def node(self, v, ind: int, kind, map_value: bool = True) -> tuple[str, list[str]]:
        """(text for the line of the parent entry, following lines)"""
        rng = self.rng
        if isinstance(v, (dict, list)) and (not v or self.on("flow", 1, 4) and len(canon(v)) < 900):
            if v:
                self.hit("flow_in_block")
            return self.flow_node(v, kind), []
        alias, prefix = self.props(v, kind)
        if alias:
            return alias, []
        pend = self.pending
        pad = " " * ind
        lines: list[str] = []
        if isinstance(v, dict):
            items, merge = self.merge_entry(v, kind)
            entries: list[tuple[str, Any, Any]] = [(self.key(k, False), x, self.child_kind(kind, k)) for k, x in items]
            if merge:
                entries.insert(rng.below(len(entries) + 1) if rng.chance(1, 3) else 0, ("<<", ("__merge__", merge), None))
            for k, x, ck in entries:
                if self.on("comments", 1, 5):
                    lines.append(pad + rng.choice(COMMENTS))
                    self.hit("comment:line")
                if isinstance(x, tuple) and x and x[0] == "__merge__":
                    head, rest = x[1], []
                else:
                    head, rest = self.node(x, ind + self.step, ck)
                    if isinstance(x, list) and rest and "indentless" in self.f and rest[0].lstrip().startswith("-") and rng.chance(1, 2):
                        rest = [ln[self.step:] if ln.startswith(" " * self.step) else ln for ln in rest]
                        self.hit("indentless_sequence")
                tail = ""
                if not rest and head[:1] not in ("|", ">") and self.on("comments", 1, 6):
                    tail = "  " + rng.choice(COMMENTS)
                    self.hit("comment:trailing")
                if self.on("explicit_key", 1, 8) and k != "<<":
                    self.hit("explicit_key")
                    lines.append(f"{pad}? {k}")
                    lines.append(f"{pad}:{' ' + head if head else ''}{tail}")
                else:
                    lines.append(f"{pad}{k}:{' ' + head if head else ''}{tail}")
                lines += rest
            head_out = prefix.rstrip()
        elif isinstance(v, list):
            for x in v:
                if isinstance(x, dict) and x and rng.chance(1, 2) and not self.on("flow", 1, 4):
                    # compact form: `- key: value` with the rest of the mapping aligned under the first key
                    head, rest = self.node(x, ind + 2, None)
                    if not head and rest and not rest[0].lstrip().startswith(("#", "?")):
                        lines.append(pad + "- " + rest[0][ind + 2:])
                        lines += rest[1:]
                        continue
                    lines.append(f"{pad}-{' ' + head if head else ''}")
                    lines += rest
                    continue
                head, rest = self.node(x, ind + self.step, None, map_value=False)
                lines.append(f"{pad}-{' ' + head if head else ''}")
                lines += rest
            head_out = prefix.rstrip()
        else:
            head, rest = self.scalar(v, False, True, ind, map_value)
            head_out, lines = (prefix + head).rstrip() if head or not prefix else prefix.rstrip(), rest
        if pend:
            self.anchors.append(pend)
        return head_out, lines

    def document(self, doc, root_kind: str = "root") -> str:
        rng = self.rng
        self.count(doc)
        self.pending = None
        head, lines = self.node(doc, 0, root_kind)
        pre, post = "", ""
        if self.on("markers", 2, 3):
            pre = rng.choice(["---\n", "%YAML 1.1\n---\n", "# schema\n---\n", "--- # the document\n", "\n---\n"])
            post = rng.choice(["", "...\n", "# end\n", "...\n# end\n"])
            self.hit("marker:" + pre.strip().replace("\n", " ")[:12])
        if not lines:
            return pre + head + "\n" + post
        if head:   # node properties of the root node go on the `---` line
            kept = [ln for ln in pre.splitlines() if not ln.startswith("---")]
            pre = "".join(ln + "\n" for ln in kept) + "--- " + head + "\n"
        return pre + "\n".join(lines) + "\n" + post


def write(doc, seed: int, feats, root_kind: str = "root") -> tuple[str, dict[str, int]]:
    w = Writer(Rng(seed, "yaml-writer"), set(feats))
    return w.document(doc, root_kind), w.used


# ------------------------------------------------------------------ schema sets with shared parts
def no_exponent(v):
    if isinstance(v, dict):
        return {k: no_exponent(x) for k, x in v.items()}
    if isinstance(v, list):
        return [no_exponent(x) for x in v]
    if isinstance(v, float) and "e" in repr(v):
        return 2.5
    if isinstance(v, int) and not isinstance(v, bool) and abs(v) > 2**62:
        return 77
    return v


def gen_shared_defs(rng: Rng) -> dict[str, dict]:
    """the ordinary schema sets of C15, with what hand-written YAML shares by anchors: common properties repeated in
    several object schemas, the same property schema / `required` list / enum in two places, descriptions of several lines"""
    from . import c15

    defs = no_exponent(c15.gen_defs(rng))
    objs = [nm for nm, d in defs.items() if isinstance(d.get("properties"), dict)]
    if len(objs) < 2 or rng.chance(1, 3):
        base = {"id": {"type": "integer"}, "created": {"type": "string", "format": "date-time"}}
        if rng.chance(1, 2):
            base[rng.choice(["2020-01-01", "on", "note", "404"])] = {"type": "string", "default": rng.choice(["2001-12-14", "yes", "a b", "12"])}
        defs = {"Audit": {"type": "object", "properties": base, "required": ["id"]}, **defs}
        objs = ["Audit"] + objs
    src = objs[0]
    for nm in objs[1:]:
        if rng.chance(2, 3):   # the common properties again, before or after the schema's own, one of them sometimes changed
            common = {k: json.loads(json.dumps(x)) for k, x in defs[src]["properties"].items()}
            own = defs[nm]["properties"]
            if rng.chance(1, 4) and common:
                common[next(iter(common))] = {"type": "string", "description": "overridden"}
            defs[nm]["properties"] = {**common, **{k: x for k, x in own.items() if k not in common}} if rng.chance(2, 3) else {**own, **common}
            if "required" in defs[src] and rng.chance(1, 2):
                defs[nm]["required"] = list(defs[src]["required"])
    if rng.chance(1, 3) and objs:   # a whole schema body shared
        defs[rng.choice(["Supplier", "Copy", "Alias"])] = {**json.loads(json.dumps(defs[src])), "description": rng.choice(["a supplier is only audited", "line one\nline two", "x: y # z"])}
    for d in defs.values():
        if isinstance(d, dict) and rng.chance(1, 3) and d.get("type") == "object":
            d["description"] = rng.choice(["Several words in a row", "first line\nsecond line\n", "first\n\nthird", "ends with newline\n", "colon: inside", "2001-01-01"])
    return defs


def feature_sets(rng: Rng, i: int) -> list[str]:
    strata = [["merge"], ["merge", "alias"], ["alias"], ["tag", "spellings"], ["block_scalar", "plain"], ["flow", "merge"], ["explicit_key", "comments", "markers", "indentless"],
              ["merge", "alias", "flow", "comments"], ["wild", "plain", "spellings"], [f for f in FEATURES if f != "wild"], list(FEATURES)]
    base = list(strata[i % len(strata)])
    for f in FEATURES:
        if f not in base and f != "wild" and rng.chance(1, 5):
            base.append(f)
    return base


# ------------------------------------------------------------------ the property's own oracle
def run_texts(yaml_text_: str, ift: str):
    """None when the reference loader cannot read the text or the value has no JSON text; else compare() of the two runs"""
    from . import c15

    try:
        with watchdog(10.0):
            ref = ref_load(yaml_text_)
    except Hang:
        raise
    except Exception as e:  # noqa: BLE001
        return ("unreadable", type(e).__name__)
    if not isinstance(ref, dict) or not jsonable(ref):
        return ("not_json", "")
    a = c15.run_gen(json.dumps(ref, ensure_ascii=False), ift)
    b = c15.run_gen(yaml_text_, ift)
    r = c15.compare(a, b, set())
    return ("differ", r) if r is not None else ("same", None)


def build_doc(defs: dict, opts: dict) -> tuple[dict, str]:
    from . import c15

    if opts.get("openapi"):
        return c15.wrap_openapi(defs), "openapi"
    return c15.wrap_jsonschema(defs, opts.get("container", "definitions"), opts.get("with_root", False)), "jsonschema"


def case_text(defs: dict, opts: dict) -> tuple[str, str, dict[str, int]]:
    doc, ift = build_doc(defs, opts)
    text, used = write(doc, opts["wseed"], opts["features"])
    return text, ift, used


def oracle_case(ck: Check, camp, defs: dict | None, opts: dict, text: str | None = None) -> None:
    """one case of the pair: the YAML text written for `defs` (or the text given, replay / embedded disagreements)"""
    from . import c15

    camp.evaluations += 1
    used: dict[str, int] = {}
    ift = opts.get("input_file_type", "jsonschema")
    if text is None:
        text, ift, used = case_text(defs, opts)
    st, r = run_texts(text, ift)
    for k in used:
        camp.hit("feature:" + k)
    if st != "differ":
        camp.hit("same_models" if st == "same" else f"skipped:{st}:{r}")
        if st != "same":
            camp.unmodelled += 1
        elif len(camp.samples) < 3 and len(text) < 700 and ("<<" in text):
            camp.samples.append({"pair": PAIR, "yaml_text": text})
        return
    mech = r[0]
    small, small_text, r2 = defs, text, r
    if defs is not None:
        def pred(d):
            t, i, _ = case_text(d, opts)
            s2, rr = run_texts(t, i)
            return s2 == "differ" and rr[0] == mech

        small = c15.shrink_defs(defs, pred, budget_s=8.0)
        small_text = case_text(small, opts)[0]
        s2, rr = run_texts(small_text, ift)
        if s2 == "differ" and rr[0] == mech:
            r2 = rr
        else:
            small, small_text = defs, text
    trig = c15.string_trigger(ref_load(small_text))
    feats = sorted({k.split(":")[0] for k in (write(build_doc(small, opts)[0], opts["wseed"], opts["features"])[1] if defs is not None else {})})
    camp.hit(f"differ:{PAIR}:{mech}:{trig}")
    ck.fail({"oracle": "equivalent_inputs", "pair": PAIR, "mechanism": mech, "trigger": trig, "style": "", "yaml_features": feats,
             "has_exponent_float": "exponent_float" in trig, "has_astral_char": "astral_char" in trig},
            {"pair": PAIR, "yaml_text": small_text, "input_file_type": ift, "definitions": small, "opts": opts}, r2[1])


CORPUS_TEXTS = [
    # merge of a `properties` mapping and of a whole schema body; a list of anchors; an overridden key; a merge key in a flow mapping
    ("jsonschema", "definitions:\n  Stamp:\n    type: object\n    properties: &stamp\n      rev: {type: integer}\n      at: {type: string, format: date-time}\n"
                   "    required: &req [rev]\n  Page:\n    type: object\n    required: *req\n    properties:\n      title: {type: string}\n      <<: *stamp\n"),
    ("jsonschema", "definitions:\n  A:\n    type: object\n    properties: &p\n      x: &s {type: string}\n  B:\n    type: object\n    properties: &q\n      y: *s\n"
                   "  C:\n    type: object\n    properties:\n      <<: [*p, *q]\n      x: {type: integer}\n  D: {type: object, properties: {<<: *q, z: *s}}\n"),
    ("openapi", "openapi: 3.0.0\ninfo: {title: t, version: '1'}\npaths: {}\ncomponents:\n  schemas:\n    Base: &b\n      type: object\n      properties:\n        id: {type: integer}\n"
                "    Pet:\n      <<: *b\n      required: [id]\n"),
    # tags, block scalars, spellings, explicit keys, markers
    ("jsonschema", "%YAML 1.1\n--- !!map\ndefinitions:\n  A:\n    type: object\n    description: |\n      first line\n      second line\n    properties:\n      ? code\n      : type: string\n"
                   "        default: !!str 12\n        description: >-\n          folded\n          text\n      n: {type: integer, default: !!int \"7\", maximum: 0x1F}\n"
                   "      b: {type: boolean, default: yes}\n      d: {type: string, default: 2001-01-01}\n    required:\n    - code\n...\n"),
]


def campaign_e2e(ck: Check, n: int) -> None:
    camp = ck.campaign("e2e differential, YAML surface features (merge keys, anchors/aliases, tags, block scalars, flow in block, plain scalars, YAML-1.1 spellings, "
                       "explicit keys, markers, comments): generate(YAML text) vs generate(JSON text of what the stock SafeLoader + reviewed overrides reads) → same definitions")
    t0 = time.time()
    rng = ck.rng.fork("yaml-surface")
    for ift, text in CORPUS_TEXTS:
        oracle_case(ck, camp, None, {"input_file_type": ift}, text)
    for i in range(n):
        defs = gen_shared_defs(rng)
        feats = [f for f in feature_sets(rng, i)]
        opts = {"wseed": rng.below(2**31), "features": feats, "with_root": rng.choice([False, True, 2]), "openapi": i % 4 == 3,
                "container": "$defs" if i % 7 == 5 else "definitions"}
        camp.distinct.add(json.dumps(defs, sort_keys=True) + str(opts["wseed"]))
        for f in feats:
            camp.hit("stratum:" + f)
        oracle_case(ck, camp, defs, opts)
    camp.wall_s = time.time() - t0


# ------------------------------------------------------------------ correspondence: the loader against the reference loader
WILD_SCALARS = ["yes", "No", "on", "OFF", "y", "n", "~", "null", "Null", "", "404", "1.0", "0o7", "017", "0x1F", "0b101", "1_000", "+12", "-0", "1e3", "1.5e+3", "1.5e3", ".5", "5.",
                ".inf", "-.INF", ".NaN", "12:30:00", "1:30", "190:20:30.15", "2001-01-01", "2001-12-14t21:59:43.10-05:00", "2001-12-14 21:59:43.10 -5", "2001-12-15 2:59:43.10",
                "2002-1-1", "=", "<<", "a b c", "a: b", "x #y", "- x", "!!str 12", '!!int "7"', "!!float 3", "!!timestamp 2001-01-01", "!!timestamp '2001-01-01'", '!!str 2001-01-01',
                "!!binary aGVsbG8=", "!!bool yes", "!!null ''", "!t x", "'it''s'", '"\\u00e9\\x41\\n"', "\"a\\\n  b\"", "&s sc", "été", "\U0001f600", "0.1e-2", "1__0", "0_", "1,000",
                "+.inf", "0o", "08", "0x", "TRUE", "True", "tRUE", "nULL", "1:2:3:4", "60:00", "-1:30", "1e+3", "1E3", "+1e3", "1.e3", "1.0e3", "._5"]
MALFORMED = ["a: b: c", "a: [1, 2", "{a: 1", "a: *nope", "a: &x 1\nb: &x 2\nc: *x", "- a\nb: c", "a: 1\na: 2", "\ta: 1", "a: |\n b\n  c\n d", "key: value\n  more: x", "a: !!int x", "<<: 1\na: 2",
             "<<: [1, 2]", "a: &a\n  <<: *a", "? [a, b]\n: 1", "? {a: 1}\n: 2", "--- a\n--- b", "%TAG ! tag:x,2000:\n--- !t a", "a: !!python/object:os.system x", "a: 'x", "- - - a", "[[[[[[[[[[", ""]


def fragment_texts(rng: Rng, i: int) -> tuple[str, str]:
    """(text, kind) — small documents of the surface family, many of which JSON cannot say"""
    c = i % 8
    if c == 0:   # every wild scalar as key and as value, block and flow
        s = WILD_SCALARS[(i // 8) % len(WILD_SCALARS)]
        t = rng.choice(WILD_SCALARS)
        return rng.choice([f"{s}: {t}\nk: [{t}, {s}]\n", f"? {s}\n: - {t}\n", f"{{{s}: {t}}}\n", f"- {s}\n- {t}\n- {{k: {t}}}\n"]), "wild_scalars"
    if c == 1:   # merge keys
        a = f"base: &b\n  {rng.choice(WILD_SCALARS[:12] + ['k', 'x'])}: 1\n  x: {rng.choice(WILD_SCALARS)}\nother: &o {{y: 2, x: 3}}\n"
        m = rng.choice(["<<: *b", "<<: [*b, *o]", "<<: [*o, *b]", "<<: *b\n  x: own", "x: own\n  <<: *b", "<<: {z: 1}", "<<: [*b]", "<<: []", "'<<': *b", "\"<<\": *b", "!!merge <<: *b", "<<: *o\n  <<: *b"])
        return a + f"use:\n  {m}\n  w: 0\nflow: {{<<: *o, v: 1}}\nseq:\n- <<: *b\n  q: 1\n", "merge"
    if c == 2:   # anchors / aliases on every node kind
        return (f"s: &s {rng.choice(WILD_SCALARS)}\nl: &l [1, *s]\nm: &m {{a: *s, b: *l}}\nuse: [*s, *l, *m]\nagain: *m\n" + rng.choice(["", "*s : aliased key\n", "blk: &k |\n  text\nref: *k\n"])), "alias"
    if c == 3:   # block scalars and multi-line plain / quoted scalars
        ind = rng.choice(["", "2", "1"])
        ch = rng.choice(["", "-", "+"])
        body = rng.choice(["  one\n  two\n", "  one\n\n  three\n\n", "   lead\n  x\n", "  # not a comment\n  a: b\n", "  x\n   more\n  y\n"])
        if ind == "1":
            body = body.replace("  ", " ", 1) if body.startswith("  ") and not body.startswith("   ") else body
        return f"d: {rng.choice('|>')}{ind if ind != '1' else ''}{ch}\n{body}e: plain\n  continued\n   here\nf: 'single\n  folded'\ng: \"double\\\n  joined \\x41\"\n", "block_scalar"
    if c in (4, 5, 6):   # the writer in wild mode over random values
        from .c15_refs import rand_value

        v = rand_value(rng, 3)
        if not isinstance(v, (dict, list)):
            v = {"k": v}
        feats = set(rng.sample(FEATURES, rng.range(2, 6))) | {"wild", "wildkeys"}
        return write(v, rng.below(2**31), feats, "schema")[0], "writer_wild"
    return rng.choice(MALFORMED) + rng.choice(["", "\n", "\n# c\n"]), "malformed"


def typed_load(fn) -> Any:
    from .c15_refs import typed

    try:
        with watchdog(10.0):
            v = fn()
    except Hang:
        raise
    except Exception as e:  # noqa: BLE001
        return {"raises": type(e).__name__}

    def fix(x):   # nan ≠ nan; sets and bytes have a stable repr
        if isinstance(x, dict):
            return {k: fix(y) for k, y in x.items()}
        if isinstance(x, list):
            return [fix(y) for y in x]
        return x

    return fix(typed(v))


DISAGREEING: list[str] = []


def campaign_loader(ck: Check, n: int) -> None:
    import datamodel_code_generator as d

    camp = ck.campaign("load_yaml(text) vs the stock PyYAML SafeLoader with the reviewed overrides applied (timestamps stay strings): YAML texts of the surface family "
                       "(merge keys, anchors/aliases, tags, block scalars, YAML-1.1 scalars as keys and values, markers, comments) and malformed texts; typed comparison")
    t0 = time.time()
    rng = ck.rng.fork("yaml-loader")
    cases = [(t, "corpus") for _, t in CORPUS_TEXTS]
    cases += [(f"{s}: {s}\nv: [{s}]\n", "wild_scalars") for s in WILD_SCALARS]
    cases += [(t, "malformed") for t in MALFORMED]
    cases += [fragment_texts(rng, i) for i in range(n)]
    for i in range(max(4, n // 8)):   # whole documents of the e2e family
        defs = gen_shared_defs(rng)
        cases.append((case_text(defs, {"wseed": rng.below(2**31), "features": feature_sets(rng, i), "with_root": True})[0], "document"))
    for text, kind in cases:
        camp.evaluations += 1
        camp.hit("text:" + kind)
        try:
            ref = typed_load(lambda: ref_load(text))
            got = typed_load(lambda: d.load_yaml(text))
        except Hang:
            camp.unmodelled += 1
            continue
        camp.hit("raises" if isinstance(ref, dict) and "raises" in ref else "loads")
        camp.distinct.add(text)
        if ref != got:
            DISAGREEING.append(text)
            ck.disagree(camp, {"text": text}, json.dumps(ref)[:300], json.dumps(got)[:300])
        elif len(camp.samples) < 2 and kind == "merge":
            camp.samples.append({"text": text, "loaded": ref})
    camp.wall_s = time.time() - t0


def campaign_constructors(ck: Check) -> None:
    """the Lean model of the constructor lookup (Model.YamlLoader.ctorOf over the regenerated tables) against the real table"""
    from ..common import hx
    from ..translate import yamlloader

    camp = ck.campaign("YamlLoader.ctorOf (stock constructor table + regenerated overrides) vs the yaml_constructors table of the loader load_yaml uses, every tag")
    t0 = time.time()
    L = yamlloader.loader_class()
    import yaml

    tags = sorted({str(t) for t in yaml.SafeLoader.yaml_constructors if t is not None} | {str(t) for t in L.yaml_constructors if t is not None}
                  | {"tag:yaml.org,2002:merge", "tag:yaml.org,2002:value", "!local", "tag:yaml.org,2002:python/object", ""})
    replies = ck.driver.run([f"yamlloader.ctor {hx(t)}" for t in tags])
    for t, rep in zip(tags, replies):
        camp.evaluations += 1
        camp.distinct.add(t)
        f = L.yaml_constructors.get(t, L.yaml_constructors.get(None))
        impl = yamlloader._name(f)
        camp.hit("overridden" if f is not yaml.SafeLoader.yaml_constructors.get(t, yaml.SafeLoader.yaml_constructors.get(None)) else "stock")
        if rep != impl:
            ck.disagree(camp, {"tag": t}, rep, impl)
        elif len(camp.samples) < 2 and t.endswith(("timestamp", "map")):
            camp.samples.append({"tag": t, "constructor": impl})
    camp.wall_s = time.time() - t0


# ------------------------------------------------------------------ failing-input search
def search(ck: Check) -> None:
    """run when an obligation or a correspondence broke: (1) every disagreeing text of the loader campaign embedded in a
    complete document (as the `properties` of a schema when it is a mapping of mappings, and as a default / example value),
    (2) one complete document per surface feature, (3) seeded documents of the whole family — all judged by the pair oracle"""
    camp = ck.campaign("search: loader disagreements embedded in complete documents; one document per YAML surface feature; seeded documents — pair oracle")

    def indent(t: str, n: int) -> str:
        return "".join(" " * n + ln if ln.strip() else ln for ln in t.splitlines(True))

    for t in DISAGREEING[:12]:
        body = t if t.endswith("\n") else t + "\n"
        if body.lstrip().startswith(("%", "---")):
            continue
        for doc in (f"definitions:\n  A:\n    type: object\n    properties:\n      p:\n        default:\n{indent(body, 10)}        examples:\n        - 1\n",
                    f"definitions:\n  A:\n    type: object\n    x-fragment:\n{indent(body, 6)}    properties:\n      p: {{type: string}}\n"):
            oracle_case(ck, camp, None, {"input_file_type": "jsonschema"}, doc)
    if ck.failures:
        return
    for ift, text in CORPUS_TEXTS:
        oracle_case(ck, camp, None, {"input_file_type": ift}, text)
    defs = {"Audit": {"type": "object", "properties": {"id": {"type": "integer"}, "on": {"type": "string", "default": "2001-01-01", "description": "two words"}}, "required": ["id"]},
            "Customer": {"type": "object", "properties": {"id": {"type": "integer"}, "on": {"type": "string", "default": "2001-01-01", "description": "two words"},
                                                          "n": {"type": "integer", "default": 1000, "maximum": 31}, "b": {"type": "boolean", "default": True}}, "required": ["id"]}}
    for feat in FEATURES:
        if feat == "wild":
            continue
        for s in range(6):
            oracle_case(ck, camp, defs, {"wseed": s, "features": [feat] + (["alias"] if feat == "merge" and s % 2 else []), "with_root": bool(s % 2)})
        if ck.failures:
            return
    rng = Rng(ck.rng.next(), "yaml-search")
    for i in range(150):
        oracle_case(ck, camp, gen_shared_defs(rng), {"wseed": rng.below(2**31), "features": feature_sets(rng, i), "with_root": rng.chance(1, 2), "openapi": i % 4 == 3})
        if ck.failures:
            return
