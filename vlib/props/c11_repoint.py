"""C11 — Model.Repoint (Lean) against the real re-pointing of users when a duplicate is folded.

Two campaigns:
  A. `Model.Repoint.replaceReference` vs `DataType.replace_reference` / `remove_reference` on real `Reference` /
     `DataType` objects: random call sequences over three references and k users; compared are `Reference.children`
     (by identity, in order) and every user's `reference`.
  B. `Model.Repoint.repoint` vs `Parser.__delete_duplicate_models` and `Parser.__reuse_model` on the objects that the
     real JSON-Schema parser builds for documents of the folded-definition family (vlib/props/c11_dups.py) — k = 0..6
     users of the dropped definition. The harness reads off WHICH models the real pass dropped and into which
     survivor (class name / rendering, as the code decides it); the model says what must have happened to every user:
     children of every reference and the reference of every user after the pass.
Every call into a private function goes through vlib/realcall.
"""
from __future__ import annotations

import json
import time

from .. import realcall
from . import c11_dups

_cache: dict = {}


def _real():
    if not _cache:
        from datamodel_code_generator import DataModelType
        from datamodel_code_generator.model import get_data_model_types
        from datamodel_code_generator.model.base import DataModel
        from datamodel_code_generator.model.enum import Enum
        from datamodel_code_generator.parser import base as pbase
        from datamodel_code_generator.parser.jsonschema import JsonSchemaParser
        from datamodel_code_generator.reference import Reference
        from datamodel_code_generator.types import DataType

        _cache.update(DataModelType=DataModelType, get_data_model_types=get_data_model_types, DataModel=DataModel, Enum=Enum, pbase=pbase,
                      JsonSchemaParser=JsonSchemaParser, Reference=Reference, DataType=DataType)
    from types import SimpleNamespace

    return SimpleNamespace(**_cache)


def sx_list(xs) -> str:
    return "(" + " ".join(str(x) for x in xs) + ")"


def request(kids: dict, ref_of: dict, ops: list, show_refs, show_users) -> str:
    ks = " ".join("(%d %s)" % (r, sx_list(us)) for r, us in kids.items())
    rs = " ".join("(%d %s)" % (u, "-" if r is None else r) for u, r in ref_of.items())
    os_ = " ".join("(%s %s)" % (op[0], " ".join(sx_list(a) if isinstance(a, (list, tuple)) else ("-" if a is None else str(a)) for a in op[1:])) for op in ops)
    return f"repoint.run ({ks}) ({rs}) ({os_}) {sx_list(show_refs)} {sx_list(show_users)}"


def parse_reply(rep: str):
    if not rep.startswith("ok "):
        return rep
    toks = rep[3:].replace("(", " ( ").replace(")", " ) ").split()

    def rd(i):
        if toks[i] == "(":
            out, i = [], i + 1
            while toks[i] != ")":
                v, i = rd(i)
                out.append(v)
            return out, i + 1
        return (None if toks[i] == "-" else int(toks[i])), i + 1

    kids, i = rd(0)
    refs, _ = rd(i)
    return ({r: us for r, us in kids}, {u: r for u, r in refs})


# ---------------------------------------------------------------------------------------------
# A. replace_reference on bare objects
def campaign_replace_reference(ck, n_cases: int) -> None:
    camp = ck.campaign("Model.Repoint.replaceReference vs DataType.replace_reference / remove_reference on real Reference/DataType objects (call sequences)")
    t0 = time.time()
    rng = ck.rng.fork("repoint-bare")
    R = _real()
    cases = []
    for _ in range(n_cases):
        k = rng.range(1, 7)
        start = [rng.choice([0, 0, 1, 2, None]) if rng.chance(1, 4) else 0 for _ in range(k)]  # most users start at reference 0
        ops = []
        for _ in range(rng.range(1, 6)):
            if rng.chance(1, 3):
                d, t = rng.sample([0, 1, 2], 2)
                mask = [u for u in range(k) if rng.chance(4, 5)]
                ops.append(("rp", d, t, mask))
            else:
                ops.append(("set", rng.below(k), rng.choice([0, 1, 2, None])))
        cases.append((start, ops))
    reqs = []
    for start, ops in cases:
        kids = {r: [u for u, s in enumerate(start) if s == r] for r in range(3)}
        reqs.append(request(kids, dict(enumerate(start)), ops, range(3), range(len(start))))
    replies = ck.driver.run(reqs)
    fn = realcall.resolve(ck, camp, R.DataType, "replace_reference", "DataType.replace_reference")
    for (start, ops), rep in zip(cases, replies):
        camp.evaluations += 1
        model = parse_reply(rep)
        refs = [R.Reference(path=f"#/definitions/R{i}", original_name=f"R{i}", name=f"R{i}") for i in range(3)]
        users = [R.DataType(reference=refs[s]) if s is not None else R.DataType(type="int") for s in start]
        uid = {id(u): i for i, u in enumerate(users)}
        impl = None
        try:
            for op in ops:
                if op[0] == "set":
                    ok, _ = realcall.call(ck, camp, "DataType.replace_reference(self, reference)", fn, users[op[1]], None if op[2] is None else refs[op[2]])
                    if not ok:
                        impl = "broken"
                        break
                else:  # the loop of the passes, as the code writes it: over a copy
                    _, d, t, mask = op
                    for child in refs[d].children[:]:
                        if uid[id(child)] in mask:
                            child.replace_reference(refs[t])
        except Exception as e:  # noqa: BLE001
            impl = "raise" if "can't be called when `reference` field is empty" in str(e) else f"raised {type(e).__name__}: {e}"
        if impl == "broken":
            continue
        if impl is None:
            rid = {id(r): i for i, r in enumerate(refs)}
            impl = ({i: [uid.get(id(c), -1) for c in r.children] for i, r in enumerate(refs)},
                    {i: (None if u.reference is None else rid[id(u.reference)]) for i, u in enumerate(users)})
        camp.hit(f"users={len(start)}")
        camp.hit("result:" + ("raise" if impl == "raise" else "ok" if isinstance(impl, tuple) else "other"))
        if any(op[0] == "rp" for op in ops):
            camp.hit("with a re-pointing walk")
        camp.distinct.add(json.dumps([start, ops]))
        if model != impl:
            ck.disagree(camp, {"start": start, "ops": ops}, model, impl)
        elif len(camp.samples) < 2 and isinstance(impl, tuple) and len(start) > 3 and len(ops) > 3:
            camp.samples.append({"start": start, "ops": ops, "children": impl[0]})
    camp.wall_s = time.time() - t0


# ---------------------------------------------------------------------------------------------
# B. the real passes on the objects of the real parser
class Universe:
    """identities -> small numbers, in a deterministic traversal of the models as parsed"""

    def __init__(self, R, models):
        self.R = R
        self.refs: list = []
        self.rid: dict = {}
        self.users: list = []
        self.uid: dict = {}
        for m in models:
            self.ref(m.reference)
        for m in models:
            self.user(m)
            for b in m.base_classes:
                if b.reference is not None:
                    self.user(b)
                    self.ref(b.reference)
            for f in m.fields:
                for dt in f.data_type.all_data_types:
                    if dt.reference is not None:
                        self.user(dt)
                        self.ref(dt.reference)
        for r in list(self.refs):
            for c in r.children:
                self.user(c)

    def ref(self, r) -> int:
        if id(r) not in self.rid:
            self.rid[id(r)] = len(self.refs)
            self.refs.append(r)
        return self.rid[id(r)]

    def user(self, u) -> int:
        if id(u) not in self.uid:
            self.uid[id(u)] = len(self.users)
            self.users.append(u)
        return self.uid[id(u)]

    def is_type(self, i: int) -> bool:
        return isinstance(self.users[i], self.R.DataType)

    def state(self):
        # objects that the pass itself creates (the `class N(T): pass` of __reuse_model and its base entry) are outside the model
        kids = {i: [self.uid[id(c)] for c in r.children if id(c) in self.uid] for i, r in enumerate(self.refs)}
        ref_of = {}
        for i, u in enumerate(self.users):
            if self.is_type(i):
                ref_of[i] = None if u.reference is None else self.rid.get(id(u.reference), -1)
        return kids, ref_of


def parse_document(R, doc: dict, opts: dict):
    types = R.get_data_model_types(R.DataModelType.PydanticV2BaseModel)
    parser = R.JsonSchemaParser(
        json.dumps(doc),
        data_model_type=types.data_model,
        data_model_root_type=types.root_model,
        data_model_field_type=types.field_model,
        data_type_manager_type=types.data_type_manager,
        dump_resolve_reference_action=types.dump_resolve_reference_action,
        reuse_model=bool(opts.get("reuse_model")),
        keep_model_order=bool(opts.get("keep_model_order")),
    )
    parser.parse_raw()
    _, sorted_models, upd = R.pbase.sort_data_models(parser.results)
    return parser, list(sorted_models.values()), upd


def name_of(m) -> str:
    return m.duplicate_class_name or m.class_name


def key_of(m) -> str:
    return json.dumps([m.render(class_name="M"), sorted(str(i) for i in m.imports)], default=str)


def campaign_passes(ck, n_docs: int) -> None:
    camp = ck.campaign("Model.Repoint.repoint vs Parser.__delete_duplicate_models / Parser.__reuse_model on the real parser's objects: "
                       "children of every reference and reference of every user after a duplicate with k users is folded")
    t0 = time.time()
    rng = ck.rng.fork("repoint-passes")
    R = _real()
    f_del = realcall.resolve(ck, camp, R.pbase.Parser, "_Parser__delete_duplicate_models", "Parser.__delete_duplicate_models")
    f_reuse = realcall.resolve(ck, camp, R.pbase.Parser, "_Parser__reuse_model", "Parser.__reuse_model")
    owner = realcall.resolve(ck, camp, R.pbase, "get_most_of_parent", "parser.base.get_most_of_parent")
    pending = []  # (what, doc info, before state, ops, after state)
    for i in range(n_docs):
        case = c11_dups.dup_doc(rng, (None, "users", "reuse")[i % 3])
        doc, opts = case["doc"], case["opts"]
        if c11_dups.features(doc)["alias_as_base"]:
            continue  # the pass raises AttributeError (known finding C11-alias-as-base): nothing to compare
        try:
            parser, models, upd = parse_document(R, doc, opts)
        except Exception as e:  # noqa: BLE001
            ck.disagree(camp, {"doc": doc, "opts": opts}, "the document parses", f"{type(e).__name__}: {e}")
            continue
        # ---- __delete_duplicate_models
        uni = Universe(R, models)
        before_models = list(models)
        before = uni.state()
        alias_target = {}
        for m in before_models:
            if isinstance(m, parser.data_model_root_type) and m.fields and m.fields[0].data_type.reference is not None:
                alias_target[id(m)] = (uni.rid[id(m.fields[0].data_type.reference)], [uni.uid[id(dt)] for dt in m.fields[0].data_type.all_data_types if dt.reference is not None])
        info = {"doc": doc, "opts": opts, "pass": "__delete_duplicate_models"}
        try:
            ok, _ = realcall.call(ck, camp, "Parser.__delete_duplicate_models(self, models)", f_del, parser, models, _case=info)
        except Exception as e:  # noqa: BLE001
            ck.disagree(camp, info, "the pass returns", f"raised {type(e).__name__}: {e}")
            continue
        if not ok:
            break
        removed = [m for m in before_models if all(m is not x for x in models)]
        alias_ops, twin_ops = [], {}
        for m in removed:
            d = uni.rid[id(m.reference)]
            if id(m) in alias_target and not any(name_of(x) == name_of(m) and key_of(x) == key_of(m) for x in models):
                t, own = alias_target[id(m)]
                alias_ops.append(("rp", d, t, list(range(len(uni.users)))))  # every child takes part
                alias_ops += [("set", u, None) for u in own]
            else:
                # `model_class_names[duplicate_class_name or class_name]`: the earlier model with that name and the same rendering
                survivors = [x for x in models if name_of(x) == name_of(m) and key_of(x) == key_of(m)]
                if len(survivors) != 1:
                    ck.disagree(camp, info, "a dropped twin has one survivor with its class name and rendering", [x.class_name for x in survivors])
                    continue
                t = uni.rid[id(survivors[0].reference)]
                twin_ops.setdefault(t, []).append(("rp", d, t, [u for u in range(len(uni.users)) if uni.is_type(u)]))  # isinstance(child, DataType)
        ops = alias_ops + [op for t in twin_ops for op in twin_ops[t]]
        after = uni.state()
        pending.append((info, before, ops, after, len(removed)))
        # ---- __reuse_model
        if not opts.get("reuse_model"):
            continue
        uni2 = Universe(R, models)
        before2_models = list(models)
        before2 = uni2.state()
        keys = [key_of(m) for m in before2_models]
        in_models = {id(m) for m in before2_models}
        info2 = {"doc": doc, "opts": opts, "pass": "__reuse_model"}
        try:
            ok, _ = realcall.call(ck, camp, "Parser.__reuse_model(self, models, require_update_action_models)", f_reuse, parser, models, list(upd), _case=info2)
        except Exception as e:  # noqa: BLE001
            ck.disagree(camp, info2, "the pass returns", f"raised {type(e).__name__}: {e}")
            continue
        if not ok:
            break
        ops2 = []
        for k, m in enumerate(before2_models):
            if all(m is not x for x in models) and isinstance(m, R.Enum):
                first = keys.index(keys[k])
                d, t = uni2.rid[id(m.reference)], uni2.rid[id(before2_models[first].reference)]
                ops2.append(("rp", d, t, [u for u in range(len(uni2.users)) if id(owner(uni2.users[u])) in in_models]))  # get_most_of_parent(child) in models
        pending.append((info2, before2, ops2, uni2.state(), len(ops2)))
    reqs = [request(b[0], b[1], ops, b[0].keys(), b[1].keys()) for _, b, ops, _, _ in pending]
    for (info, before, ops, after, n_removed), rep in zip(pending, ck.driver.run(reqs)):
        camp.evaluations += 1
        model = parse_reply(rep)
        camp.hit(info["pass"])
        camp.hit(f"{info['pass']}: models folded = {min(n_removed, 3)}")
        moved = sum(len([u for u in before[0][op[1]] if u in op[3]]) for op in ops if op[0] == "rp")  # (users that arrive through a chain of folds not counted)
        camp.hit("users re-pointed: %s" % (moved if moved < 6 else "6+"))
        if ops:
            camp.distinct.add(json.dumps([info["doc"], info["opts"], info["pass"]], sort_keys=True))
        if model != after:
            if camp.disagreements >= 12:
                camp.disagreements += 1
                continue
            # diagnosis: is it what Model.Repoint.repointLive (the refuted variant) predicts?
            live = parse_reply(ck.driver.run([request(before[0], before[1], [("live", *op[1:]) if op[0] == "rp" else op for op in ops], before[0].keys(), before[1].keys())])[0])
            note = " (= Model.Repoint.repointLive: the LIVE children list is walked while replace_reference takes the caller out of it)" if live == after else ""
            ck.disagree(camp, {**info, "ops": ops, "before": before}, model, f"{after}{note}")
        elif len(camp.samples) < 2 and moved >= 3:
            camp.samples.append({"definitions": list(info["doc"]["definitions"]), "pass": info["pass"], "ops": ops, "children_after": after[0]})
    camp.wall_s = time.time() - t0
