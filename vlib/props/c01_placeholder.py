"""C01 correspondence: `Model/Placeholder.overrideModel` vs the real `Parser.__override_required_field`.

Random class graphs are built from the generator's own model classes (pydantic `BaseModel` / `CustomRootType` / `Enum`
objects with `Reference`s, members that are typed, or name-less placeholders with a wire name and an empty type, bases
up to three levels deep, diamond shapes, root types and enums as models or as bases, models without bases); the real
private pass is run on the real objects and the members of every model afterwards — (name, wire name, typed?,
required?) — are compared with the Lean model.  A placeholder that the real pass leaves in a class model but the model
drops (or the other way round) is a disagreement; the failing-input search then looks for a document
(`c01_allof` family) on which C01's own oracle fails.  The empty string is one of the wire names (`NAMES`): since the
repair of C01-required-empty-name the pass treats it like every other name (guard `original_name is None`); a pass that
keeps the placeholder of `required: [""]` again disagrees here and fails the corpus cases of c01.py."""
from __future__ import annotations

import time

from ..common import hx, unhx
from ..runner import Check

NAMES = ["x", "y", "id", "name", "tag-x", "ghost", "", "a b", "class"]


def _classes():
    from datamodel_code_generator.model.enum import Enum
    from datamodel_code_generator.model.pydantic import BaseModel, CustomRootType, DataModelField
    from datamodel_code_generator.reference import Reference
    from datamodel_code_generator.types import DataType

    return BaseModel, CustomRootType, Enum, DataModelField, Reference, DataType


class Node:
    """description of one model of a random class graph (turned into real objects and into the Lean term)"""

    def __init__(self, ident: int, kind: str, fields: list[tuple], bases: list["Node"]) -> None:
        self.ident, self.kind, self.fields, self.bases = ident, kind, fields, bases
        self.real = None


def gen_fields(rng, n: int, allow_placeholder: bool) -> list[tuple]:
    """(name | None, wire name | None, typed, required)"""
    out = []
    for _ in range(n):
        k = rng.below(10)
        wire = rng.choice(NAMES)
        if allow_placeholder and k < 4:
            out.append((None, wire, False, True))  # the placeholder of `required: [wire]`
        elif k == 4:
            out.append(("f_" + str(len(out)), None, True, rng.chance(1, 2)))  # a member without wire name
        else:
            out.append((("n_" + "".join(c if c.isalnum() else "_" for c in wire)) or "n_", wire, True, rng.chance(1, 2)))
    return out


def gen_graph(rng) -> list[Node]:
    """nodes in creation order (bases before the models that use them)"""
    nodes: list[Node] = []
    for i in range(rng.range(1, 6)):
        kind = "class" if rng.chance(7, 10) else rng.choice(["root", "enum"])
        bases = rng.sample(nodes, rng.range(0, min(2, len(nodes)))) if kind == "class" and rng.chance(3, 4) else []
        nodes.append(Node(i, kind, gen_fields(rng, rng.range(0, 4), kind == "class"), bases))
    return nodes


def build_real(nodes: list[Node]) -> None:
    BaseModel, CustomRootType, Enum, DataModelField, Reference, DataType = _classes()
    for nd in nodes:
        ref = Reference(path=f"M{nd.ident}", original_name=f"M{nd.ident}", name=f"M{nd.ident}")
        fields = [DataModelField(name=n, original_name=w, data_type=DataType(type="int") if t else DataType(), required=r) for n, w, t, r in nd.fields]
        if nd.kind == "enum":
            nd.real = Enum(reference=ref, fields=fields)
        elif nd.kind == "root":
            nd.real = CustomRootType(reference=ref, fields=fields)
        else:
            nd.real = BaseModel(reference=ref, fields=fields, base_classes=[b.real.reference for b in nd.bases])
        # the constructor drops members whose name repeats an earlier one (`_validate_fields`): the input of the pass is
        # what the model holds now
        nd.fields = observed(nd.real)


def observed(model) -> list[tuple]:
    return [(f.name, f.original_name, bool(f.data_type.type or f.data_type.reference or f.data_type.data_types or f.data_type.literals or f.data_type.dict_key), bool(f.required))
            for f in model.fields]


def _opt(s) -> str:
    return "-" if s is None else hx(s)


def enc_fields(fields: list[tuple]) -> str:
    return " ".join(f"(f {_opt(n)} {_opt(w)} {1 if t else 0} {1 if r else 0})" for n, w, t, r in fields)


def enc_model(nd: Node, current: dict[int, list[tuple]], depth: int = 0) -> str:
    """the model with the part of the class graph reachable through its bases; member lists are the CURRENT ones (the
    real pass mutates models in list order, so a base visited earlier is seen in its state after the pass). Only class
    models are base classes the lookup walks into (`_find_base_classes` keeps every DataModel: enums and root types too)"""
    bases = " ".join(enc_model(b, current, depth + 1) for b in nd.bases) if depth < 8 else ""
    return f"(m (fields {enc_fields(current[nd.ident])}) (bases {bases}))"


def dec_fields(rep: str) -> list[tuple] | str:
    if not rep.startswith("ok"):
        return rep
    out = []
    body = rep[2:].strip()
    for part in [p for p in body.split("(f ") if p.strip()]:
        n, w, t, r = part.strip().rstrip(")").split(" ")
        out.append((None if n == "-" else unhx(n), None if w == "-" else unhx(w), t == "1", r == "1"))
    return out


def campaign_placeholders(ck: Check, n: int) -> None:
    camp = ck.campaign("ph.override (Model/Placeholder.overrideModel) vs the real Parser.__override_required_field on random class graphs "
                       "(typed members, name-less placeholders, bases 3 deep, diamonds, root types, enums, models without bases)")
    t0 = time.time()
    rng = ck.rng.fork("placeholders")
    from datamodel_code_generator.parser.jsonschema import JsonSchemaParser

    parser = JsonSchemaParser("")
    run = parser._Parser__override_required_field  # noqa: SLF001
    for _ in range(n):
        nodes = gen_graph(rng)
        build_real(nodes)
        current = {nd.ident: list(nd.fields) for nd in nodes}
        # the real pass, model by model in list order, so that the model side sees the same intermediate states
        reqs, order = [], []
        for nd in nodes:
            reqs.append((nd, f"ph.override {1 if nd.kind != 'class' else 0} {enc_model(nd, current)}"))
            try:
                run([nd.real])
                impl = observed(nd.real)
            except Exception as e:  # noqa: BLE001 - the pass is gone / raises: not the modelled shape
                impl = f"raise {type(e).__name__}: {e}"[:120]
            order.append(impl)
            if isinstance(impl, list):
                current[nd.ident] = impl
        replies = ck.driver.run([r for _, r in reqs])
        for (nd, req), impl, rep in zip(reqs, order, replies):
            camp.evaluations += 1
            model = dec_fields(rep)
            camp.hit(f"kind:{nd.kind}")
            camp.hit("bases:" + str(len(nd.bases)))
            pend = [f for f in nd.fields if f[0] is None and f[1] is not None and not f[2]]  # the guard is `original_name is None`: "" is a name
            if pend:
                camp.hit("has-pending-placeholder")
                camp.distinct.add(req)
            if any(f[1] == "" and not f[2] for f in nd.fields):
                camp.hit("has-empty-wire-name-placeholder")
            # WHICH members a model has after the pass is compared, not their positions: the real pass inserts the copy at the
            # member's index in the PRE-pass list, which moves it behind later members when earlier placeholders were dropped
            # (member order is the subject of C05 / C17, not of this model, whose theorems are about membership)
            same = sorted(map(repr, model)) == sorted(map(repr, impl)) if isinstance(model, list) and isinstance(impl, list) else model == impl
            if isinstance(model, list) and isinstance(impl, list) and model != impl and same:
                camp.hit("same-members-other-order")
            if not same:
                ck.disagree(camp, {"kind": nd.kind, "fields": nd.fields, "bases": [b.ident for b in nd.bases], "request": req[:600]}, model, impl)
            elif len(camp.samples) < 2 and pend and nd.bases:
                camp.samples.append({"fields": nd.fields, "after": impl})
    camp.wall_s = time.time() - t0
