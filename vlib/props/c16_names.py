"""C16 — samples whose keys are spelled like the class inferred for their own value.

A capitalised key with an object (or array-of-objects) value gives a member whose Python name IS the name of the class
of its type: `{"Error": {"Error": {…}}}` → class `Error` (outer value) with member `Error: Error1`, and the class above it
with member `Error: Error`. With a default (the member is optional because a sibling array element lacks the key)
pydantic v2 finds the member's value, not the class, when it evaluates the annotation inside the class namespace:
`Error: Optional[Error] = None` accepts nothing but null and the sample is rejected. `Parser.__change_field_name`
repairs this by renaming the member (alias = wire name); it is modelled by Dcg/Model/MemberRename.lean.

Here: (1) the tie of that model to the real pass, run on real DataModel objects — member lists in which the same name
occurs several times in a row, with and without a clash, single and union types; (2) the end-to-end family for the
property's own oracle (c16.oracle_case): keys nested under themselves at several depths, as objects and as arrays of
objects (plural key → singular class name), at every position of their object, optional through absence in a sibling
array element or required, beside lower-case twins and beside siblings whose TYPE is spelled like them; (3) the
classification of a rejected sample by what the emitted classes shadow; (4) the targeted search over that family.
"""
from __future__ import annotations

import ast
import itertools
import json
import time
import warnings
from typing import Any

from ..common import Rng, hx, unhx
from ..runner import Check

V2 = "pydantic_v2.BaseModel"
V1 = "pydantic.BaseModel"


# ------------------------------------------------------------------ (3) what a rejected sample's classes shadow
def shadow_kind(code: str) -> str:
    """`own_type_class`: some class has a member WITH a value whose name is a class of the module that the member's OWN
    annotation names; `sibling_type_class`: no such member, but one whose name is a class of the module named by ANOTHER
    member's annotation in the same class; else `none`. (The value hides the class inside the class namespace.)"""
    try:
        tree = ast.parse(code)
    except SyntaxError:
        return "none"
    classes = {n.name for n in tree.body if isinstance(n, ast.ClassDef)}
    found = "none"
    for cls in tree.body:
        if not isinstance(cls, ast.ClassDef):
            continue
        members = [s for s in cls.body if isinstance(s, ast.AnnAssign) and isinstance(s.target, ast.Name)]
        names_in = {id(m): {x.id for x in ast.walk(m.annotation) if isinstance(x, ast.Name)} |
                    {w for x in ast.walk(m.annotation) if isinstance(x, ast.Constant) and isinstance(x.value, str) for w in _words(x.value)} for m in members}
        for m in members:
            if m.value is None or m.target.id not in classes:
                continue
            if m.target.id in names_in[id(m)]:
                return "own_type_class"
            if any(m.target.id in names_in[id(o)] for o in members if o is not m):
                found = "sibling_type_class"
    return found


def _words(s: str) -> set[str]:
    out, cur = set(), ""
    for ch in s + " ":
        if ch.isalnum() or ch == "_":
            cur += ch
        else:
            if cur:
                out.add(cur)
            cur = ""
    return out


def shadow_tag(code: str) -> str:
    k = shadow_kind(code)
    return "" if k == "none" else f" [member shadows: {k}]"


def cause_from_tag(observed: str) -> str | None:
    for k in ("own_type_class", "sibling_type_class"):
        if f"[member shadows: {k}]" in observed:
            return "member_shadows_" + k
    return None


# ------------------------------------------------------------------ (1) Model.MemberRename.pass vs Parser.__change_field_name
MEMBER_NAMES = ["Error", "Error", "Item", "Pet", "Error_1", "A", "id", "value", "Error1", "Item_1", "class_", "pet"]
CLASS_NAMES = ["Error", "Error1", "Item", "Pet", "Error_1", "A", "Item_1", "Error_2", "Other"]


def gen_rename_case(rng: Rng) -> dict:
    """{classes: [name…], models: [[class, [[member name, [class of its type…], required, type string | None]…]]…]}; the same
    member name often several times in a row, alternately with and without a clash"""
    classes = rng.sample(CLASS_NAMES, rng.range(2, 5))
    hot = rng.choice([c for c in classes if c in MEMBER_NAMES] or ["Error"])
    models = []
    for cls in classes[: rng.range(1, len(classes))]:
        members = []
        for _ in range(rng.range(1, 3)):
            nm = hot if rng.chance(1, 2) else rng.choice(MEMBER_NAMES)
            if any(nm == m[0] for m in members):   # the members of one class have different names: a name comes again in the NEXT class
                continue
            c = rng.below(6)
            if c == 0:
                refs: list[str] = []
            elif c <= 2:
                refs = [nm] if nm in classes and rng.chance(2, 3) else [rng.choice(classes)]
            elif c == 3:
                refs = rng.sample(classes, min(len(classes), rng.range(2, 3)))
            else:
                refs = [rng.choice(classes)]
            tstr = nm if (not refs and nm in classes and rng.chance(1, 3)) else None   # a class named by its type string
            members.append([nm, refs, rng.chance(1, 2), tstr])
        models.append([cls, members])
    return {"classes": classes, "models": models}


def rename_cases_exhaustive() -> list[dict]:
    """every list of three members drawn from {same name clashing, same name free, other name} — all histories of length 3"""
    shapes = [["Error", ["Error"], False, None], ["Error", ["Error1"], False, None], ["Error", [], True, None], ["id", ["Error"], False, None],
              ["Error_1", ["Error_1", "Error"], False, None]]
    out = []
    for combo in itertools.product(range(len(shapes)), repeat=3):
        ms = [list(shapes[i]) for i in combo]
        # one member per class (a class has no two members of one name): the inner class first, as the parser orders them
        out.append({"classes": ["Error", "Error1", "Error_1"], "models": [["Error1", ms[:1]], ["Error", ms[1:2]], ["Holder", ms[2:]]]})
    return out


def real_rename(case: dict) -> tuple[list, list]:
    """(members as the pass sees them: [name, avoid…], outcome: [new name, alias]) of the real pass on real objects"""
    from datamodel_code_generator import DataModelType, PythonVersion
    from datamodel_code_generator.model import get_data_model_types
    from datamodel_code_generator.parser.jsonschema import JsonSchemaParser
    from datamodel_code_generator.reference import Reference
    from datamodel_code_generator.types import DataType, Types

    dmt = get_data_model_types(DataModelType(V2), PythonVersion.PY_312)
    parser = JsonSchemaParser("{}", data_model_type=dmt.data_model, data_model_root_type=dmt.root_model,
                              data_model_field_type=dmt.field_model, data_type_manager_type=dmt.data_type_manager)
    tm = parser.data_type_manager
    refs = {c: Reference(path=f"#/definitions/{c}", original_name=c, name=c, loaded=True) for c in case["classes"]}
    for cls, _ in case["models"]:
        refs.setdefault(cls, Reference(path=f"#/definitions/{cls}", original_name=cls, name=cls, loaded=True))
    models, seen = [], []
    model_classes = {cls for cls, _ in case["models"]}
    for cls, members in case["models"]:
        fields = []
        for nm, rs, required, tstr in members:
            if tstr is not None:
                dt = DataType(type=tstr)
            elif not rs:
                dt = tm.get_data_type(Types.string)
            elif len(rs) == 1:
                dt = DataType(reference=refs[rs[0]])
            else:
                dt = DataType(data_types=[DataType(reference=refs[r]) for r in rs])
            fields.append(dmt.field_model(name=nm, data_type=dt, required=required))
            avoid = list(rs) if tstr is None else ([tstr] if tstr in model_classes else [])
            seen.append([nm, avoid])
        models.append(dmt.data_model(reference=refs[cls], fields=fields))
    with warnings.catch_warnings():
        warnings.simplefilter("ignore")
        parser._Parser__change_field_name(models)  # noqa: SLF001
    return seen, [[f.name, f.alias] for m in models for f in m.fields]


def campaign_member_rename(ck: Check, n: int) -> None:
    camp = ck.campaign("Model.MemberRename.pass vs Parser.__change_field_name on real DataModel objects (pydantic v2): member lists in which the same "
                       "name occurs several times in a row — clashing with the class of its own type, free, of a union type — every history of length 3")
    t0 = time.time()
    rng = ck.rng.fork("member-rename")
    cases = rename_cases_exhaustive() + [gen_rename_case(rng) for _ in range(n)]
    real = []
    for case in cases:
        try:
            real.append(real_rename(case))
        except Exception as e:  # noqa: BLE001
            real.append(([], f"{type(e).__name__}: {str(e)[:200]}"))
    reqs = ["rename.pass (" + " ".join(f"({hx(nm)} ({' '.join(hx(a) for a in av)}))" for nm, av in seen) + ")" for seen, _ in real]
    replies = ck.driver.run(reqs)
    for case, (seen, out), rep in zip(cases, real, replies):
        camp.evaluations += 1
        if isinstance(out, str):
            ck.disagree(camp, case, "the pass runs", out)
            continue
        if rep == "unmodelled":
            camp.unmodelled += 1
            continue
        news = [None if x == "-" else unhx(x) for x in rep.split(" ")[1:]] if rep.startswith("ok") else rep
        model = [[new, (None if new == old else old)] for (old, _), new in zip(seen, news)] if isinstance(news, list) else news
        names = [nm for nm, _ in seen]
        clash = [nm in av for nm, av in seen]
        camp.hit("renamed" if any(clash) else "nothing_to_rename")
        for i in range(1, len(seen)):
            if names[i] == names[i - 1]:
                camp.hit(f"same_name_in_a_row:{'clash' if clash[i - 1] else 'free'}_then_{'clash' if clash[i] else 'free'}")
        if any(len(av) > 1 for _, av in seen):
            camp.hit("union_type")
        camp.distinct.add(json.dumps(seen))
        if model != out:
            ck.disagree(camp, case, json.dumps(model), json.dumps(out))
        elif len(camp.samples) < 2 and any(clash) and len(seen) <= 5:
            camp.samples.append({"members": seen, "outcome": out})
    camp.wall_s = time.time() - t0


# ------------------------------------------------------------------ (2) the end-to-end family
CAP_KEYS = ["Error", "Result", "Item", "Data", "Node", "Pet", "Status", "Entry", "Box", "A", "Id", "Response2", "Api_Key"]
PLURAL = {"Error": "Errors", "Result": "Results", "Item": "Items", "Node": "Nodes", "Pet": "Pets", "Entry": "Entries", "Box": "Boxes", "Status": "Statuses"}
FILLER = ["id", "seq", "code", "text", "row", "n", "kind"]


def _leaf(rng: Rng):
    return rng.choice([{"code": 7, "text": "quota exceeded"}, {"code": 7}, 1, "x", [{"row": 1}, {"row": 2}], None, {}, [1, 2], 2.5])


def _place(rng: Rng, key: str, value, position: int | None = None, fillers: int | None = None) -> dict:
    """an object holding `key` at a chosen position among some plain keys"""
    ks = rng.sample(FILLER, rng.range(0, 2) if fillers is None else fillers)
    pos = rng.below(len(ks) + 1) if position is None else min(position, len(ks))
    out: dict[str, Any] = {}
    for i, k in enumerate(ks[:pos]):
        out[k] = i
    out[key] = value
    for i, k in enumerate(ks[pos:]):
        out[k] = "v" if i else 2
    return out


def nest(rng: Rng, key: str, depth: int):
    """a value for `key` that holds `key` again, `depth` times; each level an object, or an array of objects (under the
    plural of the key when there is one) in which a sibling element may lack the key"""
    if depth == 0:
        return _leaf(rng)
    inner = nest(rng, key, depth - 1)
    k = key
    twin = rng.below(10)
    if twin == 0:
        k = key.lower()                      # the lower-case twin: same class name, another member name
    elif twin == 1 and key in PLURAL and isinstance(inner, dict):
        k, inner = PLURAL[key], [inner, {}]  # `Items: [{…}]` → class Item
    obj = _place(rng, k, inner)
    shape = rng.below(5)
    if shape == 0:
        return [obj, {f: 1 for f in rng.sample(FILLER, rng.range(0, 1))}]   # the key is optional
    if shape == 1:
        return [{f: 1 for f in rng.sample(FILLER, 1)}, obj]
    if shape == 2:
        return [obj]
    return obj


def rand_selfnamed_document(rng: Rng) -> dict:
    key = rng.choice(CAP_KEYS)
    depth = rng.range(1, 3)
    body = _place(rng, key, nest(rng, key, depth))
    if rng.chance(1, 8):
        # a sibling whose TYPE is spelled like the key (class Pet from `pet`), the key itself a scalar
        body = _place(rng, key, rng.choice([1, "x", None]))
        body[key.lower() if key.lower() != key else key + "s"] = {"x": 1}
    holder = rng.choice(["responses", "batches", "list", "rows", "k1"])
    shape = rng.below(6)
    if shape <= 2:     # optional through absence in a sibling array element
        sib = {f: 2 for f in body if f != key and rng.chance(1, 2)}
        doc: dict[str, Any] = {holder: [body, sib] if rng.chance(3, 4) else [sib, body]}
    elif shape == 3:   # optional through null
        doc = {holder: [body, {**{f: 2 for f in body if f != key}, key: None}]}
    elif shape == 4:   # required, below the root
        doc = {holder: body}
    else:              # required, at the root
        doc = body
    if rng.chance(1, 3):
        other = rng.choice([k for k in CAP_KEYS if k != key])
        doc[rng.choice(["extra", other])] = _place(rng, other, nest(rng, other, 1)) if rng.chance(1, 2) else 1
    return doc


CORPUS = [
    ({"responses": [{"Status": {"Status": {"code": 7, "text": "t"}}, "id": 1}, {"id": 2}]}, V2),
    ({"batches": [{"seq": 1, "Result": {"Result": [{"row": 1}, {"row": 2}]}}, {"seq": 2}]}, V2),
    ({"Node": {"Node": {"Node": {"n": 1}}}}, V2),
    ({"list": [{"Items": [{"Item": {"Item": 1}}, {}]}, {}]}, V2),
    ({"responses": [{"Status": {"Status": {"code": 7}}, "id": 1}, {"id": 2}]}, V1),
]


def campaign_selfnamed(ck: Check, n: int, c16) -> None:
    camp = ck.campaign("e2e: samples whose keys are spelled like the class inferred for their own value (a capitalised key nested under itself at depth 1–3, as "
                       "object / array of objects / plural key, at every position of its object, optional through a sibling array element that lacks it or "
                       "through null, or required; lower-case twins; a sibling whose type is spelled like the key) → Model validates the document, "
                       "dump(by_alias) has its keys")
    t0 = time.time()
    rng = ck.rng.fork("selfnamed")
    for doc, kind in CORPUS:
        c16.oracle_case(ck, camp, doc, "json", kind)
    for i in range(n):
        doc = rand_selfnamed_document(rng)
        kind = V1 if i % 4 == 3 else V2
        camp.distinct.add(json.dumps(doc, sort_keys=True))
        for k in set(c16.all_keys(doc)):
            if k in CAP_KEYS:
                camp.hit("key:capitalised")
            elif k in PLURAL.values():
                camp.hit("key:plural_of_class_name")
        camp.hit("nesting:" + str(max_self_nesting(doc)))
        c16.oracle_case(ck, camp, doc, ["json", "json", "yaml", "dict"][i % 4] if i % 3 == 0 else "json", kind)
    camp.wall_s = time.time() - t0


def max_self_nesting(v, under: tuple = ()) -> int:
    """the largest number of times a key occurs on one path below itself"""
    best = 0
    if isinstance(v, dict):
        for k, x in v.items():
            best = max(best, sum(1 for u in under if u == k), max_self_nesting(x, under + (k,)))
    elif isinstance(v, list):
        for x in v:
            best = max(best, max_self_nesting(x, under))
    return best


# ------------------------------------------------------------------ (4) targeted search
def search_selfnamed(ck: Check, c16) -> None:
    """run when a proof or a correspondence broke: the whole small family — every key of the pool nested under itself at depth 1–3,
    at the first / middle / last position of its object, as object or array of objects, optional or required"""
    camp = ck.campaign("search: each capitalised key nested under itself × depth × position in its object × object/array × optional/required (pydantic v2)")
    rng = Rng(0, "search-selfnamed")
    for key in CAP_KEYS[:8]:
        for depth in (1, 2, 3):
            for pos in (0, 1, 2):
                for arr in (False, True):
                    for optional in (True, False):
                        v: Any = {"code": 7}
                        for _ in range(depth):
                            v = _place(rng, key, v, 0, 0)
                            if arr:
                                v = [v, {}]
                        body = _place(rng, key, v, pos, 2)
                        doc = {"responses": [body, {"zz": 1}]} if optional else {"responses": body}
                        camp.hit(f"depth:{depth}")
                        c16.oracle_case(ck, camp, doc, "json", V2)
        if ck.failures:
            return
