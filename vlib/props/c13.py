"""C13 — type annotations are well-formed and mean the same in every spelling."""
from __future__ import annotations

import ast
import collections.abc
import functools
import json
import os
import re
import time
import types as pytypes
import typing
import warnings

from .. import typetrees as tt
from ..common import hx, unhx
from ..runner import Campaign, Check, match_finding

SPECIALS = set("[],|")


# ---------------------------------------------------------------- the real side
def real_hint(d, o):
    """(hint, is_optional after the call) of the real DataType tree, or ("!exc", name)."""
    try:
        dt = tt.build(d, o)
        h = dt.type_hint
        return h, bool(dt.is_optional)
    except Exception as e:  # noqa: BLE001
        return "!exc", type(e).__name__


# ---------------------------------------------------------------- Python's view of a hint (the oracle's semantics)
class _Dotted(type):
    """a class per unknown identifier; attribute access gives the class of the dotted name"""

    def __getattr__(cls, name):
        if name.startswith("__"):
            raise AttributeError(name)
        return _Dotted(f"{cls.__name__}.{name}", (), {})


class _Names(dict):
    """evaluation scope: the typing names, builtins, and a fresh class for every other identifier"""

    def __missing__(self, k):
        if k.startswith("__"):
            raise KeyError(k)
        v = _Dotted(k, (), {})
        self[k] = v
        return v


def _scope() -> _Names:
    ns = _Names(int=int, str=str, float=float, bool=bool, bytes=bytes, list=list, set=set, dict=dict, frozenset=frozenset)
    for n in ("List", "Set", "Dict", "FrozenSet", "Sequence", "Mapping", "Optional", "Union", "Literal", "Any"):
        ns[n] = getattr(typing, n)
    return ns


LISTS = {list, collections.abc.Sequence}
SETS = {set, frozenset, collections.abc.Set}
DICTS = {dict, collections.abc.Mapping}


def nf(tp) -> str:
    """normal form of an evaluated hint, in the text format of `Sem.Typing.Ty.show`"""
    alts, has_none = _alts(tp)
    ded = []
    for a in alts:
        if a not in ded:
            ded.append(a)
    if len(ded) == 1 and not has_none:
        return ded[0]
    return "{" + ";".join(sorted(ded) + (["None"] if has_none else [])) + "}"


def _alts(tp):
    if tp is None or tp is type(None):
        return [], True
    origin = typing.get_origin(tp)
    if origin is typing.Union or origin is pytypes.UnionType:
        out, n = [], False
        for a in typing.get_args(tp):
            x, m = _alts(a)
            out += x
            n = n or m
        return out, n
    return [_one(tp, origin)], False


def _head(origin) -> str | None:
    if origin in LISTS:
        return "list"
    if origin in SETS:
        return "set"
    if origin in DICTS:
        return "dict"
    return None


def _one(tp, origin) -> str:
    if origin is typing.Literal:
        return "Literal(" + ";".join(sorted(repr(a) for a in typing.get_args(tp))) + ")"
    h = _head(origin) or _head(tp)
    if h is not None:
        return h + "(" + ";".join(nf(a) for a in typing.get_args(tp)) + ")"
    if tp is typing.Any:
        return "Any"
    if origin is not None:
        return getattr(origin, "__name__", str(origin)) + "(" + ";".join(nf(a) for a in typing.get_args(tp)) + ")"
    return getattr(tp, "__name__", None) or getattr(tp, "_name", None) or str(tp)


def eval_hint(hint: str):
    with warnings.catch_warnings():
        warnings.simplefilter("ignore")
        return eval(hint, {"__builtins__": {"int": int, "str": str, "float": float, "bool": bool, "bytes": bytes, "list": list, "set": set, "dict": dict, "frozenset": frozenset, "None": None}}, _scope())  # noqa: S307


@functools.lru_cache(maxsize=400000)
def nf_of_hint(hint: str) -> str:
    """normal form of the evaluated hint, or "!<exception>" (the `X | Y` spelling evaluates on Python ≥ 3.10:
    classes, typing aliases, None and the stand-in classes all implement `|`)"""
    try:
        return nf(eval_hint(hint))
    except Exception as e:  # noqa: BLE001
        return f"!{type(e).__name__}"


def wrapper_subscripts(tree: ast.AST) -> int:
    """number of `Optional[…]` / `Union[…]` subscriptions in a hint (outside Literal[…])"""
    n = 0
    todo = [tree]
    while todo:
        x = todo.pop()
        if isinstance(x, ast.Subscript) and isinstance(x.value, ast.Name):
            if x.value.id == "Literal":
                continue
            if x.value.id in ("Optional", "Union"):
                n += 1
        todo.extend(ast.iter_child_nodes(x))
    return n


def none_counts(tree: ast.AST) -> int:
    """max number of `None` among the alternatives of one (flattened) union of the hint"""
    worst = 0

    def members(n):
        # alternatives of the union whose root is n, flattened through Optional / Union / |
        if isinstance(n, ast.BinOp) and isinstance(n.op, ast.BitOr):
            return members(n.left) + members(n.right)
        if isinstance(n, ast.Subscript) and isinstance(n.value, ast.Name) and n.value.id in ("Optional", "Union"):
            elts = n.slice.elts if isinstance(n.slice, ast.Tuple) else [n.slice]
            out = []
            for e in elts:
                out += members(e)
            if n.value.id == "Optional":
                out.append(None)
            return out
        if isinstance(n, ast.Constant) and n.value is None:
            return [None]
        return [n]

    def is_union(n):
        return (isinstance(n, ast.BinOp) and isinstance(n.op, ast.BitOr)) or (
            isinstance(n, ast.Subscript) and isinstance(n.value, ast.Name) and n.value.id in ("Optional", "Union")
        )

    def visit(n, inside_union):
        nonlocal worst
        if is_union(n) and not inside_union:
            ms = members(n)
            worst = max(worst, sum(1 for m in ms if m is None))
            for m in ms:
                if m is not None:
                    visit(m, False)
            return
        if isinstance(n, ast.Subscript) and isinstance(n.value, ast.Name) and n.value.id == "Literal":
            return
        for c in ast.iter_child_nodes(n):
            visit(c, False)

    visit(tree, False)
    return worst


def balanced_outside_strings(hint: str) -> bool:
    depth = 0
    try:
        import io
        import tokenize

        for tok in tokenize.generate_tokens(io.StringIO(hint).readline):
            if tok.type == tokenize.OP:
                if tok.string == "[":
                    depth += 1
                elif tok.string == "]":
                    depth -= 1
                    if depth < 0:
                        return False
    except (tokenize.TokenError, SyntaxError, IndentationError):
        return False
    return depth == 0


# ---------------------------------------------------------------- classification of a tree
def normalised(d):
    """the description read back from the real tree after construction and one `type_hint` call in the
    typing spelling (`DataType.__init__` drops optional `Any` members; `type_hint` sets is_optional)"""
    try:
        dt = tt.build(d, tt.OPTION_VECTORS[0])
        dt.type_hint  # noqa: B018
    except Exception:  # noqa: BLE001
        return d

    # references and imports are not changed by construction: carry them over by a parallel walk
    def zip_back(x, src):
        kids_src = src["kids"]
        if len(kids_src) != len(x.data_types):
            kids_src = [c for c in kids_src if not (c["ty"] == "Any" and c["opt"])]
        return tt.node(
            ty=x.type or "", ref=src["ref"], opt=bool(x.is_optional), dict_=x.is_dict, list_=x.is_list, set_=x.is_set, custom=x.is_custom_type,
            lits=list(x.literals), imp=src["imp"], key=zip_back(x.dict_key, src["key"]) if x.dict_key is not None else None,
            kids=[zip_back(k, c) for k, c in zip(x.data_types, kids_src)],
        )

    return zip_back(dt, d)


def triggers(d) -> list[str]:
    out = []
    raw_nodes = list(tt.walk(d))
    if any(n["ty"] == "" and not n["kids"] and not n["lits"] and n["ref"] is None for n in raw_nodes):
        out.append("empty_node")
    if any(n["ty"] != "" and n["kids"] for n in raw_nodes):
        out.append("type_and_children")
    d = normalised(d)
    nodes = list(tt.walk(d))
    if any(any(c in SPECIALS for c in repr(v)) for n in nodes for v in n["lits"]):
        out.append("literal_special")
    names = [n["ty"] for n in nodes if n["ty"]] + [tt.short_name(n["ref"]["name"]) for n in nodes if n["ref"]]
    if any((not re.fullmatch(r"[A-Za-z_][A-Za-z0-9_.]*", s)) for s in names):
        out.append("name_not_identifier")
    if any(sum(1 for k in ("list", "set", "dict") if n[k]) > 1 for n in nodes):
        out.append("several_containers")

    def optional_member(n):
        # a node whose own hint is wrapped in Optional[...]: flagged, a nullable reference, or a union with a None member
        return (n["opt"] or (n["ref"] and n["ref"]["nullable"]) or (n["ty"] == "" and len(n["kids"]) > 1 and any(k["ty"] == "None" or optional_member(k) for k in n["kids"]))) and not (n["ty"] == "Any" and not (n["list"] or n["set"] or n["dict"]))

    def passes_optional(n):
        # the hint of n starts with Optional[...] or is n's single child's hint that does
        if n["list"] or n["set"] or n["dict"]:
            return optional_member(n)
        if optional_member(n):
            return True
        return n["ty"] == "" and len(n["kids"]) == 1 and passes_optional(n["kids"][0])

    for n in nodes:
        if n["ty"] == "" and n["kids"]:
            if any(passes_optional(k) for k in n["kids"]):
                out.append("optional_inside_union_or_optional")
                break
    def only_none(n):
        if n["list"] or n["set"] or n["dict"] or n["ref"] or n["lits"]:
            return False
        return n["ty"] == "None" or (n["ty"] == "" and bool(n["kids"]) and all(only_none(k) for k in n["kids"]))

    if any(n["ty"] == "" and len(n["kids"]) > 1 and all(only_none(k) for k in n["kids"]) for n in nodes):
        out.insert(0, "union_of_only_none")
    for n in nodes:
        if n["ty"] == "" and len(n["kids"]) > 1 and (n["list"] or n["set"] or n["dict"]) and any(passes_optional(k) for k in n["kids"]):
            out.append("optional_member_of_container_union")
            break
    if any(n["ty"] in ("Optional", "Union", "Literal", "List", "Dict", "Set", "list", "set", "dict", "Sequence", "Mapping", "FrozenSet") for n in nodes):
        out.append("typing_name_as_type")
    return out or ["plain"]


def in_ir_domain(d) -> bool:
    """trees the property quantifies over: what the IR expresses (names are identifiers, no empty node,
    one container bit, type XOR children); literals and optional flags are free"""
    return not (NOT_IR & set(triggers(d)))


# ---------------------------------------------------------------- the property's own oracle on one tree
# ---------------------------------------------------------------- a failing tree as a document for generate()
PRIMS = {"int": "integer", "str": "string", "float": "number", "bool": "boolean"}


def schema_of(d):
    """a JSON Schema whose type is (meant to be) the tree `d`, or None when the tree has no simple schema"""
    if d["key"] is not None or d["ref"] is not None or d["imp"] is not None:
        return None
    conts = [k for k in ("list", "set", "dict") if d[k]]
    if len(conts) > 1:
        return None
    if d["ty"]:
        if d["kids"] or d["lits"]:
            return None
        if d["ty"] == "None":
            inner = {"type": "null"}
        elif d["ty"] == "Any":
            inner = {}
        elif d["ty"] in PRIMS:
            inner = {"type": PRIMS[d["ty"]]}
        else:
            return None
    elif d["lits"]:
        if d["kids"]:
            return None
        inner = {"enum": list(d["lits"])}
    elif len(d["kids"]) == 1:
        inner = schema_of(d["kids"][0])
    elif len(d["kids"]) >= 2:
        subs = [schema_of(k) for k in d["kids"]]
        if any(x is None for x in subs):
            return None
        inner = {"anyOf": subs}
    else:
        return None
    if inner is None:
        return None
    if conts == ["list"]:
        s = {"type": "array", "items": inner}
    elif conts == ["set"]:
        s = {"type": "array", "uniqueItems": True, "items": inner}
    elif conts == ["dict"]:
        s = {"type": "object", "additionalProperties": inner}
    else:
        s = inner
    if d["opt"]:
        s = {"anyOf": [s, {"type": "null"}]}
    return s


def embed_document(d, fb=None):
    """Best effort: a JSON Schema document with one property of (about) the type `d`, generated with and without
    --use-union-operator (enum members as Literal): returned when the two emitted annotations are not both well-formed
    expressions denoting the same type — the failing tree as an input of generate()."""
    try:
        from datamodel_code_generator import LiteralType

        from .. import e2e

        s = schema_of(d)
        if s is None:
            return None
        required = True if fb is None else bool(fb.get("required"))
        doc = {"title": "Model", "type": "object", "properties": {"a": s}}
        if required:
            doc["required"] = ["a"]
        anns = {}
        for u in (False, True):
            r = e2e.run_generate(doc, opts={"use_union_operator": u, "enum_field_as_literal": LiteralType.All})
            if not r.ok:
                return None
            mod = ast.parse(r.code)
            for node in ast.walk(mod):
                if isinstance(node, ast.AnnAssign) and isinstance(node.target, ast.Name) and node.target.id == "a":
                    anns[u] = ast.get_source_segment(r.code, node.annotation)
        if len(anns) != 2:
            return None
        res = {u: check_one(a, None) for u, a in anns.items()}
        if res[False][0] is None and res[True][0] is None and res[False][1] == res[True][1]:
            return None
        return {"json_schema": doc, "generate_options": "--enum-field-as-literal all, with / without --use-union-operator",
                "annotation_without_union_operator": anns[False], "annotation_with_union_operator": anns[True],
                "verdicts": {"without": list(res[False]), "with": list(res[True])}}
    except Exception:  # noqa: BLE001  (an aid for the reader of the replay file, never part of the verdict)
        return None


D9_CHARS = {"typing": "[]", "operator": "|"}  # what the pinned defect D9 misreads: a bracket for the Union[…] scanner, a | for the | splitter


def strip_literal_chars(d, chars: str):
    """the same tree with the given characters taken out of every literal value (values that coincide afterwards are kept once)"""

    def lits(vs):
        out = []
        for v in vs:
            w = "".join("x" if c in chars else c for c in v) if isinstance(v, str) else v
            if not any(type(w) is type(x) and w == x for x in out):
                out.append(w)
        return out

    def f(n):
        if n is None:
            return None
        return dict(n, lits=lits(n["lits"]), key=f(n["key"]), kids=[f(k) for k in n["kids"]])

    return f(d)


def check_one(h: str, den: str | None):
    """(mechanism, message) of the first clause of the property the hint fails, else (None, its normal form)"""
    if not balanced_outside_strings(h):
        return "unbalanced", f"brackets of {h!r} are not balanced"
    try:
        tree = ast.parse(h, mode="eval").body
    except SyntaxError as e:
        return "unparsable", f"{h!r} is not an expression: {e}"
    if "Optional[Optional[" in h:
        return "double_optional", f"doubly wrapped optional in {h!r}"
    if none_counts(tree) > 1:
        return "none_twice", f"None occurs more than once in one union of {h!r}"
    try:
        v = nf(eval_hint(h))
    except Exception as e:  # noqa: BLE001
        return "eval_error", f"{h!r} does not evaluate to a type: {type(e).__name__}: {e}"
    if den is not None and v != den:
        return "denotation_differs", f"{h!r} evaluates to {v} but the type tree denotes {den}"
    return None, v


def model_dens(ck: Check, d, only=None) -> dict:
    """denotation of the structural rendering of the tree (Lean: denote ∘ hintE) per option vector"""
    os_ = [o for o in tt.OPTION_VECTORS if only is None or o in only]
    reps = ck.driver.run([f"types.hintexpr {tt.opt_bits(o)} {tt.sx(d)}" for o in os_])
    return {o: unhx(r.split(" ")[3]) for o, r in zip(os_, reps) if r.startswith("ok ")}


def oracle_core(ck: Check, camp, d, hint_of, trig: list[str], dens: dict | None, level: str = "type", extra: dict | None = None,
                only=None, attribute: bool = True, embed: bool = True) -> None:
    """The property's own oracle on the 8 spellings of one annotation (`hint_of(d, o)`): each spelling is a balanced,
    parsable, evaluable expression without a doubly wrapped optional and with None at most once per union, it
    evaluates to the denotation of the type tree (`dens`, when given), and all spellings denote the same type.
    A spelling that fails by a KNOWN finding is set aside and the others are still examined."""
    extra = extra or {}
    base = {"oracle": "hint", "triggers": trig}
    if level != "type":
        base["level"] = level
    os_ = [o for o in tt.OPTION_VECTORS if only is None or o in only]

    def still_fails(d2, sel) -> bool:
        probe = Check(ck.prop, ck.tier)
        probe.findings = []
        oracle_core(probe, Campaign("probe"), d2, hint_of, triggers(d2), model_dens(ck, d2, sel) if dens is not None else None,
                    level, extra, only=sel, attribute=False)
        return bool(probe.failures)

    def literal_trigger(cls) -> str | None:
        """A tree with special characters in literal values.  (A) If the failure is still there when ALL of [ ] , | are
        taken out of the literal values, the literals have nothing to do with it: None (classify by the other triggers).
        (B) The pinned defect D9 is about a bracket (Union[…] spelling) resp. a | (| spelling) inside a literal value:
        the failure is D9's ("literal_special") only if it goes away when exactly those characters are taken out;
        otherwise it is some other misreading of literal text ("literal_other", not a known finding)."""
        if not attribute:
            return "literal_other"
        cross = cls["mechanism"] in ("spelling_differs", "alternative_lost")
        sel = None if cross else {o for o in tt.OPTION_VECTORS if o[0] == (cls["spelling"] == "operator")}
        if still_fails(strip_literal_chars(d, "[],|"), sel):
            return None
        chars = "[]|" if cross else D9_CHARS[cls["spelling"]]
        d2 = strip_literal_chars(d, chars)
        if d2 == d:
            return "literal_other"
        return "literal_other" if still_fails(d2, sel) else "literal_special"

    clean = [True]

    def fail(cls, inp, observed) -> bool:
        """classify: which property of the tree explains this mechanism"""
        clean[0] = False
        mech, hint = cls["mechanism"], str(inp.get("hint", "")) + str(inp.get("optional_hint", ""))
        lit = None
        if "Union[]" in hint and "union_of_only_none" in trig:
            cls["trigger"] = "union_of_only_none"
        elif mech in ("double_optional", "none_twice") and "optional_inside_union_or_optional" in trig:
            cls["trigger"] = "optional_inside_union_or_optional"
        elif level == "field" and mech in ("double_optional", "none_twice") and d["ty"] == "Any" and (d["list"] or d["set"] or d["dict"]):
            # the field-level exemption `data_type.type != ANY` looks at the raw type of a List[Any] / Dict[str, Any]
            cls["trigger"] = "optional_any_container_field"
        elif "literal_special" in trig and (lit := literal_trigger(cls)) is not None:
            cls["trigger"] = lit
        elif mech in ("spelling_differs", "denotation_differs") and "optional_member_of_container_union" in trig:
            cls["trigger"] = "optional_member_of_container_union"
        else:
            rest = [t for t in trig if t not in ("union_of_only_none", "literal_special")] or trig
            cls["trigger"] = rest[0]
        if embed and attribute and match_finding(ck.findings, cls) is None and not ck.failures:
            doc = embed_document(d, extra.get("field"))
            if doc is not None:
                inp = {**inp, "document": doc}
        return ck.fail(cls, inp, observed)

    hints = {}
    for o in os_:
        h = hint_of(d, o)
        if h == "!exc":
            camp.hit("real_raises")
            return
        hints[o] = h
    nfs = {}
    for o, h in hints.items():
        sp = "operator" if o[0] else "typing"
        if h == "":
            camp.hit("empty_hint")
            return
        mech, val = check_one(h, dens.get(o) if dens else None)
        if mech is None:
            nfs[o] = val
        elif fail({**base, "mechanism": mech, "spelling": sp}, {"tree": d, "opts": list(o), "hint": h, **extra}, val):
            return
    # the spellings that are fine by themselves denote the same type
    if nfs:
        o0 = next(iter(nfs))
        for o, v in nfs.items():
            if v != nfs[o0]:
                if fail({**base, "mechanism": "spelling_differs", "spelling": "operator" if o[0] else "typing"},
                        {"tree": d, "opts": list(o), "hint": hints[o], "baseline_opts": list(o0), "baseline_hint": hints[o0], **extra},
                        f"{hints[o]!r} denotes {v} but {hints[o0]!r} denotes {nfs[o0]}"):
                    return
                break
    # optional keeps alternatives: the same tree with the root flagged optional
    if level == "type" and not d["opt"]:
        d2 = dict(d, opt=True)
        for o in (TYPING0, OPERATOR0):
            if o not in nfs:
                continue
            h2 = hint_of(d2, o)
            try:
                a2 = set(_alts(eval_hint(h2))[0])
            except Exception:  # noqa: BLE001  (reported by the case where d2 itself is drawn)
                continue
            a1 = set(_alts(eval_hint(hints[o]))[0])
            if not a1 <= a2 and hints[o] != "Any":
                if fail({**base, "mechanism": "alternative_lost", "spelling": "operator" if o[0] else "typing"},
                        {"tree": d, "opts": list(o), "hint": hints[o], "optional_hint": h2},
                        f"optional form {h2!r} lost alternatives {sorted(a1 - a2)} of {hints[o]!r}"):
                    return
    if clean[0]:
        camp.distinct.add(json.dumps([d, extra], sort_keys=True, default=str))


TYPING0, OPERATOR0 = (False, False, False), (True, False, False)


def oracle_tree(ck: Check, camp, d, dens: dict | None = None, trig: list[str] | None = None, embed: bool = True) -> None:
    """`DataType(...).type_hint` of the tree `d` in all 8 spellings"""
    oracle_core(ck, camp, d, lambda x, o: real_hint(x, o)[0], triggers(d) if trig is None else trig, dens, embed=embed)


def field_hint(d, o, fb) -> str:
    """`DataModelFieldBase.type_hint` (resp. the TypedDict member without its NotRequired[…]) of a field of type `d`"""
    from datamodel_code_generator.model.base import DataModelFieldBase
    from datamodel_code_generator.model.typed_dict import DataModelField as TDField
    from datamodel_code_generator.model.typed_dict import TypedDict
    from datamodel_code_generator.reference import Reference

    try:
        dt = tt.build(d, o)
        kw = dict(name="f", data_type=dt, required=fb["required"], nullable=fb["nullable"], type_has_null=fb["type_has_null"],
                  extras={"default_factory": "list"} if fb["default_factory"] else {})
        if fb["typed_dict"]:
            f = TDField(**kw)
            TypedDict(reference=Reference(path="#/T", name="T"), fields=[f])
            impl = f.type_hint
            if not fb["required"]:
                assert impl.startswith("NotRequired[") and impl.endswith("]"), impl
                impl = impl[len("NotRequired[") : -1]
            return impl
        return DataModelFieldBase(**kw).type_hint
    except Exception:  # noqa: BLE001
        return "!exc"


def oracle_field(ck: Check, camp, d, fb, trig: list[str] | None = None, embed: bool = True) -> None:
    """the annotation of a FIELD of type `d` (the field-level optional decision on top of the type's hint) in all 8 spellings"""
    oracle_core(ck, camp, d, lambda x, o: field_hint(x, o, fb), triggers(d) if trig is None else trig, None, level="field", extra={"field": fb}, embed=embed)


# ---------------------------------------------------------------- campaigns
def campaign_strings(ck: Check, n: int) -> None:
    from datamodel_code_generator.types import _remove_none_from_union, get_optional_type

    camp = ck.campaign("types.rmnone/getopt vs _remove_none_from_union / get_optional_type (random hint-like strings)")
    t0 = time.time()
    rng = ck.rng.fork("strings")
    toks = ["Union[", "Optional[", "None", ", ", " | ", "[", "]", ",", "|", " ", "int", "str", "List[", "Literal['a']", "  ", "\t", "\xa0", "Dict[str, ",
            "Union[int, None]", "'a  |  b'", "'['", "None]", "x", "Union[]", "\n", " ", "\x1f", "\x85"]
    cases = []
    for s in ["", "None", "Union[None]", "Union[None, None]", "Union[int, None]", "Union[", "Union[]", "int | None", "None | None", " | ", "a |", "| a",
              "Union[Union[int, None], None]", "Union[a, Union[None, None]]", "Union[a,b , None ]", "Union[a]]", "Union[a, b]x", "a  |  b", "Optional[int]"]:
        cases.append(s)
    for _ in range(n):
        k = rng.range(1, 7)
        cases.append("".join(rng.choice(toks) for _ in range(k)))
    reqs = []
    for s in cases:
        for u in (0, 1):
            reqs.append(f"types.rmnone {u} {hx(s)}")
            reqs.append(f"types.getopt {u} {hx(s)}")
    reps = ck.driver.run(reqs)
    i = 0
    for s in cases:
        for u in (False, True):
            for fn, name in ((_remove_none_from_union, "rmnone"), (get_optional_type, "getopt")):
                rep = reps[i]
                i += 1
                camp.evaluations += 1
                try:
                    impl = fn(s, use_union_operator=u) if name == "rmnone" else fn(s, u)
                except RecursionError:
                    impl = "!RecursionError"
                model = unhx(rep.split(" ")[1]) if rep.startswith("ok ") else rep
                camp.hit(f"{name}:{'operator' if u else 'typing'}")
                if impl != s:
                    camp.distinct.add((name, u, s))
                    camp.hit("changed")
                if model != impl:
                    ck.disagree(camp, {"fn": name, "use_union_operator": u, "s": s}, model, impl)
                elif len(camp.samples) < 3 and impl != s and name == "rmnone":
                    camp.samples.append({"fn": name, "use_union_operator": u, "s": s, "result": impl})
    camp.wall_s = time.time() - t0


def campaign_isspace(ck: Check) -> None:
    camp = ck.campaign("types.isspace vs re \\s / str.strip over all code points")
    t0 = time.time()
    pat = re.compile(r"\s")
    cps = [c for c in range(0x110000) if not (0xD800 <= c <= 0xDFFF)]
    impl = {c for c in cps if pat.fullmatch(chr(c))}
    strip = {c for c in cps if ("a" + chr(c)).strip() == "a"}
    probe = sorted(impl | strip | set(range(0, 0x3100)) | {0x10FFFF, 0xFEFF, 0x200B, 0x180E})
    rep = ck.driver.run(["types.isspace " + hx("".join(chr(c) for c in probe))])[0]
    bits = rep.split(" ")[1] if rep.startswith("ok ") else ""
    model = {c for c, b in zip(probe, bits) if b == "1"}
    camp.evaluations = len(cps)
    camp.distinct = set(impl)
    camp.hit("whitespace_code_points", len(impl))
    if impl != strip:
        ck.disagree(camp, "re \\s vs str.strip", sorted(impl ^ strip)[:10], "differ")
    if model != impl or len(bits) != len(probe):
        ck.disagree(camp, "isSpace", sorted(model ^ impl)[:10], "code points on which the model and CPython differ")
    camp.samples.append({"whitespace": [hex(c) for c in sorted(impl)]})
    camp.wall_s = time.time() - t0


def tree_stream(ck: Check, n_plain: int, n_adv: int, thorough: bool):
    rng = ck.rng.fork("trees")
    for d in CORPUS:
        yield "corpus", d
    for _ in range(n_plain):
        yield "ir", tt.random_tree(rng, max_depth=rng.choice([2, 3, 3, 4]))
    for _ in range(n_adv):
        yield "adversarial", tt.random_tree(rng, max_depth=3, adversarial=True)
    if thorough:
        for d in tt.small_scope(3):
            yield "small_scope", d


NOT_IR = {"name_not_identifier", "empty_node", "type_and_children", "several_containers", "typing_name_as_type"}
CONTAINER_SPELLINGS = [(False, False), (True, False), (False, True), (True, True)]  # (std, generic): order of containerSpellings


def tree_requests(d) -> list[str]:
    """17 request lines: for each option vector the model of `type_hint` and the structural rendering; then the
    decidable hypotheses of the theorems"""
    s = tt.sx(d)
    out = []
    for o in tt.OPTION_VECTORS:
        out.append(f"types.hint {tt.opt_bits(o)} {s}")
        out.append(f"types.hintexpr {tt.opt_bits(o)} {s}")
    out.append(f"types.region {s}")
    return out


N_REQ = 17


def real_side(d) -> dict:
    """everything that is asked of the real code for one tree (runs in the check or in a worker process):
    the 8 hints, the classification of the tree, and Python's view of each hint (normal form of the evaluated
    hint, number of None per union, number of Optional[/Union[ subscriptions)"""
    hints = {o: real_hint(d, o) for o in tt.OPTION_VECTORS}
    trig = triggers(d)
    domain = not (NOT_IR & set(trig))
    evaluable = domain and "literal_special" not in trig
    nfs, nnone, nwrap = {}, {}, {}
    if evaluable:
        for o, (h, _) in hints.items():
            if h == "!exc":
                continue
            nfs[o] = nf_of_hint(h)
            try:
                tree = ast.parse(h, mode="eval").body if h else None
            except SyntaxError:
                tree = None
            if tree is not None:
                nnone[o], nwrap[o] = none_counts(tree), wrapper_subscripts(tree)
    return {"hints": hints, "trig": trig, "domain": domain, "evaluable": evaluable, "nfs": nfs, "nnone": nnone, "nwrap": nwrap}


_probe: Check | None = None


def _worker(ds: list) -> list:
    """real side + the property's oracle on a chunk of trees (same known findings as the check): the classified
    oracle events are returned and replayed by the parent through its own `fail`, so the verdict is formed in one place"""
    global _probe
    if _probe is None:
        _probe = Check("C13", "thorough")
    out = []
    for d in ds:
        r = real_side(d)
        if r["domain"]:
            events = []
            _probe.failures = []
            orig = Check.fail.__get__(_probe)

            def rec(cls, inp, observed, expected="", _orig=orig, _ev=events):
                _ev.append((cls, inp, observed))
                return _orig(cls, inp, observed, expected)

            _probe.fail = rec
            oracle_tree(_probe, Campaign("probe"), d, trig=r["trig"], embed=False)
            r["oracle_events"] = events
            r["oracle_new"] = bool(_probe.failures)
        out.append(r)
    return out


class TreeCampaigns:
    def __init__(self, ck: Check, label: str = "") -> None:
        sfx = f" [{label}]" if label else ""
        self.camp = ck.campaign("types.hint vs DataType(...).type_hint and is_optional afterwards (8 option vectors per tree)" + sfx)
        self.camp2 = ck.campaign("structural rendering: print(hintE) vs the real hint; denote(hintE) vs typing.get_origin/get_args of the evaluated real hint" + sfx)
        self.orc = ck.campaign("oracle on the real hints: parses, evaluates, same normal form in all 8 spellings, no Optional[Optional[, None once, optional keeps alternatives" + sfx)
        self.reg = ck.campaign("hypotheses of the theorems evaluated on every tree (wfTree, freeTree, opRegion) and their conclusions on the real hints: region coverage" + sfx)


def judge_tree(ck: Check, tc: TreeCampaigns, stream: str, d, reps: list[str], real: dict) -> None:
    camp, camp2, orc, reg = tc.camp, tc.camp2, tc.orc, tc.reg
    key = json.dumps(d, sort_keys=True, default=str)
    trig, domain, hints = real["trig"], real["domain"], real["hints"]
    plain_lits = "literal_special" not in trig
    dens = {}
    for n, o in enumerate(tt.OPTION_VECTORS):
        rep, rep2 = reps[2 * n], reps[2 * n + 1]
        if rep2.startswith("ok "):
            dens[o] = unhx(rep2.split(" ")[3])
        camp.evaluations += 1
        impl = hints[o]
        if impl[0] == "!exc":
            camp.unmodelled += 1
            camp.hit("real_raises:" + impl[1])
            continue
        if rep.startswith("ok "):
            _, a, b = rep.split(" ")
            model = (unhx(a), b == "1")
        else:
            model = rep
        camp.hit(f"stream:{stream}")
        if model != impl:
            ck.disagree(camp, {"tree": d, "opts": list(o)}, model, impl)
        elif len(camp.samples) < 3 and tt.size(d) > 2:
            camp.samples.append({"tree": d, "opts": list(o), "hint": impl[0], "is_optional_after": impl[1]})
        # structural rendering (typeHint_eq_print_typing / typeHint_eq_print_operator on the real code)
        if rep2.startswith("ok "):
            _, pe, fl, den, wf = rep2.split(" ")
            camp2.evaluations += 1
            camp2.hit(("wfTree:" if wf == "1" else "not_wfTree:") + ("operator" if o[0] else "typing"))
            if wf == "1":
                if (unhx(pe), fl == "1") != impl:
                    ck.disagree(camp2, {"tree": d, "opts": list(o), "what": "print(hintE) on a wfTree"}, (unhx(pe), fl == "1"), impl)
                elif domain and plain_lits:
                    pyden = real["nfs"][o]
                    if not pyden.startswith("!"):
                        camp2.distinct.add((key, o))
                        camp2.hit("denote_vs_eval:" + ("operator" if o[0] else "typing"))
                        if pyden != unhx(den):
                            ck.disagree(camp2, {"tree": d, "opts": list(o), "hint": impl[0], "what": "denote"}, unhx(den), pyden)
                        elif len(camp2.samples) < 3 and tt.size(d) > 2:
                            camp2.samples.append({"hint": impl[0], "normal_form": pyden})
                    else:
                        camp2.hit("real_hint_does_not_evaluate")
    for t in trig:
        camp.hit("tree:" + t)
    camp.hit(f"size:{min(tt.size(d), 8)}")
    if tt.size(d) > 1:
        camp.distinct.add(key)
    judge_region(ck, reg, d, key, reps[2 * len(tt.OPTION_VECTORS)], real)
    # the property's own oracle, on the trees the property quantifies over
    if domain:
        orc.evaluations += 1
        orc.hit(f"stream:{stream}")
        for t in trig:
            orc.hit("tree:" + t)
        if "oracle_events" in real and not real["oracle_new"]:
            # the oracle ran in a worker process: nothing new; its classified events (known findings) are recorded here
            for cls, inp, observed in real["oracle_events"]:
                ck.fail(cls, inp, observed)
            if not real["oracle_events"]:
                orc.distinct.add(key)
        else:
            oracle_tree(ck, orc, d, dens=dens, trig=trig)
        if len(orc.samples) < 3 and tt.size(d) > 3:
            orc.samples.append({"tree": d, "hints": {tt.opt_bits(o): v[0] for o, v in hints.items()}})


def judge_region(ck: Check, reg, d, key: str, rep: str, real: dict) -> None:
    """The decidable hypotheses of the new theorems on this tree, and — where they hold — the conclusions on the
    REAL hints: none_once_operator, spelling_invariant_operator_partial (per container spelling),
    spelling_invariant_partial (all eight).  A conclusion that fails inside the region is a model/code
    disagreement; outside, how often the real spellings differ shows how tight the region is."""
    reg.evaluations += 1
    if not rep.startswith("ok "):
        ck.disagree(reg, {"tree": d}, rep, "types.region reply")
        return
    _, wf, free, regs, why, rootok = rep.split(" ")
    hints = real["hints"]
    if any(v[0] == "!exc" for v in hints.values()):
        reg.hit("real_raises")
        return
    if wf != "1":
        reg.hit("outside:not_wfTree (a name or literal with [ ] , | or blanks, or an empty node)")
        return
    reg.hit("wfTree")
    inside_all = regs == "1111"
    if inside_all and free == "1":
        reg.hit("region:inside (wfTree and freeTree and opRegionAll): all 8 spellings proved to denote the same")
    elif inside_all:
        reg.hit("region:operator-half only (a name is a container name: not freeTree)")
    else:
        reg.hit("region:outside opRegion")
        if why[0] == "1":
            reg.hit("outside:why:a union member renders as Any")
        if why[1] == "1":
            reg.hit("outside:why:optional member of a union that is itself the list/set/dict (C13-F4)")
        if why[2] == "1":
            reg.hit("outside:why:list/set/dict union of Nones (C13-F3)")
    evaluable, nnone, nwrap = real["evaluable"], real["nnone"], real["nwrap"]
    # none_once_operator / no_optional_wrapper_operator: every wfTree, the four `|` spellings
    for o in tt.OPTION_VECTORS:
        if o[0] and o in nnone:
            reg.hit("checked:none_once_operator")
            if nnone[o] > 1 or nwrap[o]:
                ck.disagree(reg, {"tree": d, "opts": list(o), "theorem": "none_once_operator"}, "None at most once per union, no Optional[/Union[", hints[o][0])
    # the statement vocabulary: rootOK (Lean) vs none_counts (the oracle's) on the real hints
    for bit, o in zip(rootok, (TYPING0, OPERATOR0)):
        if o in nnone:
            py = nnone[o] <= 1
            reg.hit("checked:rootOK_vs_none_counts")
            if py != (bit == "1"):
                ck.disagree(reg, {"tree": d, "opts": list(o), "what": "rootOK vs none_counts"}, bit == "1", py)
    if not evaluable:
        reg.hit("conclusions_not_evaluated (names that are not identifiers / typing names as types)")
        return
    nfs = real["nfs"]
    # spelling_invariant_operator_partial, per container spelling
    differs_somewhere = False
    for k, (std, gen) in enumerate(CONTAINER_SPELLINGS):
        a, b = nfs[(False, std, gen)], nfs[(True, std, gen)]
        if a.startswith("!") or b.startswith("!"):
            reg.hit("instance_not_evaluable")
            continue
        if a != b:
            differs_somewhere = True
        if regs[k] == "1":
            reg.hit("checked:spelling_invariant_operator_partial")
            reg.distinct.add((key, k))
            if a != b:
                ck.disagree(reg, {"tree": d, "container_spelling": [std, gen], "theorem": "spelling_invariant_operator_partial"},
                            "same denotation", f"{hints[(False, std, gen)][0]!r} -> {a}; {hints[(True, std, gen)][0]!r} -> {b}")
    vals = {v for v in nfs.values() if not v.startswith("!")}
    if inside_all and free == "1" and len(vals) == len({*nfs.values()}):
        reg.hit("checked:spelling_invariant_partial")
        if len(vals) > 1:
            ck.disagree(reg, {"tree": d, "theorem": "spelling_invariant_partial"}, "one denotation", sorted(vals))
    if not inside_all:
        reg.hit("outside:real_spellings_differ" if differs_somewhere else "outside:real_spellings_agree")
    if len(reg.samples) < 2 and inside_all and free == "1" and tt.size(d) > 3:
        reg.samples.append({"tree": d, "inside": True, "hints": {tt.opt_bits(o): v[0] for o, v in hints.items()}})


def campaign_trees(ck: Check, n_plain: int, n_adv: int, thorough: bool) -> None:
    tc = TreeCampaigns(ck)
    t0 = time.time()
    cases = list(tree_stream(ck, n_plain, n_adv, thorough))
    reqs = []
    for _, d in cases:
        reqs.extend(tree_requests(d))
    reps = ck.driver.run(reqs)
    t1 = time.time()
    for i, (stream, d) in enumerate(cases):
        judge_tree(ck, tc, stream, d, reps[i * N_REQ : (i + 1) * N_REQ], real_side(d))
    tc.camp.wall_s = t1 - t0
    tc.orc.wall_s = time.time() - t1
    region_note(ck, tc.reg, "seeded trees")


def region_note(ck: Check, reg, label: str) -> None:
    dist = reg.distribution
    ck.notes[f"region coverage ({label})"] = {k: v for k, v in sorted(dist.items()) if k.startswith(("region:", "outside:", "wfTree"))}


def campaign_exhaustive(ck: Check) -> None:
    """Thorough tier: ALL trees of depth ≤ 3 over the six-atom vocabulary (121 806) and ALL fully decorated trees of
    depth ≤ 2 (36 660), in all 8 spellings.  The real side and the oracle run in worker processes; the model side is
    one driver batch per chunk; every comparison happens here."""
    from concurrent.futures import ProcessPoolExecutor

    tc = TreeCampaigns(ck, "exhaustive small scope")
    t0 = time.time()
    chunk, workers = 1500, max(2, min(14, (os.cpu_count() or 4) - 2))
    for stream, gen in (("exhaustive_depth3", tt.exhaustive_depth3), ("exhaustive_depth2_decorated", tt.exhaustive_depth2)):
        trees = list(gen())
        chunks = [trees[i : i + chunk] for i in range(0, len(trees), chunk)]
        with ProcessPoolExecutor(max_workers=workers) as pool:
            futures = [pool.submit(_worker, c) for c in chunks]
            for c, fut in zip(chunks, futures):
                reqs = []
                for d in c:
                    reqs.extend(tree_requests(d))
                reps = ck.driver.run(reqs)
                reals = fut.result()
                for i, (d, real) in enumerate(zip(c, reals)):
                    judge_tree(ck, tc, stream, d, reps[i * N_REQ : (i + 1) * N_REQ], real)
        tc.reg.hit(f"trees:{stream}", len(trees))
    tc.camp.wall_s = time.time() - t0
    region_note(ck, tc.reg, "exhaustive small scope")


def campaign_field(ck: Check, n: int) -> None:
    from datamodel_code_generator.model.base import DataModelFieldBase
    from datamodel_code_generator.model.typed_dict import DataModelField as TDField
    from datamodel_code_generator.model.typed_dict import TypedDict
    from datamodel_code_generator.reference import Reference

    camp = ck.campaign("types.field vs DataModelFieldBase.type_hint and the TypedDict member (NotRequired) on top of it")
    t0 = time.time()
    rng = ck.rng.fork("field")
    cases = []
    for _ in range(n):
        d = tt.random_tree(rng, max_depth=rng.choice([1, 2, 2, 3]), adversarial=rng.chance(1, 5))
        o = rng.choice(tt.OPTION_VECTORS)
        fb = {
            "default_factory": rng.chance(1, 8),
            "nullable": rng.choice([None, None, True, False]),
            "required": rng.chance(1, 2),
            "type_has_null": rng.choice([None, None, True, False]),
            "typed_dict": rng.chance(1, 3),
        }
        cases.append((d, o, fb))
    reqs = []
    for d, o, fb in cases:
        fall_back = not (fb["typed_dict"] and not fb["required"])
        nl = "-" if fb["nullable"] is None else ("1" if fb["nullable"] else "0")
        bits = f"({1 if fb['default_factory'] else 0} {nl} {1 if fb['required'] else 0} {1 if fb['type_has_null'] else 0} {1 if fall_back else 0})"
        reqs.append(f"types.field {tt.opt_bits(o)} {bits} {tt.sx(d)}")
        reqs.append(f"types.fieldinv {tt.opt_bits(o)} {bits} {tt.sx(d)}")
    reps2 = ck.driver.run(reqs)
    reps, finv = reps2[0::2], reps2[1::2]
    thm = ck.campaign("field_no_double_optional_partial / no_double_optional_typing_partial on IR trees: hypotheses (wfTree, anyContPlain, optRegion) by the driver, conclusion on the REAL DataModelFieldBase.type_hint; noDbl vs the oracle's substring test")
    for (d, o, fb), rep, rfi in zip(cases, reps, finv):
        camp.evaluations += 1
        try:
            dt = tt.build(d, o)
            kw = dict(name="f", data_type=dt, required=fb["required"], nullable=fb["nullable"], type_has_null=fb["type_has_null"],
                      extras={"default_factory": "list"} if fb["default_factory"] else {})
            if fb["typed_dict"]:
                f = TDField(**kw)
                TypedDict(reference=Reference(path="#/T", name="T"), fields=[f])
                impl = f.type_hint
                if not fb["required"]:
                    assert impl.startswith("NotRequired[") and impl.endswith("]"), impl
                    impl = impl[len("NotRequired[") : -1]
            else:
                impl = DataModelFieldBase(**kw).type_hint
        except Exception as e:  # noqa: BLE001
            camp.unmodelled += 1
            camp.hit("real_raises:" + type(e).__name__)
            continue
        model = unhx(rep.split(" ")[1]) if rep.startswith("ok ") else rep
        branch = ("default_factory" if fb["default_factory"] else "nullable" if fb["nullable"] is not None else "required" if fb["required"] else "fallback" if not (fb["typed_dict"]) else "not_required")
        camp.hit("decision:" + branch)
        camp.distinct.add((json.dumps(d, sort_keys=True, default=str), o, json.dumps(fb, sort_keys=True)))
        if model != impl:
            ck.disagree(camp, {"tree": d, "opts": list(o), "field": fb}, model, impl)
        elif len(camp.samples) < 2:
            camp.samples.append({"tree": d, "opts": list(o), "field": fb, "hint": impl})
        # the theorem on this case: hypotheses evaluated by the driver, conclusion looked up on the real hint
        if rfi.startswith("ok "):
            _, hyp, pe, nd, nd_type = rfi.split(" ")
            thm.evaluations += 1
            dbl = "Optional[Optional[" in impl
            if hyp[0] == "1" and unhx(pe) == impl:
                thm.hit("checked:noDbl_vs_substring")
                if (nd == "1") == dbl:
                    ck.disagree(thm, {"tree": d, "opts": list(o), "field": fb, "what": "noDbl (Lean) vs 'Optional[Optional[' in the real hint"}, nd == "1", not dbl)
            if not o[0]:
                if hyp == "111":
                    thm.hit("inside: wfTree, anyContPlain, optRegion")
                    thm.distinct.add((json.dumps(d, sort_keys=True, default=str), o, json.dumps(fb, sort_keys=True)))
                    if dbl:
                        ck.disagree(thm, {"tree": d, "opts": list(o), "field": fb, "theorem": "field_no_double_optional_partial"}, "no Optional[Optional[ in the field's hint", impl)
                    elif len(thm.samples) < 2 and tt.size(d) > 2:
                        thm.samples.append({"tree": d, "opts": list(o), "field": fb, "hint": impl})
                else:
                    why = ("" if hyp[0] == "1" else " not wfTree") + ("" if hyp[1] == "1" else " not anyContPlain (C13-F5)") + ("" if hyp[2] == "1" else " not optRegion (C13-F2)")
                    thm.hit("outside:" + why)
                    if hyp[0] == "1":
                        thm.hit(("outside, real hint has a double Optional:" if dbl else "outside, real hint has none:") + why)
    camp.wall_s = time.time() - t0
    ck.notes["field theorem coverage (IR trees)"] = {k: v for k, v in sorted(thm.distribution.items())}
    # the property's own oracle one level up: the annotation of the FIELD in all 8 spellings
    orc = ck.campaign("oracle on the field annotations (DataModelFieldBase.type_hint / TypedDict member): well-formed and the same type in all 8 spellings")
    t1 = time.time()
    for d, _, fb in cases:
        trig = triggers(d)
        if NOT_IR & set(trig):
            continue
        orc.evaluations += 1
        orc.hit("decision:" + ("default_factory" if fb["default_factory"] else "nullable" if fb["nullable"] is not None else "required" if fb["required"] else "fallback" if not fb["typed_dict"] else "not_required"))
        oracle_field(ck, orc, d, fb, trig=trig)
    orc.wall_s = time.time() - t1


N = tt.node
CORPUS = [
    N(kids=[N(lits=["[", "x"]), N(ty="int")], opt=True),
    N(kids=[N(lits=["a  |  b"]), N(ty="int")], opt=True),
    N(kids=[N(ty="int", opt=True)], opt=True),
    N(kids=[N(ty="int", opt=True), N(ty="str")], opt=True),
    N(kids=[N(ty="None"), N(ty="None")]),
    N(kids=[N(ty="None"), N(ty="None")], list_=True),
    N(kids=[N(ty="int"), N(ty="None"), N(ty="str")], list_=True, opt=True),
    N(kids=[N(kids=[N(ty="int"), N(ty="None")]), N(ty="str")], dict_=True, key=N(ty="int", opt=True)),
    N(kids=[N(ty="Any", opt=True), N(ty="int")]),
    N(kids=[N(ty="Any", opt=True), N(ty="Any")]),
    N(ty="Any", opt=True, list_=True),
    N(dict_=True),
    N(dict_=True, key=N(ty="str")),
    N(kids=[N(), N(ty="int")]),
    N(ref={"name": "a.b.Pet", "nullable": True}, list_=True),
    N(kids=[N(ty="int"), N(ty="int")]),
    N(kids=[N(ty="List"), N(list_=True)]),
    # literal values with characters the two None removals must not read: commas (harmless on the pinned code),
    # an unpaired bracket in the | spelling (harmless there), nested under a container
    N(kids=[N(lits=["a,b", "x ,y"]), N(ty="int")], opt=True),
    N(kids=[N(ty="int"), N(lits=["x[", "y"]), N(ty="bool")], opt=True),
    N(kids=[N(kids=[N(lits=[",", "p ,  q"]), N(ty="str")], opt=True), N(ty="int")], list_=True),
    N(kids=[N(lits=["]", "k"]), N(ty="int"), N(ty="None")], dict_=True),
]


def search_from_disagreements(ck: Check) -> None:
    """A correspondence broke: the inputs on which model and code disagree are the first candidates — put each
    disagreeing tree (and field) through the property's own oracle; then targeted families around the two string
    surgeries: unions with literal values containing , [ ] | and blanks, optional / nested / in containers."""
    camp = ck.campaign("search: disagreeing inputs and targeted literal unions through the oracle")
    seen = set()
    for dis in list(ck.disagreements):
        inp = dis.input if isinstance(dis.input, dict) else {}
        d = inp.get("tree")
        if d is None:
            continue
        k = json.dumps([d, inp.get("field")], sort_keys=True, default=str)
        if k in seen or len(seen) > 200:
            continue
        seen.add(k)
        camp.evaluations += 1
        if inp.get("field") is not None:
            oracle_field(ck, camp, d, inp["field"])
        else:
            oracle_tree(ck, camp, d, dens=model_dens(ck, d))
        if ck.failures:
            return
    vals = ["a,b", "x ,y", ",", "p ,  q", "x[", "]", "[]", "a|b", "u | v", "m  |  n", "None | z", "w"]
    others = [[N(ty="int")], [N(ty="int"), N(ty="bool")], [N(ty="str", opt=True)], [N(ty="None"), N(ty="int")]]
    for v in vals:
        for w in ("k", v):
            for rest in others:
                for first in (True, False):
                    lit = N(lits=[v] if w == v else [v, w])
                    kids = [lit] + rest if first else rest[:1] + [lit] + rest[1:]
                    for shape in (N(kids=kids), N(kids=kids, opt=True), N(kids=[N(kids=kids, opt=True)], list_=True), N(kids=[N(kids=kids), N(ty="float", opt=True)])):
                        camp.evaluations += 1
                        oracle_tree(ck, camp, shape, dens=model_dens(ck, shape))
                        if ck.failures:
                            return
    # fields: the decision on top of the type, every small tree × the field settings
    for d in tt.small_scope(2):
        for fb in FIELD_SETTINGS:
            camp.evaluations += 1
            oracle_field(ck, camp, d, fb)
            if ck.failures:
                return


FIELD_SETTINGS = [
    {"default_factory": False, "nullable": nl, "required": rq, "type_has_null": tn, "typed_dict": td}
    for nl in (None, True, False) for rq in (False, True) for tn in (None, True) for td in (False, True)
]


def search_trees(ck: Check) -> None:
    """A correspondence or a theorem broke: small-scope enumeration through the property's oracle."""
    camp = ck.campaign("search: all small trees (depth ≤ 3) through the oracle")
    for d in tt.small_scope(3):
        camp.evaluations += 1
        oracle_tree(ck, camp, d)
        if ck.failures:
            return
    rng = ck.rng.fork("search")
    for _ in range(3000):
        d = tt.random_tree(rng, max_depth=3)
        if in_ir_domain(d):
            camp.evaluations += 1
            oracle_tree(ck, camp, d)
            if ck.failures:
                return


def known_findings(ck: Check) -> None:
    for f in ck.findings:
        probe = Check(ck.prop, ck.tier)
        probe.findings = []
        camp = probe.campaign("witness")
        d = f["witness"]["tree"]
        if f["witness"].get("field") is not None:
            oracle_field(probe, camp, d, f["witness"]["field"], embed=False)
        else:
            oracle_tree(probe, camp, d, dens=model_dens(ck, d), embed=False)
        if probe.failures:
            ck.known(f["id"], f["what"])


def run(ck: Check) -> None:
    quick = ck.tier == "quick"
    ck.prove()
    ck.assumptions += [
        "typing semantics are stated by Dcg/Sem/Typing.lean (denote); validated in this run against eval + typing.get_origin/get_args of the real hints",
        "repr() of literal values is Python's; the model receives the repr text",
        "the three spelling options are uniform over a tree (they are class-level defaults of the DataType class a DataTypeManager creates)",
        "is_func/kwargs (call syntax of constrained types) and DataType.alias are outside the model",
        "re \\s and str.strip() are modelled by Model.Types.isSpace (validated over all code points in this run)",
    ]
    campaign_isspace(ck)
    campaign_strings(ck, 1500 if quick else 20000)
    campaign_trees(ck, 1500 if quick else 6000, 400 if quick else 3000, thorough=not quick)
    if not quick:
        campaign_exhaustive(ck)
    campaign_field(ck, 600 if quick else 6000)
    from . import c13_e2e  # (imports this module)

    ck.assumptions.append("end to end: the documents are the family of vlib/props/c13_e2e.py (nullable type lists / anyOf / oneOf with null over scalars, free-form and typed containers, references; alone, as union alternatives, as items / values; JSON Schema and OpenAPI 3.1; 4 model kinds); the stage-1 trees are read at the end of the real parse_raw()")
    c13_e2e.campaign_e2e(ck, 25 if quick else 300)
    ck.search_hooks.append(lambda ck: c13_e2e.campaign_e2e(ck, 150, fork="e2e-search", label="search"))
    from . import c13_bridge

    ck.assumptions.append("composition with C03's stage 1: class names are a parameter of Model.TreeBridge.toDT (position tokens, mapped to the names the real parser chose); const and constrained scalar types (call syntax) are outside the bridge")
    c13_bridge.campaign_bridge(ck, 30 if quick else 400)
    ck.search_hooks.append(c13_bridge.search)
    ck.search_hooks.append(search_from_disagreements)
    ck.search_hooks.append(search_trees)
    known_findings(ck)


def replay(ck: Check, path: str) -> int:
    data = json.loads(open(path).read())
    inp = data.get("input") or {}
    camp = ck.campaign("replay")
    if "document" in inp and "input_file_type" in inp:
        from . import c13_e2e

        c13_e2e.replay_document(ck, inp)
    elif "tree" in inp and inp.get("field") is not None:
        oracle_field(ck, camp, inp["tree"], inp["field"])
    elif "tree" in inp:
        oracle_tree(ck, camp, inp["tree"], dens=model_dens(ck, inp["tree"]))
    for f in ck.failures:
        print("REPLAY-FAILS:", json.dumps(f.classification), f.observed[:300])
    if not ck.failures:
        print("replay: the oracle does not fail on this input")
    return 1 if ck.failures else 0
