"""C07 — member names are legal identifiers and wire names are preserved."""
from __future__ import annotations

import contextlib
import dataclasses
import json
import keyword
import time
import unicodedata
import warnings
from dataclasses import dataclass
from typing import Any

from .. import e2e, gens
from ..common import Hang, Rng, hx, unhx, watchdog
from ..runner import Check
from . import c07_discr_obs as _discr_obs

# the pass-through wrapper around Parser.__apply_discriminator_type must be in place BEFORE the first generate() of the
# process: CPython 3.12.1 keeps calling the function it saw first at that (name-mangled) call site when the class
# attribute is replaced later (observed; the wrapper records only while c07_discr observes a run)
_discr_obs._install()
from ..translate import enum_sites
from ..translate import unicode as uni

KIND_NAMES = ["base", "pydantic", "enum"]


def resolver_classes():
    from datamodel_code_generator import reference as R

    return {"base": R.FieldNameResolver, "pydantic": R.PydanticFieldNameResolver, "enum": R.EnumFieldNameResolver}


class Refused(Exception):
    """the resolver's constructor refused the option vector with the package's own `Error` (a reported error)"""


def make_resolver(kind: str, cfg: "Cfg"):
    from datamodel_code_generator import Error

    try:
        return resolver_classes()[kind](**cfg.kwargs())
    except Error as e:
        raise Refused(str(e)) from e


# ---------------------------------------------------------------- option vectors
@dataclass(frozen=True)
class Cfg:
    empty: str | None = None
    snake: bool = False
    delim: str | None = None
    pfx: str | None = None
    remove: bool = False
    cap: bool = False
    noalias: bool = False
    aliases: tuple = ()

    def kwargs(self) -> dict[str, Any]:
        return dict(
            aliases=dict(self.aliases) or None,
            snake_case_field=self.snake,
            empty_field_name=self.empty,
            original_delimiter=self.delim,
            special_field_name_prefix=self.pfx,
            remove_special_field_name_prefix=self.remove,
            capitalise_enum_members=self.cap,
            no_alias=self.noalias,
        )

    def sx(self) -> str:
        b = lambda v: "1" if v else "0"  # noqa: E731
        al = " ".join(f"({hx(k)} {hx(v)})" for k, v in self.aliases)
        return (
            f"({hx(self.empty or '')} {b(self.snake)} {'none' if self.delim is None else hx(self.delim)} "
            f"{hx('field' if self.pfx is None else self.pfx)} {b(self.remove)} {b(self.cap)} {b(self.noalias)} ({al}))"
        )

    def label(self) -> str:
        d = {k: v for k, v in dataclasses.asdict(self).items() if v not in (None, False, ())}
        return json.dumps(d, ensure_ascii=True, sort_keys=True) if d else "default"

    def prefix_ok(self) -> bool:
        p = "field" if self.pfx is None else self.pfx
        return p.isidentifier() and not p.startswith("_")

    def prefix_start(self) -> bool:
        """the guard of the resolver's constructor (Lean: PrefixStart): the prefix is empty or starts an identifier"""
        p = "field" if self.pfx is None else self.pfx
        return (p + "_").isidentifier()

    def uses_lower(self, ign: bool = False) -> bool:
        return self.cap or (self.snake and not ign)


CFGS = [
    Cfg(),
    Cfg(snake=True),
    Cfg(snake=True, delim="-"),
    Cfg(remove=True),
    Cfg(remove=True, pfx="x9"),
    Cfg(cap=True),
    Cfg(cap=True, snake=True, remove=True, delim="_"),
    Cfg(pfx=""),
    Cfg(pfx="_p", remove=True),
    Cfg(empty="empty"),
    Cfg(empty="#", remove=True),
    Cfg(empty="1", noalias=True),
    Cfg(noalias=True, snake=True),
    Cfg(snake=True, delim=""),
    Cfg(snake=True, delim="ab"),
    Cfg(pfx="é"),
]
# special prefixes that cannot start an identifier: the constructor of the resolver must REFUSE them (formerly finding
# D22: the retry loop diverged). Short time-out: a resolver that accepts one of them hangs on the first name.
CFGS_BAD_PREFIX = [Cfg(pfx="9"), Cfg(pfx="a-b", remove=True), Cfg(pfx=" ", snake=True), Cfg(pfx="x.y", cap=True)]
# prefixes the constructor admits although PrefixOK fails (empty, leading underscore): termination and legality are proved
# for them too (retry_terminates / result_legal under PrefixStart)
CFGS_WEAK_PREFIX = [Cfg(pfx="", remove=True), Cfg(pfx="_"), Cfg(pfx="_", remove=True), Cfg(pfx="__x", remove=True, snake=True),
                    Cfg(pfx="_X", cap=True), Cfg(pfx="", snake=True, delim="-"), Cfg(pfx="_9", remove=True, cap=True)]


# ---------------------------------------------------------------- name generators
SUPERS = list("¹²³⁴⁹⁰")
CASE_SPECIAL = ["İ", "ß", "ŉ", "Σ", "ǅ", "ΐ", "ﬁ", "ı", "ſ", "K"]
G_ASCII = list("abcxyzABCZ0189_")
G_PUNCT = list("#-. $+/@:'\"\\\n")
G_CAMEL = ["fooBar", "HTTPServer", "aB1C", "snake_case", "XMLHttp2Request", "aBc", "ABc", "a1B", "Ab", "_Ab", "x_Y"]
G_WORDS = ["mro", "mro_", "name", "value", "class", "None", "def", "copy", "schema", "json", "dict", "model_config",
           "model_fields", "__init__", "__class__", "_x", "__", "___", "_1", "_3D", "self", "field", "field_", "field_1",
           "class_", "copy_", "register", "validate", "construct", "True", "match", "type", "_", "#", "##", "#_", "#1"]


def uni_groups() -> list[list[str]]:
    reps = uni.class_representatives()
    by_sig = [v for _, v in sorted(reps.items())]
    return by_sig + [gens.NONASCII, SUPERS, CASE_SPECIAL]


def gen_name(rng: Rng, ugroups: list[list[str]], max_units: int = 5) -> str:
    n = rng.below(max_units + 1)
    parts = []
    for _ in range(n):
        g = rng.below(10)
        if g < 3:
            parts.append(rng.choice(G_ASCII))
        elif g < 4:
            parts.append(rng.choice(G_PUNCT))
        elif g < 5:
            parts.append(rng.choice(G_CAMEL))
        elif g < 6:
            parts.append(rng.choice(G_WORDS))
        elif g < 7:
            parts.append(rng.choice(keyword.kwlist) if rng.chance(1, 2) else rng.choice(uni.reserved()))
        else:
            parts.append(rng.choice(rng.choice(ugroups)))
    return "".join(parts)


# one representative of every class on which \w / isidentifier / isnumeric / case disagree
SMALL_ALPHABET = ["a", "B", "1", "_", "#", "-", "⁰", "·", "ำ", "Ⅷ", "٣", "é", "²", "ʰ"]


def small_scope(max_len: int) -> list[str]:
    out = [""]
    layer = [""]
    for _ in range(max_len):
        layer = [p + s for p in layer for s in SMALL_ALPHABET]
        out += layer
    return out


# ---------------------------------------------------------------- real side
def real_valid(kind: str, cfg: Cfg, name: str, excl, ign: bool, uc: bool, timeout: float = 2.0) -> str:
    try:
        res = make_resolver(kind, cfg)
    except Refused:
        return "rejected"
    try:
        with watchdog(timeout):
            r = res.get_valid_name(name, None if excl is None else set(excl), ign, uc)
        return "ok " + hx(r)
    except Hang:
        return "fuel"
    except (ValueError, IndexError):
        return "error"


def real_field(kind: str, cfg: Cfg, name: str, excl, timeout: float = 2.0) -> str:
    try:
        res = make_resolver(kind, cfg)
    except Refused:
        return "rejected"
    try:
        with watchdog(timeout):
            f, a = res.get_valid_field_name_and_alias(name, None if excl is None else set(excl))
        return f"ok {hx(f)} {'none' if a is None else hx(a)}"
    except Hang:
        return "fuel"
    except (ValueError, IndexError):
        return "error"


def sx_list(strs) -> str:
    return "(" + " ".join(hx(s) for s in strs) + ")"


def has_final_sigma_issue(s: str) -> bool:
    return "".join(c.lower() for c in s) != s.lower()


# ---------------------------------------------------------------- campaigns: Dcg/Py validation
def campaign_chars(ck: Check, n_random: int) -> None:
    camp = ck.campaign("chars.class (Dcg/Py/Chars over Gen/Unicode) vs str.isidentifier / re \\w / isnumeric / lower / upper")
    t0 = time.time()
    rng = ck.rng.fork("chars")
    chars = [chr(i) for i in range(0x250)]
    for g in uni_groups():
        chars += g
    cm = uni.case_maps()
    chars += [chr(c) for c, s in cm["upperMap"] if len(s) > 1] + [chr(c) for c, s in cm["lowerMap"] if len(s) > 1]
    for a, b in [r for t in uni.tables().values() for r in rng.sample(t, 40)]:
        chars += [chr(a), chr(b)] + [chr(x) for x in (a - 1, b + 1) if 0 <= x < 0x110000 and not 0xD800 <= x <= 0xDFFF]
    while len(chars) < 0x250 + n_random:
        i = rng.below(0x30000) if rng.chance(9, 10) else rng.below(0x110000)
        if not 0xD800 <= i <= 0xDFFF:
            chars.append(chr(i))
    import re

    w = re.compile(r"\w")
    replies = ck.driver.run([f"chars.class {hx(c)}" for c in chars])
    for c, rep in zip(chars, replies):
        camp.evaluations += 1
        flags = "".join("1" if v else "0" for v in (c.isidentifier(), ("a" + c).isidentifier(), w.match(c) is not None, c.isnumeric()))
        impl = f"ok {flags} {hx(c.lower())} {hx(c.upper())}"
        camp.hit("flags:" + flags)
        if ord(c) > 127:
            camp.distinct.add(c)
        if rep != impl:
            ck.disagree(camp, {"char": f"U+{ord(c):04X}"}, rep, impl)
        elif len(camp.samples) < 2 and ord(c) > 0x2000:
            camp.samples.append({"char": f"U+{ord(c):04X}", "reply": rep})
    camp.wall_s = time.time() - t0


def campaign_ident(ck: Check, names: list[str]) -> None:
    camp = ck.campaign("ident.is (Dcg/Py/Ident) vs str.isidentifier / keyword.iskeyword / hasattr(pydantic.BaseModel)")
    t0 = time.time()
    from pydantic import BaseModel

    pool = list(dict.fromkeys(names + list(keyword.kwlist) + uni.reserved() + [k + "_" for k in keyword.kwlist]
                              + [r + "_" for r in uni.reserved()] + list(keyword.softkwlist)))
    replies = ck.driver.run([f"ident.is {hx(s)}" for s in pool])
    b = lambda v: "1" if v else "0"  # noqa: E731
    for s, rep in zip(pool, replies):
        camp.evaluations += 1
        with warnings.catch_warnings():
            warnings.simplefilter("ignore")
            try:
                res = hasattr(BaseModel, s)
            except Exception:  # noqa: BLE001
                res = False
        impl = f"ok {b(s.isidentifier())} {b(keyword.iskeyword(s))} {b(res)}"
        camp.hit("identifier" if s.isidentifier() else "not_identifier")
        if keyword.iskeyword(s):
            camp.hit("keyword")
        if res:
            camp.hit("reserved")
        camp.distinct.add(s)
        if rep != impl:
            ck.disagree(camp, {"s": s}, rep, impl)
    camp.samples.append({"s": pool[0], "reply": replies[0]})
    camp.wall_s = time.time() - t0


# ---------------------------------------------------------------- campaign: get_valid_name
def campaign_valid(ck: Check, names: list[str], label: str, cfgs: list[Cfg], chain: int = 3, timeout: float = 1.0) -> None:
    camp = ck.campaign(f"names.valid (Model.Names.getValidName) vs the three real resolvers' get_valid_name [{label}]")
    t0 = time.time()
    rng = ck.rng.fork("valid" + label)
    cases = []
    hangs = 0
    for name in names:
        if hangs > 8 and timeout > 0.3:
            break  # the real function hangs on many inputs: enough evidence, do not spend the budget on time-outs
        for kind in KIND_NAMES:
            for cfg in cfgs:
                ign = rng.chance(1, 8)
                uc = rng.chance(1, 8)
                # excludes chain: each result is added to the excludes of the next call (drives the retry loop)
                excl: list[str] = []
                if rng.chance(1, 3):
                    excl = [rng.choice(G_WORDS)]
                for step in range(chain if rng.chance(1, 2) else 1):
                    impl = real_valid(kind, cfg, name, excl if (excl or step) else None, ign, uc, timeout)
                    cases.append((kind, cfg, name, list(excl), ign, uc, impl))
                    if not impl.startswith("ok "):
                        hangs += impl == "fuel"
                        break
                    if not cfg.prefix_ok():
                        camp.hit("prefix:admitted_but_not_PrefixOK")
                    excl = excl + [unhx(impl[3:])]
    reqs = [f"names.valid {k} {c.sx()} {hx(n)} {sx_list(e)} {int(i)} {int(u)}" for k, c, n, e, i, u, _ in cases]
    replies = ck.driver.run(reqs)
    for (kind, cfg, name, excl, ign, uc, impl), rep in zip(cases, replies):
        camp.evaluations += 1
        inp = {"kind": kind, "cfg": cfg.label(), "name": name, "excludes": excl, "ignore_snake": ign, "upper_camel": uc,
               "cfg_fields": dataclasses.asdict(cfg)}
        if cfg.uses_lower(ign) and "Σ" in name:
            camp.unmodelled += 1  # final-sigma context rule of str.lower()
            continue
        camp.hit("kind:" + kind)
        camp.hit("result:" + impl.split(" ")[0])
        camp.hit("excludes:" + str(min(len(excl), 3)))
        if impl.startswith("ok "):
            r = unhx(impl[3:])
            camp.hit("renamed" if r != name else "unchanged")
            if r != name:
                camp.distinct.add((kind, cfg.label(), name, tuple(excl), ign, uc))
            oracle_name(ck, camp, kind, cfg, inp, r, excl, uc)
        elif impl == "fuel":
            ck.fail({"oracle": "get_valid_name", "mechanism": "hang", "prefix_ok": cfg.prefix_ok(),
                     "prefix_start": cfg.prefix_start()}, inp, f"get_valid_name did not return within {timeout}s")
        elif impl == "rejected":
            # the constructor refused the option vector with the package's Error: a reported error, nothing to sanitise
            camp.distinct.add((kind, cfg.label()))
        if rep != impl:
            ck.disagree(camp, inp, rep if not rep.startswith("ok ") else "ok " + repr(unhx(rep[3:])),
                        impl if not impl.startswith("ok ") else "ok " + repr(unhx(impl[3:])))
        elif len(camp.samples) < 3 and impl.startswith("ok ") and excl and not name.isascii():
            camp.samples.append({**inp, "result": unhx(impl[3:])})
    camp.wall_s = time.time() - t0


# ---------------------------------------------------------------- campaign: the constructor's guard on the special prefix
PREFIX_CORPUS = [None, "", "field", "_", "__", "_x", "_9", "x9", "é", "class", "None", "9", "0", "a-b", " ", "a b", "x.y", "-", "#",
                 "²", "x²", "·", "x·", "·x", "٣", "x٣", "Ⅷ", "ำ", "xำ", "ʰ", "\u00aa", "x\n", "\n", "９", "x９", "ｘ", "\x00", "x\x00", "𝟗", "x𝟗",
                 "\u200c", "x\u200c", "\ufe0f", "℘", "℮", "゛", "x゛"]
PREFIX_PROBE_NAMES = ["1", "_", "a"]


def gen_prefix(rng: Rng, ugroups: list[list[str]]) -> str:
    """mostly short strings over the characters on which isidentifier / XID_Start / XID_Continue disagree"""
    n = 1 + rng.below(3)
    out = []
    for _ in range(n):
        g = rng.below(10)
        if g < 3:
            out.append(rng.choice(G_ASCII))
        elif g < 4:
            out.append(rng.choice(G_PUNCT))
        elif g < 5:
            out.append(rng.choice(SMALL_ALPHABET))
        else:
            out.append(rng.choice(rng.choice(ugroups)))
    return "".join(out)


def real_new(kind: str, pfx: str | None) -> str:
    try:
        res = make_resolver(kind, Cfg(pfx=pfx))
    except Refused:
        return "rejected"
    return "ok " + hx(res.special_field_name_prefix)


def prefix_hangs(kind: str, pfx: str | None, timeout: float = 0.25) -> str | None:
    """a name on which the real resolver built with this prefix does not return, if any"""
    for name in PREFIX_PROBE_NAMES:
        for remove in (False, True):
            if real_valid(kind, Cfg(pfx=pfx, remove=remove), name, None, False, False, timeout) == "fuel":
                return name
    return None


def campaign_constructor(ck: Check, n: int) -> None:
    """Model.Names.construct (PrefixStart) vs the constructors of the three resolver classes: which prefixes are refused, and what is
    stored otherwise. Oracle of the property on the real side: a resolver that EXISTS returns from get_valid_name."""
    camp = ck.campaign("names.new (Model.Names.construct / PrefixStart) vs the constructors of the three resolver classes over special_field_name_prefix")
    t0 = time.time()
    rng = ck.rng.fork("constructor")
    ug = uni_groups()
    pool = list(dict.fromkeys(PREFIX_CORPUS + [gen_prefix(rng, ug) for _ in range(n)]))
    replies = ck.driver.run([f"names.new {'none' if p is None else hx(p)}" for p in pool])
    hangs = 0
    for p, rep in zip(pool, replies):
        for kind in KIND_NAMES:
            camp.evaluations += 1
            impl = real_new(kind, p)
            inp = {"kind": kind, "special_field_name_prefix": p, "cfg_fields": dataclasses.asdict(Cfg(pfx=p))}
            start = ((("field" if p is None else p) + "_").isidentifier())
            camp.hit("constructor:" + impl.split(" ")[0])
            camp.hit("prefix:" + ("none" if p is None else "empty" if p == "" else "leading_underscore" if p.startswith("_")
                                  else "identifier" if p.isidentifier() else "starts_identifier" if start else "cannot_start_identifier"))
            if p not in (None, "field"):
                camp.distinct.add((kind, p))
            if impl != "rejected" and not start and hangs < 4:
                # the property's own oracle: the resolver exists, so its get_valid_name must return
                name = prefix_hangs(kind, p)
                if name is not None:
                    hangs += 1
                    cfg = Cfg(pfx=p)
                    ck.fail({"oracle": "get_valid_name", "mechanism": "hang", "prefix_ok": False, "prefix_start": False},
                            {"kind": kind, "cfg": cfg.label(), "name": name, "excludes": [], "ignore_snake": False, "upper_camel": False,
                             "cfg_fields": dataclasses.asdict(cfg)},
                            f"the constructor accepted special_field_name_prefix={p!r} and get_valid_name({name!r}) did not return within 0.25 s")
            if rep != impl:
                ck.disagree(camp, inp, rep if not rep.startswith("ok ") else "ok " + repr(unhx(rep[3:])),
                            impl if not impl.startswith("ok ") else "ok " + repr(unhx(impl[3:])))
            elif len(camp.samples) < 3 and impl == "rejected" and kind == "enum":
                camp.samples.append({"special_field_name_prefix": p, "kind": kind, "constructor": "raises Error"})
    camp.wall_s = time.time() - t0


def search_prefix(ck: Check) -> None:
    """Targeted search when the constructor's guard disagrees with the model (or a theorem about it broke): every prefix of a
    disagreement and the corpus of prefixes that cannot start an identifier become the option of a COMPLETE run of generate() on a
    document whose member needs the prefix; the end-to-end oracle requires termination (a reported error is fine)."""
    dis = [d.input for d in ck.disagreements if isinstance(d.input, dict) and "special_field_name_prefix" in d.input]
    broken = any(("constructor" in t) or ("retry_terminates" in t) or ("resolver_never_hangs" in t) or ("prefixStart" in t) for t in ck.broken)
    if not dis and not broken:
        return
    camp = ck.campaign("search: special prefixes of disagreeing constructor calls as the option of a complete run, end to end")
    prefixes = list(dict.fromkeys([d["special_field_name_prefix"] for d in dis][:12]
                                  + [p for p in PREFIX_CORPUS if p is not None and not (p + "_").isidentifier()][:10]))
    for p in prefixes:
        if p is None:
            continue
        for model in ("pydantic_v2.BaseModel", "typing.TypedDict"):
            for names in (["1"], ["_", "a"]):
                e2e_case(ck, camp, names, Cfg(pfx=p), model, timeout=3.0)
                if ck.failures:
                    return


def _enum_reserved(r: str) -> bool:
    from . import enum_callers

    return enum_callers.enum_reserved(r)


_RESOLVER_EXCLUDES: list[str] | None = None


def _mro_reserved_for_call(excl: list[str]) -> bool:
    """`mro` is reserved for one call of the enum resolver when the caller's excludes hold it or the resolver adds it by itself
    (read off the source, Gen/EnumSites); a caller that relies on neither is a matter of the CALL SITE (C09's enum_call_sites_reviewed
    and the enum documents at every caller, enum_callers.campaign_names), not of this call"""
    global _RESOLVER_EXCLUDES
    if _RESOLVER_EXCLUDES is None:
        _RESOLVER_EXCLUDES = enum_sites.resolver_facts()["excludes"]
    return "mro" in excl or "mro" in _RESOLVER_EXCLUDES


def oracle_name(ck: Check, camp, kind: str, cfg: Cfg, inp: dict, r: str, excl: list[str], uc: bool) -> None:
    """C07's statement about one result of the real get_valid_name (function level)."""
    base = {"oracle": "get_valid_name", "kind": kind, "prefix_ok": cfg.prefix_ok()}
    if not r.isidentifier() or keyword.iskeyword(r):
        ck.fail({**base, "mechanism": "illegal_identifier"}, inp, f"result {r!r} is not a legal non-keyword identifier")
    elif r in excl:
        ck.fail({**base, "mechanism": "not_unique"}, inp, f"result {r!r} is one of the excluded names")
    elif kind == "enum" and ((r == "mro" and _mro_reserved_for_call(excl)) or (r != "mro" and cfg.prefix_ok() and _enum_reserved(r))):
        ck.fail({**base, "mechanism": "reserved"}, inp,
                f"enum member name {r!r} is reserved by enum.Enum (attribute such as mro, _sunder_, __dunder__ or __private name)")
    elif kind == "pydantic" and not uc and not cfg.cap:
        from pydantic import BaseModel

        with warnings.catch_warnings():
            warnings.simplefilter("ignore")
            if hasattr(BaseModel, r):
                ck.fail({**base, "mechanism": "reserved"}, inp, f"result {r!r} is an attribute of pydantic.BaseModel")
                return
        if r.startswith("_") and cfg.prefix_ok():
            ck.fail({**base, "mechanism": "leading_underscore"}, inp, f"result {r!r} starts with an underscore")


def campaign_helpers(ck: Check, names: list[str]) -> None:
    from datamodel_code_generator.reference import camel_to_snake, snake_to_upper_camel

    camp = ck.campaign("names.c2s / names.s2uc vs camel_to_snake / snake_to_upper_camel")
    t0 = time.time()
    rng = ck.rng.fork("helpers")
    reqs, impls, inps = [], [], []
    for s in names:
        if not has_final_sigma_issue(s):
            reqs.append(f"names.c2s {hx(s)}")
            impls.append("ok " + hx(camel_to_snake(s)))
            inps.append({"fn": "camel_to_snake", "s": s})
        d = rng.choice(["_", "-", "ab", "", " ", "__", "a"])
        try:
            impl = "ok " + hx(snake_to_upper_camel(s, d))
        except ValueError:
            impl = "error"
        reqs.append(f"names.s2uc {hx(s)} {hx(d)}")
        impls.append(impl)
        inps.append({"fn": "snake_to_upper_camel", "s": s, "delimiter": d})
    replies = ck.driver.run(reqs)
    for inp, impl, rep in zip(inps, impls, replies):
        camp.evaluations += 1
        camp.hit(inp["fn"])
        if impl != "ok " + hx(inp["s"]):
            camp.distinct.add((inp["fn"], inp["s"], inp.get("delimiter")))
        if rep != impl:
            ck.disagree(camp, inp, rep, impl)
        elif len(camp.samples) < 2 and impl.startswith("ok ") and impl != "ok " + hx(inp["s"]):
            camp.samples.append({**inp, "result": unhx(impl[3:])})
    camp.wall_s = time.time() - t0


# ---------------------------------------------------------------- campaign: alias decision and the excludes fold
def gen_prop_list(rng: Rng, ugroups, names_pool: list[str]) -> list[str]:
    """property names of one class: often equal after sanitation"""
    n = rng.range(1, 5)
    base = rng.choice(names_pool) if rng.chance(2, 3) else gen_name(rng, ugroups, 3)
    out = [base]
    while len(out) < n:
        v = rng.below(6)
        if v == 0:
            cand = base + rng.choice(["-", "_", "+", " ", "_1", "_2", "1"])
        elif v == 1:
            cand = rng.choice(["-", "_", "#", " "]) + base
        elif v == 2:
            cand = base.replace("_", "-") if "_" in base else base + "_"
        elif v == 3 and base:
            cand = base[0].upper() + base[1:] if rng.chance(1, 2) else base.lower()
        elif v == 4:
            cand = rng.choice(out) + "_" + str(rng.range(1, 3))
        else:
            cand = gen_name(rng, ugroups, 3)
        if cand not in out:
            out.append(cand)
    return out


def parser_kwargs(cfg: Cfg) -> dict[str, Any]:
    """the options of generate() / Parser.__init__ that reach the resolvers"""
    kw: dict[str, Any] = {}
    if cfg.snake:
        kw["snake_case_field"] = True
    if cfg.delim is not None:
        kw["original_field_name_delimiter"] = cfg.delim
    if cfg.pfx is not None:
        kw["special_field_name_prefix"] = cfg.pfx
    if cfg.remove:
        kw["remove_special_field_name_prefix"] = True
    if cfg.cap:
        kw["capitalise_enum_members"] = True
    if cfg.noalias:
        kw["no_alias"] = True
    if cfg.aliases:
        kw["aliases"] = dict(cfg.aliases)
    if cfg.empty is not None:
        kw["empty_enum_field_name"] = cfg.empty
    return kw


def yaml_safe_json(doc: Any) -> str:
    """JSON text that PyYAML (the generator's loader) reads back as exactly `doc`: astral characters stay
    raw (a \\ud83d\\ude00 escape pair would arrive as two lone surrogates), BMP non-printables are escaped"""
    text = json.dumps(doc, ensure_ascii=False)
    out = []
    for ch in text:
        o = ord(ch)
        if 0x7F <= o <= 0x9F or o in (0xFFFE, 0xFFFF) or 0xD800 <= o <= 0xDFFF or o in (0x2028, 0x2029, 0xFEFF):
            out.append("\\u%04x" % o)
        else:
            out.append(ch)
    return "".join(out)


def member_doc(names: list[str], required: list[str] | None = None, nested: str | None = None,
               bools: dict[str, bool] | None = None) -> dict:
    """`bools`: properties whose schema is the boolean schema `true` / `false` (declared in the order of `names`)"""
    props: dict[str, Any] = {n: (bools[n] if bools and n in bools else {"type": "integer"}) for n in names}
    if nested is not None and nested in props and not (bools and nested in bools):
        props[nested] = {"type": "object", "properties": {"q": {"type": "integer"}}}
    doc: dict[str, Any] = {"title": "M", "type": "object", "properties": props}
    if required:
        doc["required"] = required
    return doc


def stage1_fields(names: list[str], cfg: Cfg, timeout: float = 5.0, bools: dict[str, bool] | None = None) -> str:
    """(name, alias, typed Any?) of the members after the real parse_object_fields (Parser.results, stage 1)"""
    from datamodel_code_generator.parser.jsonschema import JsonSchemaParser

    try:
        with watchdog(timeout), warnings.catch_warnings():
            warnings.simplefilter("ignore")
            p = JsonSchemaParser(yaml_safe_json(member_doc(names, bools=bools)), **parser_kwargs(cfg))
            p.parse_raw()
        ms = [m for m in p.results if m.class_name == "M"]
        if len(ms) != 1:
            return f"unexpected {len(ms)} models named M"
        return "ok" + "".join(
            f" {hx(f.name)} {'none' if f.alias is None else hx(f.alias)} {int(f.data_type.type == 'Any')}" for f in ms[0].fields
        )
    except Hang:
        return "fuel"
    except (ValueError, IndexError):
        return "error"
    except Exception as e:  # noqa: BLE001  (e.g. the YAML loader rejects the document)
        return f"rejected {type(e).__name__}"


def real_fold(names: list[str], cfg: Cfg, kind: str = "pydantic", bools: dict[str, bool] | None = None) -> str:
    """the loop of parse_object_fields, replayed on the real resolver (every name is added to the excludes,
    boolean-schema or not)"""
    try:
        res = make_resolver(kind, cfg)
    except Refused:
        return "rejected"
    excl: set[str] = set()
    out = []
    try:
        with watchdog(3.0):
            for n in names:
                f, a = res.get_valid_field_name_and_alias(n, excl)
                excl.add(f)
                out.append((f, a))
    except Hang:
        return "fuel"
    except (ValueError, IndexError):
        return "error"
    return "ok" + "".join(
        f" {hx(f)} {'none' if a is None else hx(a)} {int(bool(bools) and n in bools)}" for (f, a), n in zip(out, names)
    )


def decode_fold(rep: str):
    """[(member name, alias)] of a fold reply (`ok name alias any …`), or the error token"""
    if not rep.startswith("ok"):
        return rep
    toks = rep.split(" ")[1:]
    return [(unhx(toks[i]), None if toks[i + 1] == "none" else unhx(toks[i + 1])) for i in range(0, len(toks), 3)]


def decode_any_flags(rep: str) -> list[bool]:
    toks = rep.split(" ")[1:]
    return [toks[i + 2] == "1" for i in range(0, len(toks), 3)]


def props_sx(names: list[str], bools: dict[str, bool] | None) -> str:
    return "(" + " ".join(f"({hx(n)} {int(bool(bools) and n in bools)})" for n in names) + ")"


def gen_bools(rng: Rng, names: list[str]) -> dict[str, bool]:
    """boolean schemas (`true` and `false`) mixed with ordinary ones, at any position"""
    if rng.chance(1, 2):
        return {}
    return {n: rng.chance(2, 3) for n in names if rng.chance(2, 5)}


# boolean-schema property declared before / after an ordinary one that sanitises to the same identifier
BOOL_COLLISIONS = [
    (["created-at", "created_at"], {"created-at": True}),
    (["created_at", "created-at"], {"created-at": True}),
    (["created-at", "created_at"], {"created_at": False}),
    (["a b", "a-b", "a_b"], {"a-b": True}),
    (["a-b", "a b", "a_b"], {"a-b": True, "a b": False}),
    (["class", "class_"], {"class": True}),
    (["class_", "class"], {"class": True}),
    (["_x", "field_x", "#x"], {"_x": True, "#x": True}),
    (["x", "x#", "x_"], {"x#": False}),
]


def campaign_fold(ck: Check, n: int, names_pool: list[str]) -> None:
    camp = ck.campaign("names.fold / names.field vs get_valid_field_name_and_alias and the members of Parser.results (parse_object_fields)")
    t0 = time.time()
    rng = ck.rng.fork("fold")
    ug = uni_groups()
    cases = []
    for i in range(n):
        names = gen_prop_list(rng, ug, names_pool)
        cfg = rng.choice(CFGS)
        if rng.chance(1, 5):
            tgt = rng.choice(["alias_target", "x", names[-1], "class"])
            cfg = dataclasses.replace(cfg, aliases=((names[0], tgt),))
        cases.append((names, cfg, gen_bools(rng, names)))
    cases = [(ns, Cfg(), dict(bs)) for ns, bs in BOOL_COLLISIONS] + cases
    # ModelResolver hands capitalise_enum_members to the ENUM resolver only: members are never capitalised
    member_cfg = lambda c: dataclasses.replace(c, cap=False)  # noqa: E731
    replies = ck.driver.run([f"names.fold pydantic {member_cfg(c).sx()} {props_sx(ns, bs)}" for ns, c, bs in cases])
    for (names, cfg, bools), rep in zip(cases, replies):
        if hung(ck):
            break
        camp.evaluations += 1
        inp = {"names": names, "bools": bools, "cfg": cfg.label(), "cfg_fields": dataclasses.asdict(cfg)}
        if bools:
            camp.hit("boolean_schema_props")
        if member_cfg(cfg).uses_lower() and any("Σ" in x for x in names):
            camp.unmodelled += 1
            continue
        impl_fn = real_fold(names, member_cfg(cfg), bools=bools)
        impl_s1 = stage1_fields(names, cfg, bools=bools)
        camp.hit("props:" + str(len(names)))
        camp.hit("result:" + impl_s1.split(" ")[0])
        if impl_s1.startswith("rejected"):
            camp.unmodelled += 1
            continue
        if cfg.aliases:
            camp.hit("aliases_map")
        dec = decode_fold(impl_s1)
        if isinstance(dec, list):
            if any(f != n_ for (f, _), n_ in zip(dec, names)):
                camp.distinct.add((tuple(names), cfg.label(), tuple(sorted(bools.items()))))
            oracle_fields(ck, camp, inp, names, cfg, dec, decode_any_flags(impl_s1), bools)
        if impl_s1 == "fuel":
            ck.fail({"oracle": "stage1_members", "mechanism": "hang", "prefix_ok": cfg.prefix_ok()}, inp, "parse_raw() did not return within 5 s")
        if rep != impl_fn:
            ck.disagree(camp, {**inp, "against": "resolver loop"}, decode_fold(rep), decode_fold(impl_fn))
        if rep != impl_s1:
            ck.disagree(camp, {**inp, "against": "Parser.results"}, decode_fold(rep), dec)
        elif len(camp.samples) < 3 and isinstance(dec, list) and len({f for f, _ in dec}) > 1 and any(a for _, a in dec):
            camp.samples.append({**inp, "fields": dec})
    camp.wall_s = time.time() - t0


def oracle_fields(ck: Check, camp, inp: dict, names: list[str], cfg: Cfg, fields: list,
                  any_flags: list[bool] | None = None, bools: dict[str, bool] | None = None) -> None:
    """C07 on the members of one class as the real parser produced them (stage 1): one member per property —
    ordinary or boolean-schema —, legal distinct names, every wire key reachable"""
    base = {"oracle": "stage1_members", "prefix_ok": cfg.prefix_ok()}
    hit_alias_map = any(n in dict(cfg.aliases) for n in names)
    fnames = [f for f, _ in fields]
    if len(fields) != len(names):
        ck.fail({**base, "mechanism": "member_count"}, inp, f"{len(names)} properties but {len(fields)} members")
        return
    if not hit_alias_map:  # names chosen by the user's aliases map are the user's responsibility
        if len(set(fnames)) != len(fnames):
            ck.fail({**base, "mechanism": "not_unique"}, inp, f"member names are not pairwise distinct: {fnames!r}")
        for f in fnames:
            if not f.isidentifier() or keyword.iskeyword(f):
                ck.fail({**base, "mechanism": "illegal_identifier"}, inp, f"member name {f!r} is not a legal identifier")
    if not cfg.noalias:
        wire = [a if a is not None else f for f, a in fields]
        if wire != names:
            ck.fail({**base, "mechanism": "wire_key"}, inp, f"wire keys {wire!r} differ from the property names {names!r}")
    for (f, a), n in zip(fields, names):
        if a is not None and a != n:
            ck.fail({**base, "mechanism": "wire_key"}, inp, f"alias {a!r} of {f!r} is not the original name {n!r}")
    if any_flags is not None:
        for (f, _), n, is_any in zip(fields, names, any_flags):
            if bools and n in bools and not is_any:
                ck.fail({**base, "mechanism": "boolean_schema_type"}, inp, f"member {f!r} of the boolean-schema property {n!r} is not typed Any")


# ---------------------------------------------------------------- end-to-end oracle
def nfkc_unstable(code: str, names: list[str]) -> bool:
    """the emitted module contains an identifier that the Python parser will NFKC-normalise
    (fallback when the module cannot be tokenised: one of the property names is not NFKC-normal)"""
    import io
    import tokenize

    try:
        return any(
            t.type == tokenize.NAME and unicodedata.normalize("NFKC", t.string) != t.string
            for t in tokenize.generate_tokens(io.StringIO(code).readline)
        )
    except (tokenize.TokenError, SyntaxError, IndentationError):
        return any(unicodedata.normalize("NFKC", n) != n for n in names)


def e2e_case(ck: Check, camp, names: list[str], cfg: Cfg, model: str, required: bool = False, nested: str | None = None,
             bools: dict[str, bool] | None = None, timeout: float = 10.0) -> None:
    """name(s) → JSON-Schema document → real generate() → parse, import, members exist, legal and distinct,
    validate-then-dump round trip under the original keys"""
    camp.evaluations += 1
    camp.hit("kind:" + model)
    camp.hit("props:" + str(len(names)))
    bools = {n: b for n, b in (bools or {}).items() if n in names}
    if bools:
        camp.hit("boolean_schema_props")
    inp = {"names": names, "bools": bools, "cfg": cfg.label(), "model": model, "required": required, "nested": nested,
           "cfg_fields": dataclasses.asdict(cfg)}
    base = {"oracle": "e2e_member", "kind": model, "prefix_ok": cfg.prefix_ok(), "trigger": "none"}
    doc = member_doc(names, names if required else None, nested, bools)
    res = e2e.run_generate(yaml_safe_json(doc), model=model, opts=parser_kwargs(cfg), timeout=timeout)
    if res.hang:
        ck.fail({**base, "mechanism": "hang"}, inp, f"generate() did not return within {timeout:g} s")
        return
    if not res.ok:
        if cfg.delim == "" and res.error_type == "ValueError":
            camp.hit("reported_error:empty_delimiter")
            return
        if not cfg.prefix_start() and res.error_type == "Error":
            camp.hit("reported_error:special_prefix_refused")
            return
        ck.fail({**base, "mechanism": "generate_error"}, inp, f"generate() raised {res.error_type}: {res.error_msg}")
        return
    if nfkc_unstable(res.code, names):
        base["trigger"] = "nfkc"
        camp.hit("trigger:nfkc")
    err = e2e.parses(res.code)
    if err:
        ck.fail({**base, "mechanism": "unparsable"}, inp, f"emitted module does not parse: {err}")
        return
    camp.distinct.add((tuple(names), cfg.label(), model, required, nested))
    if not cfg.prefix_ok():
        # a special prefix that is empty / starts with "_" / is no identifier is the user's explicit choice:
        # only termination and a parsable module are required (the theorems carry the hypothesis PrefixOK)
        camp.hit("prefix_not_ok:terminates_and_parses_only")
        return
    hit_alias_map = any(n in dict(cfg.aliases) for n in names)
    if model == "msgspec.Struct":
        members = static_members(res.code)
        if members is None:
            ck.fail({**base, "mechanism": "member_count"}, inp, "class M not found in the emitted module")
            return
    else:
        try:
            mod = e2e.load_module(res.code, model)
        except BaseException as e:  # noqa: BLE001
            if isinstance(e, (KeyboardInterrupt, SystemExit)):
                raise
            ck.fail({**base, "mechanism": "import_error"}, inp, f"importing the emitted module raised {type(e).__name__}: {str(e)[:200]}")
            return
        try:
            members = runtime_members(mod, model)
        finally:
            pass
    # members: list of (python name, wire key)
    pnames = [p for p, _ in members]
    if base["trigger"] == "none" and model == "pydantic_v2.BaseModel":
        # classification: was a member renamed again after get_valid_field_name_and_alias decided the alias
        # (Parser.__change_field_name, pydantic v2 only)?
        st1 = decode_fold(real_fold(names, dataclasses.replace(cfg, cap=False)))
        if isinstance(st1, list) and sorted(set(f for f, _ in st1)) != sorted(set(pnames)):
            base["trigger"] = "post_rename"
            camp.hit("trigger:post_rename")
    if len(members) != len(names):
        ck.fail({**base, "mechanism": "member_count"}, inp, f"{len(names)} properties but the class has {len(members)} members: {pnames!r}")
        if model != "msgspec.Struct":
            e2e.unload(mod)
        return
    if model != "typing.TypedDict" and not hit_alias_map:
        for p in pnames:
            if not p.isidentifier() or keyword.iskeyword(p):
                ck.fail({**base, "mechanism": "illegal_identifier"}, inp, f"member {p!r} is not a legal identifier")
            elif p.startswith("_") and cfg.prefix_ok() and model.startswith("pydantic"):
                ck.fail({**base, "mechanism": "leading_underscore"}, inp, f"member {p!r} starts with an underscore")
    if model == "typing.TypedDict" and not hit_alias_map and nested is None:
        st1 = decode_fold(real_fold(names, dataclasses.replace(cfg, cap=False), bools=bools))
        if isinstance(st1, list):
            TD_OBSERVED.append(([(f, n_) for (f, _), n_ in zip(st1, names)], "= TypedDict(" in res.code, inp))
    keeps_wire = model != "dataclasses.dataclass" and not cfg.noalias
    if keeps_wire:
        wire = sorted(w for _, w in members)
        if wire != sorted(names):
            ck.fail({**base, "mechanism": "wire_key"}, inp, f"wire keys {wire!r} differ from the property names {sorted(names)!r}")
        elif model.startswith("pydantic") and nested is None and not (required and False in bools.values()):
            # (no instance satisfies the boolean schema `false`: those members are left out of the instance,
            #  and a class that requires such a member has no valid instance at all)
            inst = {n: i for i, n in enumerate(names) if bools.get(n) is not False}
            try:
                if model == "pydantic_v2.BaseModel":
                    back = mod.M.model_validate(inst).model_dump(by_alias=True, exclude_unset=True)
                else:
                    back = mod.M.parse_obj(inst).dict(by_alias=True, exclude_unset=True)
            except Exception as e:  # noqa: BLE001
                back = f"{type(e).__name__}: {str(e)[:160]}"
            if back != inst:
                ck.fail({**base, "mechanism": "roundtrip"}, inp, f"validate-then-dump of {inst!r} gave {back!r}")
    if bools and model != "msgspec.Struct" and (keeps_wire or (model == "dataclasses.dataclass" and not required)):
        # the member of a boolean-schema property exists (counted above) and is typed Any
        import typing

        try:
            hints = typing.get_type_hints(mod.M)
        except Exception:  # noqa: BLE001
            hints = {}
        # property → member: through the wire key where there is one, by position for (all-optional) dataclasses
        by_prop = {w: p for p, w in members} if keeps_wire else dict(zip(names, pnames))
        for n in bools:
            p = by_prop.get(n)
            if p is None or p not in hints:
                continue
            h = hints[p]
            if not (h is typing.Any or (typing.get_origin(h) is typing.Union and typing.Any in typing.get_args(h))):
                ck.fail({**base, "mechanism": "boolean_schema_type"}, inp, f"member {p!r} of the boolean-schema property {n!r} is typed {h!r}, not Any")
    if model != "msgspec.Struct":
        e2e.unload(mod)
    if len(camp.samples) < 3 and any(p != n for p, n in zip(pnames, names)):
        camp.samples.append({"names": names, "cfg": cfg.label(), "model": model, "members": members})


def runtime_members(mod, model: str) -> list[tuple[str, str]]:
    M = mod.M
    if model == "pydantic_v2.BaseModel":
        return [(n, f.alias if f.alias is not None else n) for n, f in M.model_fields.items()]
    if model == "pydantic.BaseModel":
        return [(n, f.alias) for n, f in M.__fields__.items()]
    if model == "dataclasses.dataclass":
        return [(f.name, f.name) for f in dataclasses.fields(M)]
    if model == "typing.TypedDict":
        keys = list(M.__annotations__)
        assert set(keys) == set(M.__required_keys__) | set(M.__optional_keys__)
        return [(k, k) for k in keys]
    raise ValueError(model)


def static_members(code: str):
    """msgspec is not installed: read (name, wire key) of class M off the syntax tree"""
    import ast

    tree = ast.parse(code)
    for node in tree.body:
        if isinstance(node, ast.ClassDef) and node.name == "M":
            out = []
            for st in node.body:
                if isinstance(st, ast.AnnAssign) and isinstance(st.target, ast.Name):
                    wire = st.target.id
                    if isinstance(st.value, ast.Call) and getattr(st.value.func, "id", "") == "field":
                        for kw in st.value.keywords:
                            if kw.arg == "name" and isinstance(kw.value, ast.Constant):
                                wire = kw.value.value
                    out.append((st.target.id, wire))
            return out
    return None


E2E_CORPUS = [
    (["___"], Cfg(remove=True), "pydantic_v2.BaseModel"),
    (["_3D"], Cfg(remove=True), "pydantic.BaseModel"),
    (["a⁰"], Cfg(), "pydantic_v2.BaseModel"),
    ([""], Cfg(), "pydantic_v2.BaseModel"),
    ([""], Cfg(), "typing.TypedDict"),
    (["_foo"], Cfg(), "typing.TypedDict"),
    (["A·9"], Cfg(), "typing.TypedDict"),
    (["fooBar", "foo_bar"], Cfg(snake=True), "typing.TypedDict"),
    (["a-", "a_", "a+"], Cfg(), "pydantic_v2.BaseModel"),
    (["copy", "copy_", "schema", "model_config"], Cfg(), "pydantic_v2.BaseModel"),
    (["class", "class_", "None"], Cfg(), "dataclasses.dataclass"),
    (["mro", "register"], Cfg(), "pydantic.BaseModel"),
    (["Ⅷ", "1"], Cfg(), "msgspec.Struct"),
]


TD_OBSERVED: list = []  # (pairs (member name, original), functional syntax observed?, input) of TypedDict outputs


def campaign_typeddict_syntax(ck: Check) -> None:
    camp = ck.campaign("names.tdfunc (Model.Names.tdFunctional) vs the syntax chosen by TypedDict.render in the e2e outputs")
    t0 = time.time()
    obs, TD_OBSERVED[:] = list(TD_OBSERVED), []
    reqs = ["names.tdfunc (" + " ".join(f"({hx(f)} {hx(o)})" for f, o in pairs) + ")" for pairs, _, _ in obs]
    for (pairs, functional, inp), rep in zip(obs, ck.driver.run(reqs)):
        camp.evaluations += 1
        camp.hit("functional" if functional else "class")
        if any(f != o for f, o in pairs):
            camp.distinct.add(tuple(pairs))
        if rep != ("ok 1" if functional else "ok 0"):
            ck.disagree(camp, inp, rep, "functional" if functional else "class")
        elif len(camp.samples) < 2 and functional:
            camp.samples.append({"members": pairs, "functional_syntax": functional})
    camp.wall_s = time.time() - t0


def campaign_e2e(ck: Check, n: int, names_pool: list[str]) -> None:
    camp = ck.campaign("e2e member oracle (real generate() → import → members legal, distinct, round trip under the original keys)")
    t0 = time.time()
    rng = ck.rng.fork("e2e")
    ug = uni_groups()
    for names, cfg, model in E2E_CORPUS:
        e2e_case(ck, camp, names, cfg, model)
    for i, (names, bools) in enumerate(BOOL_COLLISIONS):
        for model in (e2e.MODEL_KINDS[i % 5], e2e.MODEL_KINDS[(i + 3) % 5]):
            e2e_case(ck, camp, names, Cfg(), model, bools=bools)
    e2e_cfgs = [c for c in CFGS if c.delim != ""]
    for i in range(n):
        if hung(ck):
            break
        names = gen_prop_list(rng, ug, names_pool) if rng.chance(1, 2) else [gen_name(rng, ug, 4)]
        cfg = rng.choice(e2e_cfgs) if rng.chance(2, 3) else Cfg()
        if rng.chance(1, 8):
            cfg = dataclasses.replace(cfg, aliases=((names[0], "alias_target"),))
        model = e2e.MODEL_KINDS[i % len(e2e.MODEL_KINDS)]
        nested = names[0] if rng.chance(1, 10) else None
        e2e_case(ck, camp, names, cfg, model, required=rng.chance(1, 3), nested=nested, bools=gen_bools(rng, names))
    camp.wall_s = time.time() - t0


# ---------------------------------------------------------------- TypedDict: inheritance (all_fields)
def td_field_sx(name, orig, tag: int) -> str:
    return f"({'none' if name is None else hx(name)} {'none' if orig is None else hx(orig)} {tag})"


def td_tree_sx(tree, how: str = "cls") -> str:
    """tree = None (not a TypedDict) | (bases: [tree], fields: [(name, orig, tag)])"""
    if tree is None:
        return "other"
    bases, fields = tree
    return f"({how} ({' '.join(td_tree_sx(b, how) for b in bases)}) ({' '.join(td_field_sx(*f) for f in fields)}))"


def td_decode(rep: str):
    """reply of names.tdclass → (functional, own, all_fields, rendered) or the error text"""
    if not rep.startswith("ok "):
        return rep
    func, rest = rep[3:4] == "1", rep[5:]
    groups, cur = [], None
    for tok in rest.replace("(", " ( ").replace(")", " ) ").split():
        if tok == "(":
            cur = []
        elif tok == ")":
            groups.append(cur)
        else:
            parts = tok.split("/")
            cur.append(tuple(None if q == "none" else (unhx(q) if q.startswith("x") else int(q)) for q in parts))
    own, allf, rendered = groups
    return func, own, allf, rendered


TD_NAMES = ["a", "b", "unit_price", "valid_until", "class_", "x", "sku", "a_1", "é", None, ""]
TD_ORIGS = ["a", "a-", "a+", "b", "unit-price", "unit_price", "unit price", "valid-until", "class", "class_", "x", "sku",
            "a_1", "é", "1st", "", "q'uote", "back\\slash", "new\nline", None]


def gen_td_tree(rng: Rng, depth: int, counter: list, allow_other: bool):
    """random class tree of real objects: returns (model tree, real TypedDict object | None)"""
    from datamodel_code_generator.model.rootmodel import RootModel
    from datamodel_code_generator.model.typed_dict import DataModelField, DataModelFieldBackport, TypedDict
    from datamodel_code_generator.reference import Reference
    from datamodel_code_generator.types import DataType

    field_cls = DataModelField if rng.chance(1, 2) else DataModelFieldBackport

    def fld(name, orig, tag, req):
        return field_cls(name=name, original_name=orig, data_type=DataType(type=f"T{tag}"), required=req)

    idx = counter[0]
    counter[0] += 1
    ref = Reference(path=f"#/K{idx}", name=f"K{idx}")
    if allow_other and depth < 2 and rng.chance(1, 6):
        # a base that is no TypedDict: a reference without source, or a root model / type alias
        if rng.chance(1, 2):
            RootModel(reference=ref, fields=[fld(None, None, 99, True)])
        return None, ref
    bases = []
    if depth > 0:
        for _ in range(rng.choice([0, 1, 1, 1, 2, 2, 3])):
            bases.append(gen_td_tree(rng, depth - 1, counter, allow_other))
    fields = []
    for _ in range(rng.choice([0, 1, 1, 2, 2, 3, 4])):
        v = rng.below(10)
        if v < 4:  # as the parser makes them: valid identifier, any original
            name, orig = rng.choice(TD_NAMES[:9]), rng.choice(TD_ORIGS[:-1])
        elif v < 7:  # key is the name: class syntax possible
            name = rng.choice(TD_NAMES[:9])
            orig = name
        elif v < 8:  # `required`-only member
            name, orig = None, rng.choice(TD_ORIGS[:-1])
        else:
            name, orig = rng.choice(TD_NAMES), rng.choice(TD_ORIGS)
        tag = counter[1]
        counter[1] += 1
        fields.append((name, orig, tag, rng.chance(1, 3)))
    with warnings.catch_warnings():
        warnings.simplefilter("ignore")  # "Field name … is duplicated"
        TypedDict(reference=ref, fields=[fld(*f) for f in fields], base_classes=[r for _, r in bases] or None)  # sets ref.source
    return ([t for t, _ in bases], [f[:3] for f in fields]), ref


def td_tag(f) -> int:
    return int(f.data_type.type[1:])


def td_exec_tree(objs: list, n_tags: int):
    """exec the rendered classes (bases first) and read the class objects Python built"""
    import re
    import typing

    import typing_extensions

    ns: dict[str, Any] = {"TypedDict": typing.TypedDict, "NotRequired": typing_extensions.NotRequired, "Any": typing.Any}
    for i in range(n_tags):
        ns[f"T{i}"] = type(f"T{i}", (), {})
    out = {}
    for o in objs:
        exec(compile(o.render(), "<td>", "exec"), ns)  # noqa: S102
        cls = ns[o.class_name]
        out[o.class_name] = [(k, int(re.search(r"T(\d+)", repr(v)).group(1))) for k, v in cls.__annotations__.items()]
    return out


def campaign_td_objects(ck: Check, n: int) -> None:
    camp = ck.campaign("names.tdclass (Model.TypedDict: _validate_fields, is_functional_syntax, all_fields, the class Python builds) "
                       "vs real TypedDict DataModel objects built directly (random class trees) and their rendered text, exec'd")
    t0 = time.time()
    rng = ck.rng.fork("tdobjects")
    cases = []
    for i in range(n):
        counter = [0, 0]
        allow_other = rng.chance(1, 4)
        tree, ref = gen_td_tree(rng, rng.choice([0, 1, 1, 2, 2, 3]), counter, allow_other)
        if tree is None:
            continue
        cases.append((tree, ref.source, counter[1], allow_other))
    replies = ck.driver.run(["names.tdclass " + td_tree_sx(t, "mk") for t, _, _, _ in cases])

    def has_other(tree) -> bool:
        return tree is None or any(has_other(b) for b in tree[0])

    def topo(o, acc):
        for b in o.base_classes:
            src = b.reference.source if b.reference is not None else None
            if src is not None and src not in acc and type(src).__name__ == "TypedDict":
                topo(src, acc)
        if o not in acc:
            acc.append(o)
        return acc

    for (tree, obj, n_tags, allow_other), rep in zip(cases, replies):
        camp.evaluations += 1
        dec = td_decode(rep)
        own = [(f.name, f.original_name, td_tag(f)) for f in obj.fields]
        allf = [(f.name, f.original_name, td_tag(f)) for f in obj.all_fields]
        impl: list[Any] = [obj.is_functional_syntax, own, allf]
        inp = {"tree": td_tree_sx(tree, "mk")}
        camp.hit("depth_bases:" + str(min(len(tree[0]), 3)))
        camp.hit("functional" if impl[0] else "class")
        if len(own) != len(tree[1]):
            camp.hit("validate_fields_dropped_a_member")
        if has_other(tree):
            camp.hit("has_non_typeddict_base")
            model = list(dec[:3]) if isinstance(dec, tuple) else dec
        else:
            try:
                impl.append(td_exec_tree(topo(obj, []), n_tags)[obj.class_name])
            except Exception as e:  # noqa: BLE001
                impl.append(f"{type(e).__name__}: {str(e)[:120]}")
            model = list(dec) if isinstance(dec, tuple) else dec
            if isinstance(impl[-1], list) and len(impl[-1]) < len(allf):
                camp.hit("key_declared_more_than_once")
        if len(allf) > len(own):
            camp.distinct.add(inp["tree"])
        if model != impl:
            ck.disagree(camp, inp, model, impl)
        elif len(camp.samples) < 2 and len(allf) > len(own) and impl[0]:
            camp.samples.append({**inp, "functional": impl[0], "all_fields": allf, "annotations": impl[-1]})
    camp.wall_s = time.time() - t0


TD_GROUPS = [
    ["unit-price", "unit_price", "unit price", "unitPrice", "unit.price", "UnitPrice", "unit__price", "unit_price_1"],
    ["valid-until", "valid_until", "validUntil", "valid until", "Valid-Until"],
    ["class", "class_", "Class", "def", "None", "from", "in", "True", "match"],
    ["1st", "_1st", "field_1st", "#1st", "1st_", "field__1st"],
    ["sku", "Sku", "SKU", "sku_", "sku-", "_sku", "#sku", "sku_1"],
    ["", "_", "__", "#", "field", "field_"],
    ["a", "a-", "a_", "a+", "a ", "a__1", "a_1", "A"],
    ["fooBar", "foo_bar", "foo-bar", "FooBar", "foo bar", "foobar"],
    ["é", "é-", "é_", "É", "ñ-é", "ñ_é"],
    ["q'uote", "q\"uote", "q_uote", "back\\slash", "back_slash", "new\nline", "new_line", "tab\t"],
    ["copy", "copy_", "schema", "json", "dict", "keys", "items", "get", "update", "clear"],
]
TD_PLAIN = ["x", "y", "name", "id", "value", "count", "tags"]
TD_FORCE_FUNCTIONAL = ["valid-until", "a b", "1st", "class", "@id", "x-y", "$schema", "from"]
TD_TYPES = [{"type": "number"}, {"type": "integer"}, {"type": "string"}, {"type": "boolean"}]
TD_TARGETS = ["3.9", "3.10", "3.11", "3.12"]  # (3.13: the installed black has no such target, generate() raises KeyError)
TD_CFGS = [Cfg(), Cfg(), Cfg(), Cfg(snake=True), Cfg(snake=True, delim="-"), Cfg(remove=True), Cfg(remove=True, pfx="x9"),
           Cfg(noalias=True), Cfg(noalias=True, snake=True), Cfg(empty="empty"), Cfg(pfx="é")]
TD_OPTS = [{}, {}, {}, {"use_field_description": True}, {"use_schema_description": True}, {"force_optional_for_required_fields": True},
           {"keep_model_order": True}, {"use_standard_collections": True}, {"strict_nullable": True},
           {"use_field_description": True, "use_schema_description": True, "keep_model_order": True}]


def nfkc_stable(s: str) -> bool:
    return unicodedata.normalize("NFKC", s) == s


def gen_td_keys(rng: Rng, theme: list[list[str]], ug, k_max: int = 3) -> list[str]:
    keys: list[str] = []
    for g in theme:
        keys += rng.sample(g, rng.below(k_max + 1))
    if rng.chance(1, 2):
        keys.append(rng.choice(TD_PLAIN))
    if rng.chance(1, 2):
        keys.append(rng.choice(TD_FORCE_FUNCTIONAL))
    if rng.chance(1, 5):
        cand = gen_name(rng, ug, 3)
        if nfkc_stable(cand):  # identifiers Python would normalise are known finding D21 (own campaign)
            keys.append(cand)
    return rng.shuffle(list(dict.fromkeys(keys)))


def gen_td_doc(rng: Rng, ug) -> dict:
    """A TypedDict INHERITANCE document as data: classes (definition name, bases, own keys in one or more declaration
    groups, `required` lists), whose keys are drawn so that sanitised identifiers collide between base and derived."""
    theme = rng.sample(TD_GROUPS, rng.choice([1, 1, 2]))
    classes: list[dict] = []

    def add(name: str, bases: list[str], level: int, may_split: bool) -> None:
        keys = gen_td_keys(rng, theme, ug)
        inherited = [k for b in bases for k in td_wire_keys(classes, b)]
        if inherited and rng.chance(1, 3):  # a genuine re-declaration of the SAME wire key
            k = rng.choice(inherited)
            if k not in keys:
                keys.append(k)
        groups = [keys]
        placement = "item"
        if may_split and len(keys) >= 2 and rng.chance(1, 6):
            cut = rng.range(1, len(keys) - 1)
            groups = [keys[:cut], keys[cut:]]
            placement = "split" if rng.chance(1, 2) else "sibling"
        c = {
            "name": name, "bases": bases, "groups": groups, "placement": placement, "level": level,
            "bool": [k for k in keys if rng.chance(1, 12)],
            "item_required": [k for k in keys if rng.chance(1, 3)],
            "top_required": [k for k in (inherited + keys) if rng.chance(1, 4)] if bases and rng.chance(1, 3) else [],
        }
        classes.append(c)

    add("Base", [], 0, False)
    chain_top = "Base"
    if rng.chance(1, 2):
        add("Mid", ["Base"], 1, True)
        chain_top = "Mid"
    bases = [chain_top]
    if rng.chance(1, 5):
        add("Other", [], 3, False)
        bases = bases + ["Other"] if rng.chance(1, 2) else ["Other"] + bases
    add("Derived", bases, 2, True)
    if rng.chance(1, 4):
        add("Sibling", ["Base"], 1, True)
    if rng.chance(1, 6):
        add("Leaf", ["Derived"], 0, True)
    order = [c["name"] for c in classes]
    if rng.chance(1, 3):
        order = rng.shuffle(order)
    return {"classes": classes, "order": order}


def td_class(classes: list[dict], name: str) -> dict:
    return next(c for c in classes if c["name"] == name)


def td_own_keys(c: dict) -> list[str]:
    return [k for g in c["groups"] for k in g]


def td_wire_keys(classes: list[dict], name: str) -> list[str]:
    """THE ORACLE'S EXPECTATION, from the schema alone: the wire keys of the schemas a class extends, and its own"""
    c = td_class(classes, name)
    out = [k for b in c["bases"] for k in td_wire_keys(classes, b)] + td_own_keys(c)
    return list(dict.fromkeys(out))


def td_schema(td: dict, descriptions: bool = True) -> dict:
    defs = {}
    by_name = {c["name"]: c for c in td["classes"]}
    for name in td["order"]:
        c = by_name[name]

        def props(keys):
            out = {}
            for k in keys:
                if k in c["bool"]:
                    out[k] = True
                else:
                    out[k] = dict(TD_TYPES[c["level"] % len(TD_TYPES)])
                    if descriptions:
                        out[k]["description"] = f"member of {name}"
            return out

        def obj(keys):
            o: dict[str, Any] = {"type": "object", "properties": props(keys)}
            req = [k for k in keys if k in c["item_required"]]
            if req:
                o["required"] = req
            return o

        if not c["bases"]:
            d = obj(td_own_keys(c))
        else:
            groups = c["groups"]
            items: list[Any] = [{"$ref": f"#/definitions/{b}"} for b in c["bases"]]
            if c["placement"] == "sibling":
                items.append(obj(groups[0]))
                d = {"allOf": items, "properties": props(groups[1])}
            else:
                items += [obj(g) for g in groups]
                d = {"allOf": items}
            if c["top_required"]:
                d["required"] = list(c["top_required"])
        d["description"] = f"schema {name}"
        defs[name] = d
    return {"$schema": "http://json-schema.org/draft-07/schema#", "definitions": defs}


def td_split_collisions(c: dict, cfg: Cfg) -> set[str]:
    """keys of a later declaration group (second inline allOf item / sibling `properties`) whose sanitised identifier
    equals that of a DIFFERENT key of an earlier group of the same class: every group is a parse_object_fields call
    of its own (fresh exclude_field_names), the constructor then drops the later member (known finding C07-ALLOF-SPLIT-MEMBERS)"""
    seen: dict[str, str] = {}
    lost: set[str] = set()
    for g in c["groups"]:
        dec = decode_fold(real_fold(g, dataclasses.replace(cfg, cap=False)))
        if not isinstance(dec, list):
            return set()
        for (f, _), k in zip(dec, g):
            if f in seen:
                lost.add(k)
        for (f, _), k in zip(dec, g):
            seen.setdefault(f, k)
    return lost


@contextlib.contextmanager
def td_recorder():
    """observe every TypedDict model at the moment it is rendered (wrapped from outside, nothing in /repo changes)"""
    from datamodel_code_generator.model import typed_dict as T

    rec: dict[str, Any] = {}
    orig = T.TypedDict.render

    def snap_fields(fields):
        return [(f.name, f.original_name, f.type_hint) for f in fields]

    def snap_tree(m, depth=0):
        bases = []
        for b in m.base_classes:
            if b.reference is None:
                continue
            src = b.reference.source
            bases.append(snap_tree(src, depth + 1) if isinstance(src, T.TypedDict) and depth < 12 else None)
        return (bases, snap_fields(m.fields))

    def render(self, *, class_name=None):
        try:
            rec[class_name or self.class_name] = {"tree": snap_tree(self), "all_fields": snap_fields(self.all_fields),
                                                   "functional": self.is_functional_syntax}
        except Exception as e:  # noqa: BLE001
            rec[class_name or self.class_name] = {"error": f"{type(e).__name__}: {e}"}
        return orig(self, class_name=class_name)

    T.TypedDict.render = render
    try:
        yield rec
    finally:
        T.TypedDict.render = orig


TD_SCALARS = ["float", "int", "str", "bool", "Any"]


def td_scalar_tag(text: str) -> int:
    import re

    m = re.search(r"\b(float|int|str|bool|Any)\b", text)
    return TD_SCALARS.index(m.group(1)) if m else 9


def td_annotation_text(v) -> str:
    import typing

    if isinstance(v, str):
        return v
    if isinstance(v, typing.ForwardRef):
        return v.__forward_arg__
    return repr(v)


def td_run(td: dict, cfg: Cfg, opts: dict, target: str, record: bool = True):
    """real generate() on the document → (result, recorded models)"""
    doc = td_schema(td)
    kw = {**parser_kwargs(cfg), **opts}
    if record:
        with td_recorder() as rec:
            res = e2e.run_generate(yaml_safe_json(doc), model="typing.TypedDict", opts=kw, timeout=10.0, target=target)
        return res, rec
    return e2e.run_generate(yaml_safe_json(doc), model="typing.TypedDict", opts=kw, timeout=10.0, target=target), {}


def td_oracle(td: dict, cfg: Cfg, res) -> list[tuple[dict, str]]:
    """THE PROPERTY on one generated module: every wire key of every class's schema — own AND inherited — is a key of
    the generated TypedDict under exactly that name, and there is no other key.  Returns one (classification, text)
    per failing class (or one for a module that cannot be produced / imported)."""
    base = {"oracle": "e2e_typeddict_inheritance", "kind": "typing.TypedDict", "prefix_ok": cfg.prefix_ok(), "trigger": "none"}
    if res.hang:
        return [({**base, "mechanism": "hang"}, "generate() did not return within 10 s")]
    if not res.ok:
        return [({**base, "mechanism": "generate_error"}, f"generate() raised {res.error_type}: {res.error_msg}")]
    err = e2e.parses(res.code)
    if err:
        return [({**base, "mechanism": "unparsable"}, f"emitted module does not parse: {err}")]
    try:
        mod = e2e.load_module(res.code, "typing.TypedDict")
    except BaseException as e:  # noqa: BLE001
        if isinstance(e, (KeyboardInterrupt, SystemExit)):
            raise
        return [({**base, "mechanism": "import_error"}, f"importing the emitted module raised {type(e).__name__}: {str(e)[:200]}")]
    out: list[tuple[dict, str]] = []
    try:
        for c in td["classes"]:
            cls = getattr(mod, c["name"], None)
            if cls is None or not hasattr(cls, "__required_keys__"):
                out.append(({**base, "mechanism": "class_missing"}, f"no TypedDict named {c['name']} in the emitted module"))
                continue
            keys = set(cls.__required_keys__) | set(cls.__optional_keys__)
            want = set(td_wire_keys(td["classes"], c["name"]))
            if set(cls.__annotations__) != keys:
                out.append(({**base, "mechanism": "inconsistent_class"},
                            f"{c['name']}: __annotations__ {sorted(cls.__annotations__)!r} vs keys {sorted(keys)!r}"))
                continue
            if keys == want:
                continue
            lost, extra = want - keys, keys - want
            mech = "unexpected_key" if extra else ("own_key_lost" if lost <= set(td_own_keys(c)) else "inherited_key_lost")
            # classification of the one known mechanism: own keys of a class (this one or one it extends) declared in
            # SEVERAL groups whose identifiers collide across the groups — and nothing else is wrong with the class
            explained: set[str] = set()
            for d in td["classes"]:
                if d["name"] == c["name"] or d["name"] in td_ancestors(td["classes"], c["name"]):
                    explained |= td_split_collisions(d, cfg)
            trigger = "own_keys_in_several_groups_collide" if (not extra and lost and lost <= explained) else "none"
            out.append(({**base, "mechanism": mech, "trigger": trigger},
                        f"TypedDict {c['name']}: keys {sorted(keys)!r} but the wire keys of its schema (own and inherited) are "
                        f"{sorted(want)!r}; lost {sorted(lost)!r}, unexpected {sorted(extra)!r}"))
    finally:
        e2e.unload(mod)
    return out


def td_ancestors(classes: list[dict], name: str) -> list[str]:
    out = []
    for b in td_class(classes, name)["bases"]:
        out += [b] + td_ancestors(classes, b)
    return out


def td_shrink(td: dict, cfg: Cfg, opts: dict, target: str, cls0: dict, budget: int = 60) -> dict:
    """greedy reduction of a failing document: drop classes nothing failing depends on, then keys, then lists —
    keeping a candidate only when the oracle still fails with the same classification"""
    import copy

    def fails(cand) -> bool:
        try:
            res, _ = td_run(cand, cfg, opts, target, record=False)
            r = td_oracle(cand, cfg, res)
        except Exception:  # noqa: BLE001
            return False
        return any(c == cls0 for c, _ in r)

    cur = copy.deepcopy(td)
    steps = 0
    changed = True
    while changed and steps < budget:
        changed = False
        for c in list(cur["classes"]):  # drop a class that no other class extends
            if any(c["name"] in d["bases"] for d in cur["classes"]):
                continue
            cand = copy.deepcopy(cur)
            cand["classes"] = [d for d in cand["classes"] if d["name"] != c["name"]]
            cand["order"] = [n for n in cand["order"] if n != c["name"]]
            steps += 1
            if cand["classes"] and fails(cand):
                cur, changed = cand, True
                break
        if changed:
            continue
        for ci, c in enumerate(cur["classes"]):
            for gi, g in enumerate(c["groups"]):
                for k in g:
                    if steps >= budget:
                        return cur
                    cand = copy.deepcopy(cur)
                    cc = cand["classes"][ci]
                    cc["groups"][gi] = [x for x in g if x != k]
                    for lst in ("bool", "item_required"):
                        cc[lst] = [x for x in cc[lst] if x != k]
                    for d in cand["classes"]:
                        d["top_required"] = [x for x in d["top_required"] if x in td_wire_keys(cand["classes"], d["name"])]
                    steps += 1
                    if fails(cand):
                        cur, changed = cand, True
                        break
                if changed:
                    break
            if changed:
                break
        if changed:
            continue
        for ci, c in enumerate(cur["classes"]):
            for lst in ("top_required", "item_required", "bool"):
                if c[lst] and steps < budget:
                    cand = copy.deepcopy(cur)
                    cand["classes"][ci][lst] = []
                    steps += 1
                    if fails(cand):
                        cur, changed = cand, True
                        break
            if changed:
                break
    return cur


def td_case(ck: Check, camp, td: dict, cfg: Cfg, opts: dict, target: str, pending: list | None = None, shrink: bool = True) -> None:
    """one inheritance document: the property's oracle on the imported module, and (pending) the model's prediction of
    all_fields / syntax / class keys for every recorded model"""
    camp.evaluations += 1
    inp = {"td_doc": td, "cfg": cfg.label(), "cfg_fields": dataclasses.asdict(cfg), "opts": opts, "target": target,
           "schema": td_schema(td, descriptions=False)}
    res, rec = td_run(td, cfg, opts, target)
    camp.hit("target:" + target)
    camp.hit("classes:" + str(len(td["classes"])))
    for c in td["classes"]:
        if c["bases"]:
            camp.hit("placement:" + c["placement"])
            camp.hit("bases:" + str(len(c["bases"])))
            if c["top_required"]:
                camp.hit("top_level_required")
            inh = set(k for b in c["bases"] for k in td_wire_keys(td["classes"], b))
            if inh & set(td_own_keys(c)):
                camp.hit("redeclares_inherited_key")
    shrunk = False
    for cls0, text in td_oracle(td, cfg, res):
        finp = inp
        if match_known(ck, cls0) is None:
            camp.hit("oracle_failure:" + cls0["mechanism"])
            if shrink and not shrunk and not ck.failures:  # minimise the first new failure of the run only
                shrunk = True
                small = td_shrink(td, cfg, opts, target, cls0)
                if small != td:
                    res2, _ = td_run(small, cfg, opts, target, record=False)
                    again = [t for c, t in td_oracle(small, cfg, res2) if c == cls0]
                    if again:
                        finp = {**inp, "td_doc": small, "schema": td_schema(small, descriptions=False),
                                "shrunk_from": {"classes": len(td["classes"]), "keys": sum(len(td_own_keys(c)) for c in td["classes"])}}
                        text = again[0]
        else:
            camp.hit("known:" + cls0["trigger"])
        ck.fail(cls0, finp, text)
    if not res.ok or pending is None:
        return
    # correspondence: the models as they were when rendered, against Model.TypedDict
    try:
        mod = e2e.load_module(res.code, "typing.TypedDict")
    except BaseException as e:  # noqa: BLE001
        if isinstance(e, (KeyboardInterrupt, SystemExit)):
            raise
        return
    try:
        for c in td["classes"]:
            r = rec.get(c["name"])
            cls = getattr(mod, c["name"], None)
            if r is None or "error" in r or cls is None or not hasattr(cls, "__annotations__"):
                continue

            def tagged(fields):
                return [(n, o, td_scalar_tag(h)) for n, o, h in fields]

            def tree_tagged(t):
                return None if t is None else ([tree_tagged(b) for b in t[0]], tagged(t[1]))

            tree = tree_tagged(r["tree"])
            ann = [(k, td_scalar_tag(td_annotation_text(v))) for k, v in cls.__annotations__.items()]
            impl = [r["functional"], tagged(r["tree"][1]), tagged(r["all_fields"]), ann]
            distinct = bool(c["bases"]) and len(impl[2]) > len(impl[1])
            pending.append((td_tree_sx(tree, "cls"), impl, {**inp, "class": c["name"]}, distinct))
            # the class's own members, when they come from ONE parse_object_fields call: the fold model (fresh excludes)
            if len(c["groups"]) == 1 and not c["top_required"] and not any("Σ" in k for k in c["groups"][0]):
                pending.append(("fold", (c["groups"][0], cfg, [(n, o) for n, o, _ in r["tree"][1]]), {**inp, "class": c["name"]}, False))
    finally:
        e2e.unload(mod)


def match_known(ck: Check, classification: dict):
    from ..runner import match_finding

    return match_finding(ck.findings, classification)


TD_CORPUS = [
    # (classes, order) minimised shapes: base key / different derived key with the same identifier / functional syntax
    {"classes": [
        {"name": "Base", "bases": [], "groups": [["unit-price", "sku"]], "placement": "item", "level": 0, "bool": [],
         "item_required": ["sku"], "top_required": []},
        {"name": "Derived", "bases": ["Base"], "groups": [["unit_price", "valid-until"]], "placement": "item", "level": 1,
         "bool": [], "item_required": [], "top_required": []},
        {"name": "Strict", "bases": ["Base"], "groups": [["unit-price", "valid-until"]], "placement": "item", "level": 1,
         "bool": [], "item_required": [], "top_required": []},
        {"name": "Plain", "bases": ["Base"], "groups": [["unit_price", "x"]], "placement": "item", "level": 1,
         "bool": [], "item_required": [], "top_required": []},
        {"name": "Leaf", "bases": ["Derived"], "groups": [["unit price", "sku"]], "placement": "item", "level": 2,
         "bool": [], "item_required": [], "top_required": ["unit-price"]},
    ], "order": ["Base", "Derived", "Strict", "Plain", "Leaf"]},
    {"classes": [
        {"name": "Base", "bases": [], "groups": [["class", "a-"]], "placement": "item", "level": 0, "bool": [],
         "item_required": [], "top_required": []},
        {"name": "Other", "bases": [], "groups": [["a+", "class_"]], "placement": "item", "level": 3, "bool": ["a+"],
         "item_required": [], "top_required": []},
        {"name": "Derived", "bases": ["Base", "Other"], "groups": [["a_", "1st"]], "placement": "item", "level": 2,
         "bool": [], "item_required": [], "top_required": ["class"]},
    ], "order": ["Derived", "Other", "Base"]},
]


def campaign_td_inherit(ck: Check, n: int) -> None:
    camp = ck.campaign("e2e TypedDict inheritance (allOf + $ref documents → real generate() → import → every wire key, own and "
                       "inherited, is a key of the class; names.tdclass / names.fold vs the models as rendered)")
    t0 = time.time()
    rng = ck.rng.fork("tdinherit")
    ug = uni_groups()
    pending: list = []
    for td in TD_CORPUS:
        for target in ("3.9", "3.12"):
            td_case(ck, camp, td, Cfg(), {}, target, pending)
    for i in range(n):
        if hung(ck):
            break
        td = gen_td_doc(rng, ug)
        cfg = rng.choice(TD_CFGS)
        opts = dict(rng.choice(TD_OPTS))
        target = rng.choice(TD_TARGETS)
        td_case(ck, camp, td, cfg, opts, target, pending)
    td_correspond(ck, camp, pending)
    camp.wall_s = time.time() - t0


def td_correspond(ck: Check, camp, pending: list) -> None:
    reqs = []
    for what, impl, _, _ in pending:
        if what == "fold":
            names, cfg, _ = impl
            reqs.append(f"names.fold pydantic {dataclasses.replace(cfg, cap=False).sx()} {props_sx(names, None)}")
        else:
            reqs.append("names.tdclass " + what)
    for (what, impl, inp, distinct), rep in zip(pending, ck.driver.run(reqs)):
        slim = {k: v for k, v in inp.items() if k != "schema"}
        if what == "fold":
            names, cfg, observed = impl
            dec = decode_fold(rep)
            model = [(f, n_) for (f, _), n_ in zip(dec, names)] if isinstance(dec, list) else dec
            camp.hit("own_members_vs_fold")
            if model != observed:
                ck.disagree(camp, {**slim, "against": "own members of the class (fresh excludes per class)"}, model, observed)
            continue
        dec = td_decode(rep)
        model = list(dec) if isinstance(dec, tuple) else dec
        camp.hit("syntax:" + ("functional" if impl[0] else "class"))
        if distinct:
            camp.distinct.add(what)
        if model != impl:
            ck.disagree(camp, {**slim, "against": "TypedDict model at render time: [functional, own, all_fields, annotations]"}, model, impl)
        elif len(camp.samples) < 3 and distinct and impl[0]:
            camp.samples.append({"class": inp["class"], "schema": inp["schema"], "target": inp["target"], "annotations": impl[3]})


# ---------------------------------------------------------------- known findings, search, run, replay
def known_findings(ck: Check) -> None:
    """Re-run the stored witness of every open finding; print KNOWN-FINDING when it still fails."""
    for f in ck.findings:
        w = f["witness"]
        probe = Check(ck.prop, ck.tier)
        probe.findings = []
        camp = probe.campaign("witness")
        cfg = Cfg(**{k: (tuple(map(tuple, v)) if k == "aliases" else v) for k, v in w.get("cfg", {}).items()})
        if w["level"] == "function":
            still = real_valid(w["kind"], cfg, w["name"], w.get("excludes"), False, False, timeout=1.0) == "fuel"
        elif w["level"] == "enum_e2e":
            from . import enum_callers

            enum_callers.names_case(probe, camp, w["enum_values"], cfg, w["model"], w["position"])
            still = bool(probe.failures)
        elif w["level"] == "discriminator":
            from . import c07_discr

            c07_discr.case(probe, camp, w["discr_shape"], w["model"])
            still = bool(probe.failures)
        elif w["level"] == "typeddict_inheritance":
            td_case(probe, camp, w["td_doc"], cfg, w.get("opts", {}), w.get("target", "3.12"), shrink=False)
            still = bool(probe.failures)
        else:
            e2e_case(probe, camp, w["names"], cfg, w["model"], nested=w.get("nested"))
            still = bool(probe.failures)
        if still:
            ck.known(f["id"], f["what"])


def search_names(ck: Check) -> None:
    """Targeted search when a proof or a correspondence broke: the inputs of every disagreement and the whole
    small scope (all names of length ≤ 2 over the 14-symbol alphabet, pairs of colliding names), end to end."""
    from . import enum_callers

    # names on which the ENUM resolver disagrees (and the option vectors of those calls) become enum values of complete documents,
    # at every caller of the enum resolver
    enum_dis = [d.input for d in ck.disagreements if isinstance(d.input, dict) and d.input.get("kind") == "enum" and "name" in d.input]
    if enum_dis or any("enum" in t.lower() for t in ck.broken):
        cfgs = []
        for inp in enum_dis[:60]:
            cf = inp.get("cfg_fields") or {}
            cfg = Cfg(**{k: (tuple(map(tuple, v)) if k == "aliases" else v) for k, v in cf.items()})
            if cfg not in cfgs:
                cfgs.append(cfg)
        enum_callers.search_names(ck, [inp["name"] for inp in enum_dis[:60]], cfgs[:6])
        if ck.failures:
            return
    camp = ck.campaign("search: disagreeing inputs and the small scope, end to end")
    seen = set()
    for d in ck.disagreements[:40]:
        inp = d.input if isinstance(d.input, dict) else {}
        names = inp.get("names") or ([inp["name"]] if "name" in inp else None)
        if not names or tuple(names) in seen:
            continue
        seen.add(tuple(names))
        extra = [n for n in inp.get("excludes", []) if n not in names]
        for model in ("pydantic_v2.BaseModel", "typing.TypedDict"):
            e2e_case(ck, camp, list(names) + extra, Cfg(), model)
            if ck.failures:
                return
    for names, bools in BOOL_COLLISIONS:
        for model in ("pydantic_v2.BaseModel", "typing.TypedDict"):
            e2e_case(ck, camp, names, Cfg(), model, bools=bools)
            if ck.failures:
                return
    for n in small_scope(2):
        for names in ([n], [n, n + "_"], [n + "-", n + "+", n + "_"]):
            e2e_case(ck, camp, names, Cfg(), "pydantic_v2.BaseModel")
            if ck.failures:
                return
            if len(names) > 1:
                e2e_case(ck, camp, names, Cfg(), "pydantic_v2.BaseModel", bools={names[0]: True})
                if ck.failures:
                    return
    for w in list(keyword.kwlist) + uni.reserved():
        e2e_case(ck, camp, [w, w + "_"], Cfg(), "pydantic_v2.BaseModel")
        if ck.failures:
            return


def search_td(ck: Check) -> None:
    """Targeted search when a proof or a correspondence about TypedDict members broke: the corpus of inheritance
    shapes and a fresh stream of inheritance documents, end to end (stops at the first oracle failure)."""
    camp = ck.campaign("search: TypedDict inheritance documents, end to end")
    rng = ck.rng.fork("tdsearch")
    ug = uni_groups()
    for td in TD_CORPUS:
        for target in ("3.9", "3.12"):
            td_case(ck, camp, td, Cfg(), {}, target)
            if ck.failures:
                return
    for _ in range(300):
        td_case(ck, camp, gen_td_doc(rng, ug), rng.choice(TD_CFGS), {}, rng.choice(TD_TARGETS))
        if ck.failures:
            return


def hung(ck: Check) -> bool:
    """an unexplained hang of the real code was already recorded: the verdict is settled, do not spend the
    budget on further time-outs"""
    return any(f.classification.get("mechanism") == "hang" for f in ck.failures)


def run(ck: Check) -> None:
    quick = ck.tier == "quick"
    ck.translate("Unicode", uni.generate())
    ck.translate("EnumSites", enum_sites.generate())
    ck.prove()
    ck.assumptions += [
        "CPython's str.isidentifier / re \\w / str.isnumeric / keyword.iskeyword and hasattr(pydantic.BaseModel, ·) are the generated tables of Dcg/Gen/Unicode read by Dcg/Py/{Chars,Ident} (validated in this run, character by character and on whole strings)",
        "str.lower / str.upper enter the theorems as parameters satisfying CaseOK (identifier in, identifier out, no leading underscore created); CaseOK is proved in Lean for the character-wise maps regenerated from the interpreter (python_case_maps_ok) and additionally checked exhaustively by the translator (Gen.Unicode.caseViolations = []); the final-sigma context rule of str.lower is not modelled (both images are XID_Start: finalSigma_ok), names containing a capital sigma under snake-case/capitalise are counted as unmodelled in the correspondence",
        "a resolver object exists only for a special field-name prefix that is empty or starts an identifier (PrefixStart = the guard of FieldNameResolver.__init__, tied to the three real constructors by the names.new campaign); termination and legality of the result are proved for every such prefix; the clauses about a leading underscore additionally need a non-empty identifier that does not start with '_' (PrefixOK) — an empty / underscore prefix is the user's explicit choice and only termination, legality and parsability are required of it end to end",
        "Python NFKC-normalises identifiers when it compiles the emitted module; the string-level model does not (known finding D21 covers names that are not NFKC-stable)",
        "dataclass output has no alias mechanism (the statement only requires alias/key preservation for pydantic, msgspec and TypedDict); msgspec is not installed and is checked on the syntax tree only",
    ]
    rng = ck.rng.fork("names")
    ug = uni_groups()
    from . import enum_callers

    # (spellings that only SANITISE to a reserved name tie the generated table of the enum resolver's own excludes to its behaviour)
    reserved_spellings = [s for t in ("mro", "class", "_missing_", "__init__", "name") for s in enum_callers.spellings(t)]
    names = list(dict.fromkeys(G_WORDS + G_CAMEL + reserved_spellings + [gen_name(rng, ug) for _ in range(2000 if quick else 12000)]))
    campaign_chars(ck, 3000 if quick else 60000)
    campaign_ident(ck, names)
    campaign_helpers(ck, names[: 1500 if quick else 12000])
    # (document level before function level: the first failing input of a run is the one written to the replay file)
    enum_callers.campaign_names(ck, 250 if quick else 2500)
    campaign_valid(ck, names, "adversarial names x 3 resolvers x option vectors", CFGS[:6] if quick else CFGS)
    if quick and not hung(ck):
        campaign_valid(ck, names[:250], "remaining option vectors", CFGS[6:])
    if not hung(ck):
        campaign_valid(ck, small_scope(2 if quick else 3), "small scope: all names over the 14-symbol alphabet", CFGS[:5] if quick else CFGS)
    if not hung(ck):
        campaign_constructor(ck, 1500 if quick else 20000)
    if not hung(ck):
        campaign_valid(ck, ["1", "a", "_", "", "#"], "special prefixes that cannot start an identifier: refused by the constructor",
                       CFGS_BAD_PREFIX, chain=1, timeout=0.2)
    if not hung(ck):
        campaign_valid(ck, names[: 400 if quick else 4000] + small_scope(2), "admitted prefixes outside PrefixOK: empty / leading underscore",
                       CFGS_WEAK_PREFIX)
    if not hung(ck):
        campaign_fold(ck, 500 if quick else 5000, names)
    if not hung(ck):
        campaign_e2e(ck, 700 if quick else 6000, names)
        campaign_typeddict_syntax(ck)
    if not hung(ck):
        from . import c07_discr

        c07_discr.run_campaigns(ck, 60 if quick else 1500)
    if not hung(ck):
        campaign_td_objects(ck, 400 if quick else 6000)
        campaign_td_inherit(ck, 220 if quick else 4000)
    ck.search_hooks.append(search_prefix)
    from . import c07_discr as _discr

    ck.search_hooks.append(_discr.search)
    ck.search_hooks.append(search_td)
    ck.search_hooks.append(search_names)
    known_findings(ck)


def replay(ck: Check, path: str) -> int:
    data = json.loads(open(path).read())
    inp = data.get("input") or {}
    camp = ck.campaign("replay")
    cf = inp.get("cfg_fields") or {}
    cfg = Cfg(**{k: (tuple(map(tuple, v)) if k == "aliases" else v) for k, v in cf.items()})
    if "enum_values" in inp:
        from . import enum_callers

        enum_callers.names_case(ck, camp, inp["enum_values"], cfg, inp["model"], inp["position"], inp.get("opts"))
    elif "td_doc" in inp:
        td_case(ck, camp, inp["td_doc"], cfg, inp.get("opts", {}), inp.get("target", "3.12"), shrink=False)
    elif "discr_shape" in inp:
        from . import c07_discr

        c07_discr.replay_input(ck, camp, inp)
    elif "model" in inp and "names" in inp:
        e2e_case(ck, camp, inp["names"], cfg, inp["model"], inp.get("required", False), inp.get("nested"), inp.get("bools"))
    elif "names" in inp:
        rep = stage1_fields(inp["names"], cfg, bools=inp.get("bools"))
        dec = decode_fold(rep)
        if isinstance(dec, list):
            oracle_fields(ck, camp, inp, inp["names"], cfg, dec, decode_any_flags(rep), inp.get("bools"))
        elif dec == "fuel":
            ck.fail({"oracle": "stage1_members", "mechanism": "hang", "prefix_ok": cfg.prefix_ok()}, inp, "parse_raw() did not return")
    elif "name" in inp:
        impl = real_valid(inp["kind"], cfg, inp["name"], inp.get("excludes"), inp.get("ignore_snake", False), inp.get("upper_camel", False))
        if impl.startswith("ok "):
            oracle_name(ck, camp, inp["kind"], cfg, inp, unhx(impl[3:]), inp.get("excludes") or [], inp.get("upper_camel", False))
        elif impl == "fuel":
            ck.fail({"oracle": "get_valid_name", "mechanism": "hang", "prefix_ok": cfg.prefix_ok(), "prefix_start": cfg.prefix_start()},
                    inp, "get_valid_name did not return")
    for f in ck.failures:
        print("REPLAY-FAILS:", json.dumps(f.classification), f.observed[:300])
    if not ck.failures:
        print("replay: the oracle does not fail on this input")
    return 1 if ck.failures else 0
