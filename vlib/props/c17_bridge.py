"""C17 — tie of the bridge between the GraphQL front end model and C13's model of type_hint
(Dcg/Model/GraphqlBridge.lean): the REAL annotation text (`field.type_hint` of the real
DataModelField the real GraphQLParser builds) for every spelling option the parser accepts, against
`GraphqlBridge.annotation`; and the real text, evaluated by CPython's `typing`, against
`GraphqlBridge.gqlDenote` of the declared type."""
from __future__ import annotations

import time
import typing
from typing import Any

from ..common import unhx
from ..runner import Check


def show_py(tp: Any) -> str:
    """canonical text of a typing object, in the format of `Sem.Typing.Ty.show`"""
    alts, has_none = _alts(tp)
    seen: list[str] = []
    for a in alts:
        if a not in seen:
            seen.append(a)
    if len(seen) == 1 and not has_none:
        return seen[0]
    return "{" + ";".join(sorted(seen) + (["None"] if has_none else [])) + "}"


def _alts(tp: Any) -> tuple[list[str], bool]:
    import collections.abc
    import types

    if tp is None or tp is type(None):
        return [], True
    origin = typing.get_origin(tp)
    if origin is typing.Union or origin is types.UnionType:
        out: list[str] = []
        none = False
        for a in typing.get_args(tp):
            x, n = _alts(a)
            out += x
            none = none or n
        return out, none
    if origin in (list, collections.abc.Sequence):
        return ["list(" + ";".join(show_py(a) for a in typing.get_args(tp)) + ")"], False
    if tp in (list, typing.List, typing.Sequence, collections.abc.Sequence):
        return ["list()"], False
    if isinstance(tp, type):
        return [tp.__name__], False
    raise ValueError(f"typing object outside the GraphQL shapes: {tp!r}")


def eval_hint(text: str, names: list[str]) -> Any:
    ns: dict[str, Any] = {"List": typing.List, "Optional": typing.Optional, "Union": typing.Union, "Sequence": typing.Sequence, "None": None}
    for n in names:
        ns[n] = type(n, (), {})
    return eval(text, {"__builtins__": {"list": list}}, ns)  # noqa: S307 - the text is a type annotation written by the generator


def campaign_annotation(ck: Check, n_batches: int, per_batch: int, c17) -> None:
    camp = ck.campaign("gql.annotation (GraphqlBridge.annotation = Types.fieldTypeHint ∘ toTypes ∘ parseField) vs field.type_hint of the member the real GraphQLParser builds; and the real text evaluated by typing vs gqlDenote")
    t0 = time.time()
    rng = ck.rng.fork("annotation")
    batches = []
    for b in range(n_batches):
        uop, std, gen = (b >> 0) & 1, (b >> 1) & 1, int(b % 5 == 4)
        fo = rng.chance(1, 3)
        is_input = rng.chance(1, 3)
        names = c17.IN_NAMES if is_input else c17.OUT_NAMES
        exprs = [c17.rand_gtype(rng, names) for _ in range(per_batch)]
        if b < 4:
            exprs[:5] = [
                ("nn", ("l", ("l", ("nn", ("n", "Color"))))),
                ("l", ("nn", ("l", ("n", "Int")))),
                ("n", "Date"),
                ("nn", ("n", "Color")),
                ("l", ("l", ("l", ("n", "String")))),
            ]
        batches.append((uop, std, gen, fo, is_input, exprs))
    enums = "(" + c17.gt_sx(("n", "Color")).split(" ", 1)[1]  # "(x43,…)" — the one enum of the prelude
    reqs = []
    for uop, std, gen, fo, _, exprs in batches:
        # the model never passes use_generic_container on: the GraphQL parser does not hand it to its DataTypes
        reqs += [f"gql.annotation {uop}{std}0 {enums} {int(fo)} {c17.gt_sx(t)}" for t in exprs]
    replies = iter(ck.driver.run(reqs))
    for uop, std, gen, fo, is_input, exprs in batches:
        kw = "input" if is_input else "type"
        body = "\n".join(f"  f_{i}: {c17.gt_sdl(t)}" for i, t in enumerate(exprs))
        sdl = c17.PRELUDE + f"{kw} T {{\n{body}\n}}\n"
        try:
            p = c17.real_parser(sdl, force_optional_for_required_fields=fo, use_standard_collections=bool(std),
                                use_union_operator=bool(uop), use_generic_container_types=bool(gen))
            model_t = c17.result_named(p, "T")
            fields = {f.name: f for f in model_t.fields}
            err = None
        except Exception as e:  # noqa: BLE001
            err, fields = f"{type(e).__name__}: {e}"[:200], {}
        names = c17.IN_NAMES if is_input else c17.OUT_NAMES
        for i, t in enumerate(exprs):
            rep = next(replies).split()
            camp.evaluations += 1
            f = fields.get(f"f_{i}")
            try:
                impl = f.type_hint if f is not None else (err or "field missing")
            except Exception as e:  # noqa: BLE001
                impl = f"type_hint raised {type(e).__name__}: {e}"[:200]
            if len(rep) != 4 or rep[0] != "ok":
                ck.disagree(camp, {"type": c17.gt_sdl(t)}, " ".join(rep)[:200], impl)
                continue
            model_text, ok_name, model_den = unhx(rep[1]), rep[2] == "1", unhx(rep[3])
            spelling = ("operator" if uop else "typing") + "/" + ("generic_flag" if gen else ("standard" if std else "typing_collections"))
            camp.hit(f"spelling:{spelling}")
            camp.hit("force_optional" if fo else "plain")
            depth = c17.gt_sdl(t).count("[")
            camp.hit(f"list_depth:{depth}")
            if t[0] != "n":
                camp.distinct.add((uop, std, gen, fo, is_input, c17.gt_sdl(t)))
            inp = {"type": c17.gt_sdl(t), "force_optional": fo, "input": is_input, "use_union_operator": bool(uop),
                   "use_standard_collections": bool(std), "use_generic_container_types": bool(gen)}
            if model_text != impl:
                ck.disagree(camp, inp, model_text, impl)
                continue
            if not ok_name:
                ck.disagree(camp, {**inp, "what": "okName of a pooled type name"}, "0", "1")
                continue
            # the meaning of the REAL text under CPython's typing vs the meaning of the declared GraphQL type
            try:
                have = show_py(eval_hint(impl, names))
            except Exception as e:  # noqa: BLE001
                have = f"the annotation does not evaluate: {type(e).__name__}: {e}"[:200]
            if have != model_den:
                ck.disagree(camp, {**inp, "annotation": impl, "what": "typing meaning of the real annotation vs gqlDenote (declared type)"}, model_den, have)
            elif len(camp.samples) < 4 and depth >= 2 and not any(s["spelling"] == spelling for s in camp.samples):
                camp.samples.append({**inp, "spelling": spelling, "annotation": impl, "meaning": have})
    ck.notes["rule:" + camp.name] = "distinct (spelling flags, force_optional, input?, type expression) with at least one wrapper"
    camp.wall_s = time.time() - t0
