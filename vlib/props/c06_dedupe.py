"""C06 — "two schemas are merged only when their rendered content is identical".

Three things, all about `Parser.__delete_duplicate_models` (parser/base.py):

* correspondence of `Model.ResolverDedupe.dedupe` with the real pass on REAL `DataModel` objects
  (pydantic v2 / dataclass models built by hand: class name, duplicate name, members), every sequence
  of same-named and differently named models: which models are dropped and onto which model the
  `DataType`s that referred to a dropped model are re-pointed. The comparison key (`render(...)`,
  `imports`) is an oracle parameter of the model: the harness hands it the key the real code computes.
* the property's own oracle stated on that real pass: a `DataType` is only ever re-pointed to a model
  whose rendered content equals that of the model it pointed at.
* end-to-end: documents with 2..4 definitions whose keys normalise to ONE class name, every definition
  with a content taken from a small pool (so some are identical, some differ), in all orders: each
  `$ref` member must name a class with exactly the members of the referenced definition, and there are
  between 1 and (number of definitions with that content) classes per content.
"""
from __future__ import annotations

import ast
import itertools
import json
import time

from .. import e2e
from ..common import Rng, hx
from ..runner import Check

# ------------------------------------------------------------------ contents
# member sets; 2 = union of 0 and 1 (a mis-landed reference then shows as a missing / an extra member)
CONTENTS = [["name"], ["age"], ["name", "age"], ["tag"]]
MEMBER_TYPE = {"name": "string", "age": "integer", "tag": "boolean"}
# keys that normalise to one class name (grouped at run time with the real class-name generator)
KEY_POOL = [
    "Pet", "pet", "Pet_", "_pet", "pet_", "Pet-", "-pet",
    "Pets-item", "Pets_item", "PetsItem", "pets_item", "pets-item",
    "pet model", "PetModel", "pet_model", "pet-model", "Pet_Model",
    "Order", "order", "Order_", "order-",
]
KINDS = ["pydantic_v2.BaseModel", "pydantic.BaseModel", "dataclasses.dataclass", "typing.TypedDict", "msgspec.Struct"]
CONTAINERS = ["definitions", "$defs", "components/schemas"]
WRAPPERS = {"Optional", "List", "Union", "Sequence", "NotRequired", "Required", "Annotated", "Set", "Dict", "Mapping", "UnsetType", "UNSET"}


def collision_groups() -> list[list[str]]:
    """KEY_POOL grouped by the class name the real resolver derives from the key (groups of >= 3)"""
    from datamodel_code_generator.reference import ModelResolver

    groups: dict[str, list[str]] = {}
    for k in KEY_POOL:
        groups.setdefault(ModelResolver().get_class_name(k, unique=False).name, []).append(k)
    return [g for g in groups.values() if len(g) >= 3]


def schema_of(content: int) -> dict:
    ms = CONTENTS[content]
    return {"type": "object", "required": list(ms), "properties": {m: {"type": MEMBER_TYPE[m]} for m in ms}}


def build_doc(case: dict) -> tuple[dict, str]:
    """case = {collide: True, container, keys, contents (index into CONTENTS per key), arrays (per key: the
    root member is an array of the definition), root_order: 'doc' | 'rev', model}"""
    keys, cont = case["keys"], case["container"]
    defs = {k: schema_of(c) for k, c in zip(keys, case["contents"])}
    idx = list(range(len(keys)))
    if case.get("root_order") == "rev":
        idx.reverse()
    props = {}
    for i in idx:
        ref = {"$ref": f"#/{cont}/{keys[i]}"}
        props[f"r{i}"] = {"type": "array", "items": ref} if case["arrays"][i] else ref
    root = {"type": "object", "required": [f"r{i}" for i in idx], "properties": props}
    if cont == "components/schemas":
        return {"openapi": "3.0.0", "info": {"title": "t", "version": "1"}, "paths": {},
                "components": {"schemas": {**defs, "RootDocHolder": root}}}, "openapi"
    return {"title": "RootDocHolder", **root, cont: defs}, "jsonschema"


def ann_leaves(node) -> list[str]:
    if isinstance(node, ast.Constant):
        if isinstance(node.value, str):
            try:
                return ann_leaves(ast.parse(node.value, mode="eval").body)
            except SyntaxError:
                return [node.value]
        return []
    if isinstance(node, ast.Subscript):
        return ann_leaves(node.slice)
    if isinstance(node, ast.Tuple):
        return [x for e in node.elts for x in ann_leaves(e)]
    if isinstance(node, ast.BinOp):
        return ann_leaves(node.left) + ann_leaves(node.right)
    if isinstance(node, ast.Name):
        return [node.id]
    if isinstance(node, ast.Attribute):
        return [ast.unparse(node)]
    return []


def class_table(code: str) -> list[tuple[str, dict]]:
    out = []
    for node in ast.parse(code).body:
        if isinstance(node, ast.ClassDef):
            members = {}
            for st in node.body:
                if isinstance(st, ast.AnnAssign) and isinstance(st.target, ast.Name):
                    members[st.target.id] = st.annotation
            out.append((node.name, members))
        elif isinstance(node, ast.Assign) and isinstance(node.value, ast.Call) and getattr(node.value.func, "id", "") == "TypedDict":
            args = node.value.args
            if len(args) == 2 and isinstance(args[1], ast.Dict) and isinstance(node.targets[0], ast.Name):
                out.append((node.targets[0].id, {k.value: v for k, v in zip(args[1].keys, args[1].values) if isinstance(k, ast.Constant)}))
    return out


def collide_oracle(ck: Check, camp, case: dict) -> bool:
    """The property's own oracle on one document of colliding definitions."""
    camp.evaluations += 1
    doc, ift = build_doc(case)
    model = case.get("model", "pydantic_v2.BaseModel")
    res = e2e.run_generate(doc, input_file_type=ift, model=model)
    keys, contents = case["keys"], case["contents"]
    n = len(keys)
    camp.hit("container:" + case["container"])
    camp.hit("kind:" + model)
    camp.hit(f"defs:{n}")
    camp.hit(f"distinct-contents:{len(set(contents))}")
    # the shape X … Y … X' (same content met again after a different one under the same name)
    if any(contents[i] == contents[k] and contents[j] != contents[i] for i in range(n) for j in range(i + 1, n) for k in range(j + 1, n)):
        camp.hit("shape:same-different-same")
    base = {"oracle": "e2e-collide", "shape": "colliding_names", "container": case["container"], "kind": model}

    def fail(mech: str, observed: str) -> bool:
        camp.hit("fail:" + mech)
        ck.fail({**base, "mechanism": mech}, case, observed)
        return False

    if res.hang:
        return fail("hang", "generate() did not return")
    if not res.ok:
        base["error"] = res.error_type
        return fail("generation_error", f"{res.error_type}: {res.error_msg}")
    err = e2e.parses(res.code)
    if err:
        return fail("unparsable", err)
    table = class_table(res.code)
    names = [c for c, _ in table]
    if len(set(names)) != len(names):
        return fail("duplicate_class_name", f"top-level classes {names}")
    members = dict(table)
    want_root = {f"r{i}" for i in range(n)}
    roots = [c for c, ms in table if set(ms) == want_root]
    if len(roots) != 1:
        return fail("missing_class", f"root class (members {sorted(want_root)}): {roots}; classes: {names}")
    for i in range(n):
        ann = members[roots[0]][f"r{i}"]
        leaves = [x for x in ann_leaves(ann) if x != "None" and x not in WRAPPERS]
        if len(leaves) != 1 or leaves[0] not in members:
            return fail("ref_mislanded", f"{roots[0]}.r{i}: {ast.unparse(ann)} names no emitted class")
        got = sorted(members[leaves[0]])
        if got != sorted(CONTENTS[contents[i]]):
            return fail("ref_mislanded", f"{roots[0]}.r{i} ($ref to {keys[i]!r}, members {sorted(CONTENTS[contents[i]])}) is rendered as "
                        f"{ast.unparse(ann)}, a class with members {got}: the reference landed on another schema's model")
    for c in sorted(set(contents)):
        holders = [cl for cl, ms in table if sorted(ms) == sorted(CONTENTS[c]) and cl != roots[0]]
        if not 1 <= len(holders) <= contents.count(c):
            return fail("missing_class" if not holders else "merged_or_duplicated",
                        f"{contents.count(c)} definition(s) with members {CONTENTS[c]}: classes {holders}; all classes: {names}")
    extra = [cl for cl, ms in table if cl != roots[0] and all(sorted(ms) != sorted(CONTENTS[c]) for c in set(contents))]
    if extra:
        return fail("extra_class", f"classes that correspond to no definition: {extra}")
    camp.distinct.add(json.dumps(case, sort_keys=True))
    if len(camp.samples) < 2 and n >= 3:
        camp.samples.append(case)
    return True


def collide_cases_exhaustive(group: list[str], k: int, n_contents: int, containers: list[str], kinds: list[str]) -> list[dict]:
    """the first k keys of a collision group in ALL orders, ALL content assignments over n_contents contents"""
    out = []
    i = 0
    for perm in itertools.permutations(group[:k]):
        for contents in itertools.product(range(n_contents), repeat=k):
            out.append({"collide": True, "container": containers[i % len(containers)], "keys": list(perm), "contents": list(contents),
                        "arrays": [False] * k, "root_order": "doc", "model": kinds[i % len(kinds)]})
            i += 1
    return out


def gen_collide_case(rng: Rng, groups: list[list[str]]) -> dict:
    g = rng.choice(groups)
    k = rng.range(2, min(4, len(g)))
    keys = rng.sample(g, k)
    if rng.chance(1, 4):  # a definition of another name in between
        other = rng.choice([x for gg in groups for x in gg if x not in g] or ["Other"])
        keys.insert(rng.below(len(keys) + 1), other)
    return {"collide": True, "container": rng.choice(CONTAINERS), "keys": keys,
            "contents": [rng.below(len(CONTENTS)) if rng.chance(1, 3) else rng.below(2) for _ in keys],
            "arrays": [rng.chance(1, 4) for _ in keys], "root_order": rng.choice(["doc", "doc", "rev"]),
            "model": rng.choice(KINDS)}


COLLIDE_CORPUS = [
    {"collide": True, "container": "definitions", "keys": ["Pet", "pet", "Pet_"], "contents": [0, 0, 0], "arrays": [False, False, False], "root_order": "doc", "model": "pydantic_v2.BaseModel"},
    {"collide": True, "container": "definitions", "keys": ["Pet", "pet", "Pet_"], "contents": [0, 0, 1], "arrays": [False, True, False], "root_order": "doc", "model": "dataclasses.dataclass"},
    {"collide": True, "container": "$defs", "keys": ["Pets-item", "PetsItem", "Pets_item", "pets_item"], "contents": [1, 2, 2, 1], "arrays": [False] * 4, "root_order": "rev", "model": "typing.TypedDict"},
]


def campaign_collide(ck: Check, n: int, exhaustive_k: int, label: str = "") -> None:
    camp = ck.campaign("e2e colliding definitions with identical / different contents: every $ref names a class with exactly the referenced "
                       "definition's members; 1..(definitions of that content) classes per content" + label)
    t0 = time.time()
    rng = ck.rng.fork("collide" + label)
    groups = collision_groups()
    camp.hit(f"collision-groups:{len(groups)}")
    cases = [dict(c) for c in COLLIDE_CORPUS]
    for gi, g in enumerate(groups):
        # size 3 in all orders and all assignments of two contents — for every group
        cases += collide_cases_exhaustive(g, 3, 2, CONTAINERS, KINDS)
        if exhaustive_k >= 4 and len(g) >= 4:
            cases += collide_cases_exhaustive(g, 4, 2, CONTAINERS, KINDS)
    cases += [gen_collide_case(rng, groups) for _ in range(n)]
    for case in cases:
        collide_oracle(ck, camp, case)
        if len(ck.failures) > 20:
            break
    camp.wall_s = time.time() - t0


# ------------------------------------------------------------------ the real pass on real DataModel objects
PASS_NAMES = ["Pet", "Pet1", "PetModel", "Other"]
PASS_DUPS = [None, None, "Pet", "Pet", "Other"]
PASS_KINDS = ["pydantic_v2.BaseModel", "dataclasses.dataclass"]


def build_models(case: dict):
    """case = {kind, models: [[class name, duplicate name | None, content index]]} -> (parser, models, one DataType per model)"""
    from datamodel_code_generator import DataModelType, PythonVersion
    from datamodel_code_generator.model import get_data_model_types
    from datamodel_code_generator.parser.jsonschema import JsonSchemaParser
    from datamodel_code_generator.reference import Reference
    from datamodel_code_generator.types import DataType, Types

    dmt = get_data_model_types(DataModelType(case["kind"]), PythonVersion.PY_312)
    parser = JsonSchemaParser("{}", data_model_type=dmt.data_model, data_model_root_type=dmt.root_model,
                              data_model_field_type=dmt.field_model, data_type_manager_type=dmt.data_type_manager)
    tm = parser.data_type_manager
    models, users = [], []
    for i, (cls, dup, content) in enumerate(case["models"]):
        ref = Reference(path=f"#/definitions/k{i}", original_name=f"k{i}", name=cls, duplicate_name=dup, loaded=True)
        fields = [dmt.field_model(name=m, data_type=tm.get_data_type({"string": Types.string, "integer": Types.integer, "boolean": Types.boolean}[MEMBER_TYPE[m]]), required=True)
                  for m in CONTENTS[content]]
        models.append(dmt.data_model(reference=ref, fields=fields))
        users.append(DataType(reference=ref))
    return parser, models, users


def real_dedupe(case: dict):
    """((name, key hex) per model as the real code sees it, [kept | index merged into] per model)"""
    from datamodel_code_generator.util import BaseModel  # noqa: F401  (import check only)

    from datamodel_code_generator.parser.base import to_hashable

    parser, models, users = build_models(case)
    keys = []
    for m in models:
        keys.append([m.duplicate_class_name or m.class_name,
                     repr(tuple(to_hashable(v) for v in (m.render(class_name=m.duplicate_class_name), m.imports)))])
    work = list(models)
    parser._Parser__delete_duplicate_models(work)  # noqa: SLF001
    pos = {id(m.reference): i for i, m in enumerate(models)}
    out = []
    for i, (m, u) in enumerate(zip(models, users)):
        kept = any(w is m for w in work)
        target = pos.get(id(u.reference))
        if kept and target == i:
            out.append("-")
        elif not kept and target is not None and target != i:
            out.append(target)
        else:
            out.append(f"inconsistent(kept={kept},target={target})")
    return keys, out


def gen_pass_case(rng: Rng) -> dict:
    n = rng.range(1, 6)
    return {"kind": rng.choice(PASS_KINDS),
            "models": [[rng.choice(PASS_NAMES), rng.choice(PASS_DUPS), rng.below(3) if rng.chance(1, 3) else rng.below(2)] for _ in range(n)]}


def pass_cases_exhaustive(n: int) -> list[dict]:
    """all sequences of length n of (same desired name) models over 2 contents and {own name, duplicate name}"""
    out = []
    shapes = [["Pet", None, 0], ["Pet", None, 1], ["PetModel", "Pet", 0], ["PetModel", "Pet", 1], ["Other", None, 0]]
    for combo in itertools.product(range(len(shapes)), repeat=n):
        models = []
        for i, s in enumerate(combo):
            cls, dup, c = shapes[s]
            models.append([cls if dup is None else f"{cls}{i}", dup, c])
        out.append({"kind": PASS_KINDS[len(out) % 2], "models": models})
    return out


def campaign_pass(ck: Check, n: int, exhaustive_len: int, label: str = "", cases: list | None = None) -> list:
    camp = ck.campaign("Model.ResolverDedupe.dedupe vs Parser.__delete_duplicate_models on real DataModel objects "
                       "(dropped models, re-pointed DataTypes); oracle: re-pointed only onto identical content" + label)
    t0 = time.time()
    rng = ck.rng.fork("dedupe-pass" + label)
    if cases is None:
        cases = [
            {"kind": "pydantic_v2.BaseModel", "models": [["Pet", None, 0], ["PetModel", "Pet", 1], ["PetModel1", "Pet", 0]]},
            {"kind": "pydantic_v2.BaseModel", "models": [["Pet", None, 0], ["PetModel", "Pet", 0], ["PetModel1", "Pet", 1], ["PetModel2", "Pet", 1]]},
        ]
        for k in range(1, exhaustive_len + 1):
            cases += pass_cases_exhaustive(k)
        cases += [gen_pass_case(rng) for _ in range(n)]
    impl = []
    for c in cases:
        try:
            impl.append(real_dedupe(c))
        except Exception as ex:  # noqa: BLE001
            impl.append(([], f"exc:{type(ex).__name__}:{str(ex)[:80]}"))
    reqs = ["res.dedupe (" + " ".join(f"({hx(nm)} {hx(key)})" for nm, key in keys) + ")" for keys, _ in impl]
    replies = ck.driver.run(reqs)
    bad = []
    for c, (keys, real), rep in zip(cases, impl, replies):
        camp.evaluations += 1
        camp.hit(f"models:{len(c['models'])}")
        if isinstance(real, str):
            ck.disagree(camp, c, rep, real)
            bad.append(c)
            continue
        model = [("-" if t == "-" else int(t)) for t in rep[3:].strip("()").split()] if rep.startswith("ok") else rep
        merged = sum(1 for x in real if x != "-")
        camp.hit(f"merged:{min(merged, 3)}")
        if merged:
            camp.distinct.add(json.dumps(c, sort_keys=True))
        # the property on the real pass: re-pointed only onto a model of identical name and content
        for i, t in enumerate(real):
            if isinstance(t, int) and keys[t] != keys[i]:
                ck.fail({"oracle": "dedupe-pass", "mechanism": "merged_into_different_content", "kind": c["kind"]}, dict(c, dedupe_pass=True),
                        f"model {i} {c['models'][i]} was dropped and its references re-pointed to model {t} {c['models'][t]}, whose rendered content differs")
            elif isinstance(t, str) and t != "-":
                ck.fail({"oracle": "dedupe-pass", "mechanism": "dangling_reference", "kind": c["kind"]}, dict(c, dedupe_pass=True), f"model {i}: {t}")
        if model != real:
            ck.disagree(camp, dict(c, dedupe_pass=True), model, real)
            bad.append(c)
        elif len(camp.samples) < 2 and merged and len(c["models"]) >= 3:
            camp.samples.append({"case": c, "result": real})
    camp.wall_s = time.time() - t0
    return bad


def search(ck: Check) -> None:
    """failing-input search: the exhaustive small scope of colliding documents (size 3 and 4, two contents)"""
    campaign_collide(ck, 300, 4, " [search]")
