"""C02 — emitted modules execute: every name is bound before it is needed."""
from __future__ import annotations

import ast
import builtins
import dataclasses
import inspect
import json
import textwrap
import time
import types
import typing
import warnings

from .. import classscope as cs
from .. import e2e, fieldcover, importledger, schemagen
from .. import typetrees as tt
from ..common import REPO, Rng, hx, unhx
from ..runner import Check, match_finding

# ---------------------------------------------------------------- S-expressions of the driver replies
def parse_sx(text: str):
    toks = text.replace("(", " ( ").replace(")", " ) ").split()
    pos = 0

    def go():
        nonlocal pos
        t = toks[pos]
        pos += 1
        if t == "(":
            out = []
            while toks[pos] != ")":
                out.append(go())
            pos += 1
            return out
        return t

    out = []
    while pos < len(toks):
        out.append(go())
    return out


def opt_hx(s):
    return "-" if s is None else hx(s)


def un_opt(t):
    return None if t == "-" else unhx(t)


def imp_sx(i: dict) -> str:
    return f"({opt_hx(i['from'])} {hx(i['name'])} {opt_hx(i.get('alias'))} {opt_hx(i.get('ref'))})"


def imp_of_sx(x) -> tuple:
    return (un_opt(x[0]), unhx(x[1]), un_opt(x[2]), un_opt(x[3]))


def real_imp(i: dict):
    from datamodel_code_generator.imports import Import

    return Import(from_=i["from"], import_=i["name"], alias=i.get("alias"), reference_path=i.get("ref"))


def imp_tuple(i) -> tuple:
    return (i.from_, i.import_, i.alias, i.reference_path)


# ---------------------------------------------------------------- Imports state machine
FROMS = [None, "typing", "a.b", "", "pydantic", "."]
NAMES = ["Optional", "List", "X", "Y", "a.b", "c.d.E", "Zed"]
ALIASES = [None, None, None, "Z", "", "X", "Y_aliased"]
REFS = [None, None, None, "#/p1", "#/p2", ""]


def random_history(rng: Rng, max_ops: int = 40) -> list:
    appended: list[dict] = []
    ops = []
    for _ in range(rng.range(1, max_ops)):
        k = rng.below(10)
        if k < 5 or not appended:
            imps = []
            for _ in range(rng.choice([0, 1, 1, 1, 2, 3])):
                i = {"from": rng.choice(FROMS), "name": rng.choice(NAMES), "alias": rng.choice(ALIASES), "ref": rng.choice(REFS)}
                imps.append(i)
                appended.append(i)
            ops.append(["app", imps])
        elif k < 8:
            imps = []
            for _ in range(rng.choice([1, 1, 2])):
                if rng.chance(5, 6):
                    i = appended.pop(rng.below(len(appended))) if appended else None
                    if i is None:
                        continue
                    if rng.chance(1, 5):  # the pruning step removes by (from_, name) only
                        i = {"from": i["from"], "name": i["name"], "alias": None, "ref": None}
                else:
                    i = {"from": rng.choice(FROMS), "name": rng.choice(NAMES), "alias": rng.choice(ALIASES), "ref": None}
                imps.append(i)
            ops.append(["rem", imps])
        else:
            ops.append(["rr", rng.choice(["#/p1", "#/p2", "#/nope", ""])])
    return ops


def ops_sx(ops) -> str:
    out = []
    for op in ops:
        if op[0] == "rr":
            out.append(f"(rr {hx(op[1])})")
        elif op[0] == "rem1":
            out.append(f"(rem1 {imp_sx(op[1])})")
        else:
            out.append("(" + op[0] + "".join(" " + imp_sx(i) for i in op[1]) + ")")
    return "(" + " ".join(out) + ")"


def real_state(im) -> dict:
    return {
        "imports": [(f, sorted(ns)) for f, ns in im.items() if ns],
        "alias": {f"{f!r}:{n}": a for f, d in list(im.alias.items()) for n, a in d.items()},
        "counter": {f"{k[0]!r}:{k[1]}": v for k, v in im.counter.items() if v != 0},
        "refs": {p: imp_tuple(i) for p, i in im.reference_paths.items()},
        "dump": "\n".join(line for line in (im.create_line(f, ns) for f, ns in list(im.items()) if ns)),
    }


def model_state(x) -> dict | str:
    if x == "raise":
        return "raise"
    assert x[0] == "st", x
    parts, cur = [], []
    for t in x[1:]:
        if t == "|":
            parts.append(cur)
            cur = []
        else:
            cur.append(t)
    parts.append(cur)
    imports, alias, counter, refs, dump = parts
    return {
        "imports": [(un_opt(e[0]), sorted(unhx(n) for n in e[1:])) for e in imports if len(e) > 1],
        "alias": {f"{un_opt(e[0])!r}:{unhx(e[1])}": unhx(e[2]) for e in alias},
        "counter": {f"{un_opt(e[0])!r}:{unhx(e[1])}": int(e[2]) for e in counter if int(e[2]) != 0},
        "refs": {unhx(e[0]): imp_of_sx(e[1]) for e in refs},
        "dump": unhx(dump[0]),
    }


def run_real_history(ops) -> list:
    from datamodel_code_generator.imports import Imports

    im = Imports()
    out = []
    dead = False
    for op in ops:
        if dead:
            out.append("raise")
            continue
        try:
            if op[0] == "app":
                im.append([real_imp(i) for i in op[1]])
            elif op[0] == "rem":
                im.remove([real_imp(i) for i in op[1]])
            else:
                im.remove_referenced_imports(op[1])
            out.append(real_state(im))
        except KeyError:
            dead = True
            out.append("raise")
    return out


def campaign_histories(ck: Check, n: int) -> None:
    camp = ck.campaign("imports.run (Model.Imports.step) vs the real Imports class: state compared after every operation of a history")
    t0 = time.time()
    rng = ck.rng.fork("histories")
    hist = [h for h in HISTORY_CORPUS] + [random_history(rng) for _ in range(n)]
    reps = ck.driver.run([f"imports.run {ops_sx(h)}" for h in hist])
    for h, rep in zip(hist, reps):
        camp.evaluations += 1
        if not rep.startswith("ok "):
            ck.infra_errors.append(f"driver reply {rep[:80]!r} for a history")
            continue
        model = [model_state(x) for x in parse_sx(rep[3:])[0]]
        impl = run_real_history(h)
        camp.hit(f"ops:{min(len(h) // 10 * 10, 40)}+")
        camp.hit("raises" if "raise" in impl else "completes")
        for op in h:
            camp.hit("op:" + op[0])
        camp.distinct.add(ops_sx(h))
        for k, (m, r) in enumerate(zip(model, impl)):
            if m != r:
                ck.disagree(camp, {"history": h[: k + 1], "step": k}, m, r)
                break
        else:
            if len(camp.samples) < 2 and len(h) > 4:
                camp.samples.append({"history": h[:6], "final_dump": impl[-1] if impl[-1] == "raise" else impl[-1]["dump"]})
    camp.wall_s = time.time() - t0


HISTORY_CORPUS = [
    [["app", [{"from": "typing", "name": "X", "alias": "Y", "ref": None}]], ["rem", [{"from": "typing", "name": "X", "alias": None, "ref": None}]],
     ["app", [{"from": "typing", "name": "X", "alias": None, "ref": None}]]],
    [["rem", [{"from": "typing", "name": "X", "alias": None, "ref": None}]], ["app", [{"from": "typing", "name": "X", "alias": None, "ref": None}]],
     ["rem", [{"from": "typing", "name": "X", "alias": None, "ref": None}]]],
    [["app", [{"from": "typing", "name": "X", "alias": None, "ref": None}]], ["rem", [{"from": "typing", "name": "X", "alias": "Q", "ref": None}]]],
    [["app", [{"from": "m", "name": "a.b", "alias": "c", "ref": "#/p1"}]], ["rr", "#/p1"], ["rr", "#/p1"]],
    [["app", [{"from": "b", "name": "X", "alias": None, "ref": None}, {"from": "a", "name": "Y", "alias": None, "ref": None}]],
     ["rem", [{"from": "b", "name": "X", "alias": None, "ref": None}]], ["app", [{"from": "b", "name": "W", "alias": None, "ref": None}]]],
]


# ---------------------------------------------------------------- the pruning step of Parser.parse, taken from the source text
def extract_prune_loop():
    """The `for processed_model in processed_models:` loop of `Parser.parse` that computes `unused_imports`
    and removes them, compiled as a function of `processed_models` (so the model is compared with what the
    source says now)."""
    src = (REPO / "src" / "datamodel_code_generator" / "parser" / "base.py").read_text()
    tree = ast.parse(src)
    for n in ast.walk(tree):
        if isinstance(n, ast.For) and isinstance(n.iter, ast.Name) and n.iter.id == "processed_models" and "unused_imports" in ast.unparse(n):
            fn = ast.parse("def prune(processed_models, Import):\n    pass")
            fn.body[0].body = [n]
            ast.fix_missing_locations(fn)
            ns: dict = {}
            exec(compile(fn, "<prune loop of Parser.parse>", "exec"), ns)  # noqa: S102
            return ns["prune"], ast.unparse(n)
    return None, ""


class _Processed:
    def __init__(self, models, imports) -> None:
        self.models = models
        self.imports = imports


class _Text:
    def __init__(self, s) -> None:
        self.s = s

    def __str__(self) -> str:
        return self.s


def campaign_prune(ck: Check, n: int) -> None:
    from datamodel_code_generator.imports import Import, Imports

    camp = ck.campaign("imports.prune (Model.Imports.prune) vs the pruning loop extracted from Parser.parse, on real Imports objects")
    t0 = time.time()
    fn, text = extract_prune_loop()
    if fn is None:
        ck.disagree(camp, "parser/base.py", "pruning loop", "not found in Parser.parse (restructured?)")
        return
    ck.notes["prune_loop_source"] = text
    rng = ck.rng.fork("prune")
    words = ["Optional", "List", "X", "Y", "Zed", "E", "a.b", "c.d.E", "Opt", "ListX", "x: Optional[X]", "class Y:", "\n", " ", "Zed_1"]
    cases = []
    for _ in range(n):
        h = [op for op in random_history(rng, 12) if op[0] == "app"] or [["app", [{"from": "typing", "name": "X", "alias": None, "ref": None}]]]
        code = [" ".join(rng.choice(words) for _ in range(rng.range(0, 4))) for _ in range(rng.range(1, 2))]
        cases.append((h, code))
    reps = ck.driver.run([f"imports.prune {hx(chr(10).join(c))} {ops_sx(h)}" for h, c in cases])
    for (h, code), rep in zip(cases, reps):
        camp.evaluations += 1
        im = Imports()
        for op in h:
            im.append([real_imp(i) for i in op[1]])
        before = {(f, x) for f, ns in im.items() for x in ns}
        try:
            fn([_Processed([_Text(c) for c in code], im)], Import)
            impl = real_state(im)
        except KeyError:
            impl = "raise"
        model = "raise" if rep == "raise" else model_state(parse_sx(rep[3:])[0]) if rep.startswith("ok ") else rep
        after = set() if impl == "raise" else {(f, x) for f, ns in impl["imports"] for x in ns}
        camp.hit("removed_some" if after != before else "removed_none")
        if after != before:
            camp.distinct.add((ops_sx(h), tuple(code)))
        if model != impl:
            ck.disagree(camp, {"history": h, "code": code}, model, impl)
        elif len(camp.samples) < 2 and after != before:
            camp.samples.append({"code": code, "before": sorted(map(str, before)), "after": sorted(map(str, after))})
    camp.wall_s = time.time() - t0


# ---------------------------------------------------------------- DataType.imports / all_imports / field imports
def campaign_type_imports(ck: Check, n: int, thorough: bool) -> None:
    from datamodel_code_generator.model.base import DataModelFieldBase

    camp = ck.campaign("imports.all / imports.own0 / imports.field vs DataType.all_imports (after type_hint), DataType.imports (before), DataModelFieldBase.imports")
    t0 = time.time()
    rng = ck.rng.fork("type_imports")
    cases = []
    for _ in range(n):
        d = tt.random_tree(rng, max_depth=rng.choice([1, 2, 3, 3]), adversarial=rng.chance(1, 4))
        o = rng.choice(tt.OPTION_VECTORS)
        fb = {"default_factory": rng.chance(1, 8), "nullable": rng.choice([None, None, True, False]), "required": rng.chance(1, 2), "type_has_null": rng.choice([None, None, True, False])}
        cases.append((d, o, fb))
    if thorough:
        for d in tt.small_scope(3):
            for o in tt.OPTION_VECTORS:
                cases.append((d, o, {"default_factory": False, "nullable": None, "required": False, "type_has_null": None}))
    reqs = []
    for d, o, fb in cases:
        s = tt.sx(d)
        nl = "-" if fb["nullable"] is None else ("1" if fb["nullable"] else "0")
        bits = f"({1 if fb['default_factory'] else 0} {nl} {1 if fb['required'] else 0} {1 if fb['type_has_null'] else 0} 1)"
        reqs += [f"imports.all {tt.opt_bits(o)} {s}", f"imports.own0 {tt.opt_bits(o)} {s}", f"imports.field {tt.opt_bits(o)} {bits} {s}"]
    reps = ck.driver.run(reqs)

    def model_list(rep):
        return [imp_of_sx(x) for x in parse_sx(rep[3:])[0]] if rep.startswith("ok ") else rep

    for k, (d, o, fb) in enumerate(cases):
        camp.evaluations += 1
        try:
            dt0 = tt.build(d, o)
            own0 = [imp_tuple(i) for i in dt0.imports]
            dt = tt.build(d, o)
            dt.type_hint  # noqa: B018
            allr = [imp_tuple(i) for i in dt.all_imports]
            f = DataModelFieldBase(name="f", data_type=tt.build(d, o), required=fb["required"], nullable=fb["nullable"], type_has_null=fb["type_has_null"],
                                   extras={"default_factory": "list"} if fb["default_factory"] else {})
            fr = [imp_tuple(i) for i in f.imports]
        except Exception as e:  # noqa: BLE001
            camp.unmodelled += 1
            camp.hit("real_raises:" + type(e).__name__)
            continue
        names = {i[1] for i in allr}
        for nm in sorted(names & {"Optional", "Union", "Literal", "List", "Set", "Dict", "Sequence", "FrozenSet", "Mapping"}):
            camp.hit("import:" + nm)
        camp.distinct.add((json.dumps(d, sort_keys=True, default=str), o))
        for what, model, impl in (("all_imports", model_list(reps[3 * k]), allr), ("imports(before type_hint)", model_list(reps[3 * k + 1]), own0), ("field.imports", model_list(reps[3 * k + 2]), fr)):
            if model != impl:
                ck.disagree(camp, {"tree": d, "opts": list(o), "field": fb, "what": what}, model, impl)
                break
        else:
            if len(camp.samples) < 2 and tt.size(d) > 2:
                camp.samples.append({"tree": d, "opts": list(o), "all_imports": allr})
    camp.wall_s = time.time() - t0


# ---------------------------------------------------------------- static scope analysis of an emitted module
BUILTINS = cs.BUILTINS
names_in = cs.names_in
annotation_names = cs.annotation_names
bound_by = cs.bound_by


def scope_analysis(code: str) -> list[dict]:
    """Problems of one module: eager uses not bound by an earlier statement; annotation names (and
    names in the bodies of lambdas, which run later) bound nowhere; imported names re-bound by a
    later class or assignment.  Hiding inside class bodies is `classscope.class_scope_problems`."""
    tree = ast.parse(code)
    future = cs.has_future_annotations(tree)
    all_bound: set[str] = set()
    for s in tree.body:
        all_bound.update(bound_by(s))
    probs: list[dict] = []
    bound: set[str] = set()
    imported: dict[str, str] = {}

    def N(node):
        return names_in(node, lambdas=False)

    def A(node):
        return annotation_names(node, lambdas=False)

    def eager(names, where, local=(), use="eager"):
        for n in names:
            if n in bound or n in BUILTINS or n in local:
                continue
            probs.append({"mechanism": "order" if n in all_bound else "missing_import", "name": n, "where": where, "use": use})

    def deferred(names, where, use="annotation"):
        for n in names:
            if n in all_bound or n in BUILTINS:
                continue
            probs.append({"mechanism": "missing_import", "name": n, "where": where, "use": use})

    def late(node, where):  # the body of a lambda runs when it is called: module scope, everything defined
        deferred(cs.lambda_names(node), where, "lambda_body")

    def annotation(node, where, local=()):
        if future:
            deferred(A(node), where)
        else:
            eager(A(node), where, local, "annotation")
        late(node, where)

    def base(b, cname):
        if isinstance(b, ast.Subscript):
            eager(N(b.value), f"base of {cname}", use="base_class")
            eager(A(b.slice), f"generic base argument of {cname}", use="generic_base_argument")
        else:
            eager(N(b), f"base of {cname}", use="base_class")
        late(b, f"base of {cname}")

    def class_body(c: ast.ClassDef, qual: str) -> None:
        local: set[str] = set()
        for b in c.body:
            if isinstance(b, ast.AnnAssign) and isinstance(b.target, ast.Name):
                if b.value is not None:  # the value is evaluated and bound first, then (without the future import) the annotation
                    eager(N(b.value), f"default in {qual}", local, "default")
                    late(b.value, f"default in {qual}")
                    local.add(b.target.id)
                annotation(b.annotation, f"annotation in {qual}", local)
            elif isinstance(b, ast.Assign):
                eager(N(b.value), f"assignment in {qual}", local, "class_assignment")
                late(b.value, f"assignment in {qual}")
                local.update(t.id for t in b.targets if isinstance(t, ast.Name))
            elif isinstance(b, (ast.FunctionDef, ast.AsyncFunctionDef)):
                for d in b.decorator_list:
                    eager(N(d), f"decorator in {qual}", local)
                    late(d, f"decorator in {qual}")
                local.add(b.name)
            elif isinstance(b, ast.ClassDef):
                for bb in b.bases:
                    eager(N(bb), f"base of nested {b.name}", local)
                    late(bb, f"base of nested {b.name}")
                local.add(b.name)
                class_body(b, qual + "." + b.name)  # own namespace; the enclosing class's is not visible
            elif isinstance(b, ast.Expr) and not isinstance(b.value, ast.Constant):
                eager(N(b.value), f"statement in {qual}", local, "statement")
                late(b.value, f"statement in {qual}")

    for s in tree.body:
        if isinstance(s, ast.ClassDef):
            for d in s.decorator_list:
                eager(N(d), f"decorator of {s.name}", use="decorator")
                late(d, f"decorator of {s.name}")
            for b in s.bases:
                base(b, s.name)
            for k in s.keywords:
                eager(N(k.value), f"class keyword of {s.name}", use="class_keyword")
                late(k.value, f"class keyword of {s.name}")
            class_body(s, s.name)
        elif isinstance(s, ast.AnnAssign):
            # `X: TypeAlias = <type>`: the right-hand side is evaluated
            if s.value is not None:
                eager(A(s.value) if isinstance(s.annotation, ast.Name) and s.annotation.id == "TypeAlias" else N(s.value), "alias right-hand side", use="alias_rhs")
                late(s.value, "alias right-hand side")
            annotation(s.annotation, "module-level annotation")
        elif isinstance(s, ast.Assign):
            eager(A(s.value), "alias right-hand side", use="alias_rhs")
            late(s.value, "alias right-hand side")
        elif isinstance(s, ast.Expr):
            eager(N(s.value), "statement", use="statement")
            late(s.value, "statement")
        elif isinstance(s, (ast.FunctionDef, ast.AsyncFunctionDef)):
            for d in s.decorator_list:
                eager(N(d), f"decorator of {s.name}")
                late(d, f"decorator of {s.name}")
        for n in bound_by(s):
            if n in imported and not isinstance(s, (ast.Import, ast.ImportFrom)):
                probs.append({"mechanism": "shadowed_name", "name": n, "where": f"{type(s).__name__} re-binds the name imported from {imported[n]}", "use": "rebinding"})
            if isinstance(s, ast.ImportFrom):
                imported[n] = s.module or "."
            elif isinstance(s, ast.Import):
                imported[n] = n
            bound.add(n)
    return probs


# ---------------------------------------------------------------- dynamic: import, then resolve forward references
def classes_of(mod) -> list[type]:
    return [v for v in vars(mod).values() if isinstance(v, type) and getattr(v, "__module__", None) == mod.__name__]


def undefined_name(e: BaseException) -> str | None:
    msg = str(e)
    import re

    m = re.search(r"name '([^']+)' is not defined", msg)
    return m.group(1) if m else None


def leaf_classes(tp, wanted: set) -> set:
    """the classes of `wanted` (classes the module defines) that occur anywhere inside the type `tp`"""
    out: set = set()
    seen: set = set()

    def go(t):
        if id(t) in seen:
            return
        seen.add(id(t))
        if isinstance(t, (list, tuple)):
            for x in t:
                go(x)
            return
        if isinstance(t, type) and t in wanted:
            out.add(t)
        if isinstance(t, type) and hasattr(t, "item_type"):  # pydantic.v1 ConstrainedList / ConstrainedSet
            go(t.item_type)
        for a in typing.get_args(t):
            if isinstance(a, (list, tuple)):
                for x in a:
                    go(x)
            else:
                go(a)

    go(tp)
    return out


def resolved_member_types(cls, kind: str) -> dict:
    """member name → the type the library really works with after resolution"""
    try:
        if kind == "pydantic_v2.BaseModel" and hasattr(cls, "model_fields"):
            return {n: f.annotation for n, f in cls.model_fields.items()}
        if kind == "pydantic.BaseModel" and hasattr(cls, "__fields__"):
            def v1_types(f):
                out = [f.outer_type_, f.type_]
                for sf in f.sub_fields or []:
                    out += v1_types(sf)
                if f.key_field is not None:
                    out += v1_types(f.key_field)
                return out

            return {n: v1_types(f) for n, f in cls.__fields__.items()}
        return dict(typing.get_type_hints(cls, include_extras=True))
    except Exception:  # noqa: BLE001  (reported by the resolution step)
        return {}


def hiding_check(mod, kind: str) -> dict | None:
    """No member or class hides a name the module needs: every class of the module that a member's
    annotation names (evaluated in the module's global scope, where the schema's $ref → class mapping
    lives) must be the class the library resolved the member to — not None, not another object."""
    classes = set(classes_of(mod))
    for cls in classes:
        anns = cls.__dict__.get("__annotations__", {})
        if not anns:
            continue
        resolved = resolved_member_types(cls, kind)
        for member, text in anns.items():
            if not isinstance(text, str) or member not in resolved:
                continue
            try:
                with warnings.catch_warnings():
                    warnings.simplefilter("ignore")
                    expected = eval(text, dict(vars(mod)))  # noqa: S307
            except Exception:  # noqa: BLE001
                continue
            want = leaf_classes(expected, classes)
            have = leaf_classes(resolved[member], classes)
            missing = want - have
            if missing:
                name = sorted(c.__name__ for c in missing)[0]
                return {"mechanism": "shadowed_name", "name": name, "where": f"{cls.__name__}.{member}",
                        # the hiding member is the one named like the class: the annotated member itself, or a sibling
                        "hider": "own_member" if member == name else "sibling_member",
                        "error": f"annotation {text!r} of {cls.__name__}.{member} names the class {name} but resolves to {str(resolved[member])[:120]}: "
                                 f"the member {name!r} of {cls.__name__} hides the class inside the class body"}
    return None


def instance_check(mod, kind: str, root: str, instance) -> dict | None:
    """one conforming instance must be accepted (pydantic kinds only: the others do not validate)"""
    cls = getattr(mod, root, None)
    if cls is None or instance is None:
        return None
    try:
        if kind == "pydantic_v2.BaseModel":
            cls.model_validate(instance)
        elif kind == "pydantic.BaseModel":
            cls.parse_obj(instance)
    except Exception as e:  # noqa: BLE001
        return {"mechanism": "shadowed_name", "name": "", "where": root, "hider": "unknown", "error": f"conforming instance {json.dumps(instance)[:120]} rejected: {type(e).__name__}: {str(e)[:200]}", "instance": True}
    return None


def _exc_event(e: BaseException, code: str, where: str, cls: str | None = None) -> dict:
    site = cs.exception_site(e, code) if cls is None else {"line": None, "top": cls}
    kind = "name_error" if (isinstance(e, NameError) or undefined_name(e)) else "environment" if isinstance(e, ImportError) else "exception"
    return {"where": where, "kind": kind, "type": type(e).__name__, "text": cs.exception_text(e), "undefined": undefined_name(e), "top": site.get("top"), "line": site.get("line")}


def _same_type(a, b) -> bool:
    try:
        return bool(a == b)
    except Exception:  # noqa: BLE001
        return repr(a) == repr(b)


def _norm_none(t):
    return type(None) if t is None else t


def _skeleton(t, depth: int = 0):
    """The shape of a resolved type with everything a library may rewrite left out: the metadata of
    `Annotated[T, …]` (constrained types are fresh `Annotated[str, StringConstraints(…)]` objects on
    every evaluation; pydantic strips/merges metadata) — only `T` counts.  Classes, None/NoneType,
    Any and bare typing aliases are leaves (compared by identity/equality); anything else (ForwardRef,
    TypeVar, a stray value) is the opaque leaf "?".  `Dict[str, constr(min_length=1)]` and
    `Dict[NoneType, constr(min_length=1)]` differ in their skeletons — the comparison the observer
    used before gave up on any type containing an Annotated part and was blind to exactly that."""
    if depth > 12:
        return "?"
    if t is None or t is type(None):
        return ("leaf", type(None))
    if typing.get_origin(t) is typing.Annotated:
        return _skeleton(typing.get_args(t)[0], depth + 1)
    if typing.get_origin(t) is typing.Literal:
        return ("literal", tuple(repr(a) for a in typing.get_args(t)))
    if isinstance(t, (list, tuple)):
        return ("seq", tuple(_skeleton(x, depth + 1) for x in t))
    args = typing.get_args(t)
    if args:
        origin = typing.get_origin(t)
        if origin is typing.Union or (hasattr(types, "UnionType") and origin is types.UnionType):
            return ("union", frozenset(_skeleton(a, depth + 1) for a in args))
        return ("app", origin, tuple(_skeleton(a, depth + 1) for a in args))
    if isinstance(t, type) or t is typing.Any or getattr(t, "__module__", "") in ("typing", "collections.abc"):
        return ("leaf", typing.get_origin(t) or t)  # bare `List` ≙ list
    return "?"


def _opaque(sk) -> bool:
    if sk == "?":
        return True
    if isinstance(sk, (tuple, frozenset)):
        return any(_opaque(x) for x in sk)
    return False


def _differs(expected, have) -> bool | None:
    """do the two resolved types differ in shape?  True = in a part that is not opaque; False = equal
    and nothing opaque; None = cannot tell"""
    a, b = _skeleton(expected), _skeleton(have)
    r = _strip_opaque_equal(a, b)
    if r is False:
        return True
    if r is True and not _opaque(a) and not _opaque(b):
        return False
    return None


def _strip_opaque_equal(a, b) -> bool | None:
    """compare two skeletons position by position, treating "?" as a wildcard; False = they differ
    in a part that is not opaque, None = undecidable (shapes do not line up)"""
    if a == "?" or b == "?":
        return True
    if isinstance(a, tuple) and isinstance(b, tuple):
        if len(a) != len(b):
            return False
        out = True
        for x, y in zip(a, b):
            r = _strip_opaque_equal(x, y)
            if r is False:
                return False
            if r is None:
                out = None
        return out
    if isinstance(a, frozenset) and isinstance(b, frozenset):  # union alternatives: unordered
        if a == b:
            return True
        return None if (_opaque(a) or _opaque(b)) else False
    if isinstance(a, (tuple, frozenset)) != isinstance(b, (tuple, frozenset)):
        return False
    try:
        return bool(a == b)
    except Exception:  # noqa: BLE001
        return None


def dynamic_observe(code: str, kind: str, hidings: list[dict], instance=None, root: str = "Model") -> dict:
    """What really happens: import the module; resolve every class the way its library does
    (model_rebuild / update_forward_refs / typing.get_type_hints); for dataclasses additionally ask
    the evaluators that look into the class namespace first (inspect.get_annotations(eval_str=True));
    compare what the library resolved with the annotation evaluated in the module's global scope.
    Nothing is swallowed: every exception is an event (the oracle attributes it or files it in a
    named bucket)."""
    obs: dict = {"events": [], "silent": [], "hiding": None, "instance": None, "imported": False}
    try:
        mod = e2e.load_module(code, kind)
    except Exception as e:  # noqa: BLE001
        obs["events"].append(_exc_event(e, code, "module import"))
        return obs
    obs["imported"] = True
    try:
        top_of = {}
        for c in classes_of(mod):
            top_of[c] = c.__qualname__.split(".")[0]
        for cls in classes_of(mod):
            try:
                with warnings.catch_warnings():
                    warnings.simplefilter("ignore")
                    if kind == "pydantic_v2.BaseModel":
                        if hasattr(cls, "model_rebuild"):
                            cls.model_rebuild(force=True)
                    elif kind == "pydantic.BaseModel":
                        if hasattr(cls, "update_forward_refs"):
                            cls.update_forward_refs()
                    elif not (kind == "dataclasses.dataclass" and dataclasses.is_dataclass(cls)):
                        typing.get_type_hints(cls, include_extras=True)
            except Exception as e:  # noqa: BLE001
                obs["events"].append(_exc_event(e, code, "resolution of " + cls.__name__, cls=top_of[cls]))
                continue
            if kind == "dataclasses.dataclass" and dataclasses.is_dataclass(cls):
                # who evaluates the annotations of a dataclass, against the annotation evaluated in the module's scope
                expected = {}
                for m, text in cls.__dict__.get("__annotations__", {}).items():
                    if isinstance(text, str):
                        try:
                            with warnings.catch_warnings():
                                warnings.simplefilter("ignore")
                                expected[m] = eval(text, dict(vars(mod)))  # noqa: S307
                        except Exception:  # noqa: BLE001
                            pass
                for consumer, fn in (("typing.get_type_hints", lambda c: typing.get_type_hints(c, include_extras=True)),
                                     ("inspect.get_annotations(eval_str=True)", lambda c: inspect.get_annotations(c, eval_str=True))):
                    try:
                        with warnings.catch_warnings():
                            warnings.simplefilter("ignore")
                            seen = fn(cls)
                    except Exception as e:  # noqa: BLE001
                        ev = _exc_event(e, code, consumer + " of " + cls.__name__, cls=top_of[cls])
                        ev["consumer"] = consumer
                        obs["events"].append(ev)
                        continue
                    for m, t in seen.items():
                        if m in expected and not _same_type(_norm_none(t), _norm_none(expected[m])):
                            obs["silent"].append({"cls": top_of[cls], "member": m, "consumer": consumer, "resolved": str(t)[:80], "module_scope": str(expected[m])[:80]})
        # pydantic v2, no exception: what did the library resolve the members to?
        if kind == "pydantic_v2.BaseModel" and not obs["events"]:
            for cls in classes_of(mod):
                if not hasattr(cls, "model_fields"):
                    continue
                for m, text in cls.__dict__.get("__annotations__", {}).items():
                    f = cls.model_fields.get(m)
                    if not isinstance(text, str) or f is None:
                        continue
                    try:
                        with warnings.catch_warnings():
                            warnings.simplefilter("ignore")
                            expected = eval(text, dict(vars(mod)))  # noqa: S307
                    except Exception:  # noqa: BLE001
                        continue
                    have = f.annotation
                    if typing.get_origin(expected) is typing.Annotated:
                        expected = typing.get_args(expected)[0]
                    if _differs(expected, have):
                        obs["silent"].append({"cls": top_of[cls], "member": m, "consumer": "pydantic (class creation)", "resolved": str(have)[:80], "module_scope": str(expected)[:80]})
        if not obs["events"]:
            obs["hiding"] = hiding_check(mod, kind)
            if instance is not None and not obs["hiding"]:
                obs["instance"] = instance_check(mod, kind, root, instance)
    finally:
        e2e.unload(mod)
    return obs


TYPING_NAMES = {"Optional", "Union", "Literal", "List", "Set", "Dict", "Sequence", "FrozenSet", "Mapping", "Any", "Annotated", "TypeAlias", "NotRequired", "TypedDict"}


def name_class(name: str, code: str) -> str:
    if name.endswith("_aliased"):
        base = name[: -len("_aliased")]
        return "aliased_builtin" if base in BUILTINS else "aliased_local"
    try:
        tree = ast.parse(code)
        if any(name in bound_by(s) for s in tree.body if not isinstance(s, (ast.Import, ast.ImportFrom))):
            return "local_class"
    except SyntaxError:
        pass
    if name in TYPING_NAMES:
        return "typing_name"
    if name in BUILTINS:
        return "builtin"
    return "other"


def counterfactual(code: str, kind: str, ev: dict, hid: list[dict]) -> dict | None:
    """An import exception that is not raised in a class with a hiding problem: is it nevertheless
    caused by one?  Rename the hiding member (one class-level binding at a time) and import again; the
    hiding is the cause when the renamed module imports (or fails differently)."""
    tried = set()
    for p in hid:
        if p["observed_at"] != "import" or (p["cls"], p["name"]) in tried:
            continue
        tried.add((p["cls"], p["name"]))
        new_code = cs.rename_member(code, p["cls"], p["name"], p["name"] + "_renamed_by_verif")
        if new_code is None:
            continue
        try:
            mod = e2e.load_module(new_code, kind)
        except Exception as e:  # noqa: BLE001
            if cs.bucket_key(cs.exception_text(e)) != cs.bucket_key(ev["text"]):
                return p
            continue
        e2e.unload(mod)
        return p
    return None


class Buckets:
    """exceptions of emitted modules that are not name-binding failures: counted per bucket, one
    example each, with the disposition found when the bucket was investigated (cs.TRIAGE)"""

    def __init__(self) -> None:
        self.by_key: dict[str, dict] = {}

    def add(self, ev: dict, inp: dict, code: str) -> str:
        disp, owner, why = cs.triage(ev["text"])
        key = cs.bucket_key(ev["text"])
        b = self.by_key.setdefault(key, {"count": 0, "disposition": disp, "owner": owner, "why": why, "kinds": {}, "where": ev["where"].split(" of ")[0],
                                         "example": {"document": inp.get("document"), "model": inp.get("model"), "opts": inp.get("opts"), "target": inp.get("target"),
                                                     "input_file_type": inp.get("input_file_type"), "exception": ev["text"], "line": ev.get("line"),
                                                     "source_line": (code.split("\n")[ev["line"] - 1].strip()[:160] if ev.get("line") else None)}})
        b["count"] += 1
        b["kinds"][inp.get("model")] = b["kinds"].get(inp.get("model"), 0) + 1
        return disp

    def evidence(self) -> dict:
        return dict(sorted(self.by_key.items(), key=lambda kv: (-kv[1]["count"], kv[0])))


BUCKETS = Buckets()


def shadow_classification(p: dict, kind: str, seen: str, inp: dict, code: str, shown: str = "static") -> dict:
    return {
        "shown_as": shown,
        "oracle": "module_binding",
        "mechanism": "shadowed_name",
        "use": "member_hides_name",
        "name": p["name"],
        "name_class": p["name_class"],
        "hider": p["hider"],
        "hider_binding": p["hider_binding"].split(":")[0],
        "phase": p["phase"],
        "use_kind": p["use_kind"],
        "observed_at": p["observed_at"],
        "effect": p["effect"],
        "dict_key_only": bool(p.get("dict_key_only", False)),
        "kind": kind,
        "seen": seen,
        "alias_pass": p["name"].endswith("_aliased") or f"{p['name']} as {p['name']}_aliased" in code,
        "opts_key": opts_key(inp.get("opts", {})),
        "keep_model_order": bool(inp.get("opts", {}).get("keep_model_order")),
    }


def oracle_module(ck: Check, camp, inp: dict, code: str, kind: str, executable: bool) -> bool:
    """The property on one emitted module. Returns True when it holds.

    Three views must agree: the static scope analysis (module level: `scope_analysis`, class level:
    `classscope.class_scope_problems`), the Lean model of the same (`tie_lean`, batched by the
    caller) and what really happens on import/resolution.  A static hiding that nothing shows
    dynamically, or a dynamic hiding the static analysis did not predict, is a disagreement."""
    if e2e.parses(code) is not None:
        camp.hit("unparsable(C01)")
        return True
    static = scope_analysis(code)
    hid_all = cs.class_scope_problems(code)
    hid = cs.applicable(hid_all, kind)
    for p in hid_all:
        camp.hit(f"static_hiding:{p['phase']}:{p['name_class']}" + ("" if any(q["cls"] == p["cls"] and q["name"] == p["name"] and q["phase"] == p["phase"] and q["user"] == p["user"] for q in hid) else ":kind_not_affected"))
    buckets = getattr(ck, "buckets", None) or BUCKETS
    obs = dynamic_observe(code, kind, hid, inp.get("instance"), inp.get("root", "Model")) if executable else None
    failures: list[tuple[dict, str]] = []  # (classification, observed)
    base = {"oracle": "module_binding", "kind": kind, "opts_key": opts_key(inp.get("opts", {})), "keep_model_order": bool(inp.get("opts", {}).get("keep_model_order")),
            "reuse_and_collapse": bool(inp.get("opts", {}).get("reuse_model") and inp.get("opts", {}).get("collapse_root_models"))}
    doc = inp.get("document")
    definitions = set((doc.get("definitions") or {}) if isinstance(doc, dict) else ())
    definition_parts = definitions | {part for d in definitions for part in d.split(".")}  # `pkg.Name`: module `pkg`, class `Name`
    # named schemas in other modules of a package (`pkg.Name`) whose classes --collapse-root-models may all remove: the output is one module again
    base["collapse_across_modules"] = bool(inp.get("opts", {}).get("collapse_root_models") and any("." in d for d in definitions))

    def binding_failure(mech: str, name: str, where: str, observed: str, seen: str, use: str, hider=None) -> None:
        c = dict(base, mechanism=mech, name=name, name_class=name_class(name, code), use=use, seen=seen,
                 alias_pass=name.endswith("_aliased") or f"{name} as {name}_aliased" in code, text_context=text_context(name, code),
                 # the unbound name is a named schema of the document (or, for `pkg.Name`, its module / its class): the class is not in the module
                 unbound_is_definition=name in definition_parts)
        if hider:
            c["hider"] = hider
        failures.append((c, f"{observed} [{where}]"))

    demonstrated: set[int] = set()
    if obs:
        for ev in obs["events"]:
            if ev["kind"] == "name_error":
                name = ev["undefined"] or "?"
                # a string-valued hiding member handed to a typing construct is taken for a forward reference: resolving
                # it raises NameError for the STRING (`str: … = 'd'` next to `Dict[str, int]` → name 'd' is not defined)
                strc = [i for i, p in enumerate(hid) if p["top"] == ev["top"] and p.get("str_hider") and p["effect"] in ("passed_on", "value_dependent")]
                if strc and name not in identifiers_of(code):
                    demonstrated.update(strc)
                    p = hid[strc[0]]
                    failures.append((shadow_classification(p, kind, "static+dynamic", inp, code, "exception"),
                                     f"{ev['text']} at {ev['where']}: member {p['name']!r} of {p['cls']} has a string value that is taken for a forward reference where the "
                                     f"{p['use_kind']} of {p['cls']}.{p['user']} reads the name {p['name']}"))
                    continue
                st = next((p for p in static if p["name"] == name), None)
                at_import = ev["where"] == "module import"
                mech = st["mechanism"] if st else ("missing_import" if at_import else "unresolved_forward_ref")
                binding_failure(mech, name, ev["where"], ev["text"], "dynamic" + ("+static" if st else ""), st["use"] if st else "resolution")
                continue
            if ev["kind"] == "environment":
                camp.hit("dynamic:environment")
                buckets.add(ev, inp, code)
                continue
            want = "consumer" if ev.get("consumer") else "import"
            cands = [i for i, p in enumerate(hid) if p["top"] == ev["top"] and p["observed_at"] == want]
            cands.sort(key=lambda i: hid[i]["effect"] != "exception")  # the certain raise first
            if cands:  # an exception of a class whose namespace hides a name its annotations/eager expressions use
                demonstrated.update(cands)
                p = hid[cands[0]]
                failures.append((shadow_classification(p, kind, "static+dynamic", inp, code, "exception"),
                                 f"{ev['text']} at {ev['where']}: member {p['name']!r} of {p['cls']} ({p['hider_binding']}) hides the name {p['name']} used by the {p['use_kind']} of {p['cls']}.{p['user']}"))
            else:
                p = counterfactual(code, kind, ev, hid) if want == "import" and ev["where"] == "module import" else None
                if p is not None:  # the exception surfaces in another class (pydantic completes a deferred class later): causal test
                    demonstrated.update(i for i, q in enumerate(hid) if q["cls"] == p["cls"])
                    camp.hit("attributed_by_counterfactual_rename")
                    failures.append((shadow_classification(p, kind, "static+dynamic", inp, code, "exception_elsewhere"),
                                     f"{ev['text']} at {ev['where']} (statement of {ev['top']}); with the member {p['name']!r} of {p['cls']} renamed the module imports: "
                                     f"it hides the name {p['name']} used by the {p['use_kind']} of {p['cls']}.{p['user']}"))
                else:
                    disp = buckets.add(ev, inp, code)
                    camp.hit("exception_not_name_binding:" + disp)
        for s in obs["silent"]:
            cands = [i for i, p in enumerate(hid) if p["cls"] == s["cls"] and p["user"] == s["member"] and p["phase"] == "class_creation" and p["effect"] in ("passed_on", "value_dependent")]
            if cands:
                demonstrated.update(cands)
                p = hid[cands[0]]
                failures.append((shadow_classification(p, kind, "static+dynamic", inp, code, "differing_resolution"),
                                 f"{s['consumer']} resolves {s['cls']}.{s['member']} to {s['resolved']} (module scope: {s['module_scope']}): member {p['name']!r} ({p['hider_binding']}) hides the name"))
            else:
                ck.disagree(camp, dict(inp, code=code), "static class-scope analysis: nothing hidden for this member", s)
        if obs["hiding"]:
            h = obs["hiding"]
            cands = [i for i, p in enumerate(hid) if p["name"] == h["name"] and p["phase"] == "class_creation"]
            if cands:
                demonstrated.update(cands)
                if not any(c["mechanism"] == "shadowed_name" and c["name"] == h["name"] for c, _ in failures):
                    failures.append((shadow_classification(hid[cands[0]], kind, "static+dynamic", inp, code, "differing_resolution"), h["error"]))
            else:
                ck.disagree(camp, dict(inp, code=code), "static class-scope analysis: no member hides " + h["name"], h["error"])
                binding_failure("shadowed_name", h["name"], h["where"], h["error"], "dynamic", "member_hides_class", h.get("hider"))
        if obs["instance"] and not failures:
            i = obs["instance"]
            binding_failure("shadowed_name", "", i["where"], i["error"], "dynamic", "member_hides_class", "unknown")
        # the static analysis predicted a hiding the run does not show: the analysis (or the harness) is wrong
        if obs["imported"] or any(ev["where"] == "module import" and ev["kind"] == "exception" for ev in obs["events"]):
            for i, p in enumerate(hid):
                if i in demonstrated or not p["certain"]:
                    continue
                same_class_failed = any(j in demonstrated and hid[j]["top"] == p["top"] for j in range(len(hid)))
                import_failed_elsewhere = not obs["imported"]
                if same_class_failed or import_failed_elsewhere:
                    continue  # the class (or the module) stopped at an earlier failure: this one was not reached
                ck.disagree(camp, dict(inp, code=code), {k: p[k] for k in ("cls", "name", "phase", "use_kind", "user", "observed_at")}, "no exception and no differing resolution observed")
    else:
        for p in hid:  # msgspec: static only — what plain class-body evaluation makes certain
            if p["effect"] != "exception":
                continue
            failures.append((shadow_classification(p, kind, "static", inp, code),
                             f"static class-scope analysis: member {p['name']!r} of {p['cls']} ({p['hider_binding']}) hides the name {p['name']} used by the {p['use_kind']} of {p['cls']}.{p['user']}"))
    tie = getattr(ck, "tie_cases", None)
    if tie is not None:
        dyn = None if obs is None else ("fails" if any(c["seen"].startswith(("dynamic", "static+dynamic")) for c, _ in failures)
                                        else "stopped_by_other_exception" if any(ev["kind"] != "name_error" for ev in obs["events"]) else "clean")
        tie.append({"input": {k: inp.get(k) for k in ("document", "model", "opts", "target", "input_file_type")}, "code": code, "kind": kind,
                    "python": cs.python_problems(static, hid), "dynamic": dyn})
    if not failures and static:
        p = static[0]
        binding_failure(p["mechanism"], p["name"], p["where"], f"static scope analysis: {p['name']} ({p['where']})", "static", p["use"])
    if not failures:
        return True
    reported = set()
    for cls, observed in failures:  # every distinct failure of the module (a known one must not mask a new one)
        key = (cls["mechanism"], cls["name"], cls["use"], cls.get("phase"))
        if key not in reported:
            reported.add(key)
            ck.fail(cls, dict(inp, code=code), observed)
    return False


def identifiers_of(code: str) -> set[str]:
    """every identifier the module's text reads or binds"""
    out: set[str] = set()
    for n in ast.walk(ast.parse(code)):
        if isinstance(n, ast.Name):
            out.add(n.id)
        elif isinstance(n, (ast.ClassDef, ast.FunctionDef)):
            out.add(n.name)
        elif isinstance(n, ast.alias):
            out.add((n.asname or n.name).split(".")[0])
    return out


def text_context(name: str, code: str) -> str:
    """how the unbound name is written (a finding may be about one spelling only)"""
    if f"{name}[Annotated[" in code:
        return "wraps_annotated"
    return "plain"


def opts_key(opts: dict) -> str:
    """the option combination a finding may depend on"""
    if opts.get("use_generic_container_types") and opts.get("use_standard_collections"):
        return "generic+standard_collections"
    return "any"


def run_prelude(prelude) -> None:
    """earlier generate() calls of the same process (state that survives a run is part of the input)"""
    for p in prelude or []:
        e2e.run_generate(p["document"], input_file_type=p.get("input_file_type", "jsonschema"), model=p["model"],
                         opts=schemagen.materialise_options(p.get("opts", {})), target=p.get("target"))


def e2e_case(ck: Check, camp, doc, kind: str, opts: dict, target: str | None, input_type: str = "jsonschema", feats=(), instance=None,
             prelude=None, modular: bool = False):
    camp.evaluations += 1
    camp.hit("kind:" + kind)
    inp = {"document": doc, "input_file_type": input_type, "model": kind, "opts": opts, "target": target}
    if instance is not None:
        inp["instance"] = instance
    if prelude:
        inp["prelude"] = prelude  # the generate() calls that preceded this one in the same process
    if modular:
        inp["modular"] = True
    with importledger.recording() as rec:
        res = e2e.run_generate(doc, input_file_type=input_type, model=kind, opts=schemagen.materialise_options(opts), target=target, modular=modular)
    ledger = getattr(ck, "ledger_cases", None)
    if ledger is not None and not res.hang:
        for k, (h, inst) in enumerate(zip(rec.histories, rec.instances)):
            if h:
                try:
                    final = real_state(inst)
                except Exception as e:  # noqa: BLE001
                    final = "unreadable:" + type(e).__name__
                ledger.append({"input": inp, "instance": k, "history": h, "final": final, "completed": res.ok})
    if res.hang:
        camp.hit("hang(C01)")
        return
    if not res.ok:
        camp.hit("generator_error:" + res.error_type)
        return
    if "out.py" not in res.files:
        camp.hit("modular_output")
        return
    for f in feats:
        camp.hit("doc:" + f)
    for o in opts:
        camp.hit("opt:" + o)
    if target:
        camp.hit("target:" + target)
    camp.distinct.add((json.dumps(doc, sort_keys=True), kind, json.dumps(opts, sort_keys=True), target))
    ok = oracle_module(ck, camp, inp, res.code, kind, executable=kind in e2e.EXECUTABLE_KINDS)
    camp.hit("holds" if ok else "fails")
    if ok and len(camp.samples) < 2 and len(res.code) > 400:
        camp.samples.append({"document": doc, "model": kind, "opts": opts, "target": target})
    return res


HIDE_OPTS = [{}, {}, {"use_union_operator": True}, {"use_standard_collections": True}, {"use_annotated": True, "field_constraints": True},
             {"use_generic_container_types": True}, {"use_default_kwarg": True}, {"strip_default_none": True}, {"force_optional_for_required_fields": True},
             {"use_field_description": True}, {"collapse_root_models": True}]


def campaign_hiding(ck: Check, camp, rng: Rng, n: int) -> None:
    """members named exactly like the class their type refers to, the $ref 1, 2 or 3 levels down"""
    for d, (schema, value) in schemagen.HIDE_DEFS.items():  # every shape once, pydantic v2 (the kind that renames the member)
        for shape, s, v in schemagen.hide_shapes(d, value)[:: 1 if d == "Address" else 3]:
            doc = {"title": "Model", "type": "object", "properties": {d: s}, "definitions": {d: schema}}
            e2e_case(ck, camp, doc, "pydantic_v2.BaseModel", {}, None, "jsonschema", ["hide:" + shape], instance={d: v})
    for i in range(n):
        doc, inst, feats = schemagen.hiding_document(rng)
        kind = e2e.EXECUTABLE_KINDS[i % 4] if rng.chance(1, 2) else "pydantic_v2.BaseModel"
        e2e_case(ck, camp, doc, kind, dict(rng.choice(HIDE_OPTS)), None, "jsonschema", feats, instance=inst)


def campaign_tie(ck: Check) -> None:
    """Three voices on every emitted module of the e2e campaign: the Lean checker
    `Model.ClassScope.problems` (proved to decide `WellBound`, Props/C02 `problems_decide_wellBound`) on
    the module parsed into the model's syntax, the Python scope analyses, and what importing/resolving
    the module really did."""
    camp = ck.campaign("classscope.tie: Lean Model.ClassScope.problems on the parsed emitted module vs the Python scope analyses vs the dynamic observation")
    t0 = time.time()
    cases = ck.tie_cases
    reqs, idx = [], []
    for i, c in enumerate(cases):
        line = cs.module_sx(c["code"], c["kind"])
        if line is None:
            camp.unmodelled += 1
            camp.hit("statement_form_not_in_model")
            continue
        reqs.append(line)
        idx.append(i)
    reps = ck.driver.run(reqs) if reqs else []
    for i, rep in zip(idx, reps):
        c = cases[i]
        camp.evaluations += 1
        lean = cs.lean_problems(rep)
        if lean is None:
            ck.infra_errors.append(f"driver reply {rep[:80]!r} for classscope.check")
            continue
        camp.hit("kind:" + c["kind"])
        camp.hit(f"lean:{'well_bound' if not lean else 'problems'}/python:{'well_bound' if not c['python'] else 'problems'}/dynamic:{c['dynamic'] or 'not_executable'}")
        for p in lean:
            camp.hit("problem:" + p[0] + (":" + p[4] + ":" + p[5] if p[0] == "hides" else ""))
        if lean:
            camp.distinct.add((c["code"], c["kind"]))
        if lean != c["python"]:
            ck.disagree(camp, dict(c["input"], code=c["code"]), sorted(lean - c["python"]), sorted(c["python"] - lean))
        elif c["dynamic"] == "fails" and not lean:
            ck.disagree(camp, dict(c["input"], code=c["code"]), "well bound", "the import/resolution shows a name-binding failure")
        elif lean and len(camp.samples) < 2:
            camp.samples.append({"model": c["kind"], "document": c["input"]["document"], "lean_problems": sorted(map(list, lean))[:4]})
    camp.wall_s = time.time() - t0


SHADOW_OPTS = [{}, {}, {}, {"use_union_operator": True}, {"use_standard_collections": True}, {"use_annotated": True, "field_constraints": True}, {"field_constraints": True},
               {"use_generic_container_types": True}, {"enum_field_as_literal": "all"}, {"set_default_enum_member": True}, {"use_default_kwarg": True},
               {"use_standard_collections": True, "use_union_operator": True}, {"use_field_description": True}, {"use_unique_items_as_set": True}, {"strip_default_none": True}]
GRID_NAMES = ["Optional", "List", "Dict", "Union", "Literal", "Any", "str", "int", "list", "Field", "field", "BaseModel", "constr", "date", "Model", "Address", "Kind", "Annotated"]


def campaign_shadow(ck: Check, camp, rng: Rng, n: int, grid_kinds: list[str]) -> None:
    """members named like a name the module needs (typing construct, builtin, library name, the
    class itself, a sibling's class): required / optional / with a default / with a Field(...) value,
    before and after the members that use the name, in every output kind"""
    for i, name in enumerate(GRID_NAMES):
        for j, mode in enumerate(schemagen.SHADOW_MODES):
            doc = schemagen.shadow_grid_document(name, mode, "first" if (i + j) % 2 == 0 else "last")
            for kind in grid_kinds:
                e2e_case(ck, camp, doc, kind, {}, None, "jsonschema", [f"shadow_grid:{mode}"])
    for i in range(n):
        doc, feats = schemagen.shadow_document(rng)
        e2e_case(ck, camp, doc, e2e.MODEL_KINDS[i % 5], dict(rng.choice(SHADOW_OPTS)), None, "jsonschema", feats)


# ---------------------------------------------------------------- chains of root models (--collapse-root-models and its neighbours)
def chain_grid() -> list[tuple[dict, dict, list[str]]]:
    """every leaf type × a chain of two named schemas (alias, and inside a list) × collapse on/off ×
    field constraints off/on: the member of the only surviving class is typed with the leaf type"""
    out = []
    for leaf, schema in schemagen.CHAIN_LEAVES.items():
        for link in ("alias", "array"):
            doc = {"title": "Model", "type": "object", "required": ["a"],
                   "properties": {"a": {"$ref": "#/definitions/Outer"}, "n": {"type": "integer"}},
                   "definitions": {"Inner": schemagen.json_copy(schema), "Outer": schemagen._wrap(link, {"$ref": "#/definitions/Inner"})}}
            for opts in ({"collapse_root_models": True}, {"collapse_root_models": True, "field_constraints": True}, {}):
                out.append((doc, opts, [f"chain_grid:{leaf}:{link}"]))
    return out


def campaign_chains(ck: Check, camp, rng: Rng, n: int, grid_stride: int) -> None:
    for i, (doc, opts, feats) in enumerate(chain_grid()):
        if grid_stride == 1:
            kinds = e2e.MODEL_KINDS
        else:  # quick: every case in pydantic v2 (the kind with RootModel classes) and one more kind in rotation
            kinds = ["pydantic_v2.BaseModel", [k for k in e2e.MODEL_KINDS if k != "pydantic_v2.BaseModel"][i % 4]]
        for kind in kinds:
            e2e_case(ck, camp, doc, kind, dict(opts), None, "jsonschema", feats)
    for i in range(n):
        modular = i % 8 == 7  # the chain levels in other modules of a package: judged by the ledger campaign only
        doc, feats = schemagen.chain_document(rng, modular=modular)
        opts = schemagen.chain_options(rng)
        kind = e2e.MODEL_KINDS[i % 5] if rng.chance(3, 4) else "pydantic_v2.BaseModel"
        e2e_case(ck, camp, doc, kind, opts, rng.choice([None, None, "3.9", "3.10"]), "jsonschema", feats + (["chain_modular"] if modular else []), modular=modular)


# ---------------------------------------------------------------- two runs in one process
# a member named like the type it is written with makes Parser.__alias_shadowed_imports alias the import
# (`from datetime import date as date_aliased`); nothing of that may survive the run: the next
# generate() call of the same process — same document, or one that merely uses the type — must bind its names.
PAIR_TYPES = [("date", {"type": "string", "format": "date"}), ("datetime", {"type": "string", "format": "date-time"}), ("time", {"type": "string", "format": "time"}),
              ("timedelta", {"type": "string", "format": "duration"}), ("UUID", {"type": "string", "format": "uuid"}), ("Decimal", {"type": "number", "format": "decimal"}),
              ("AnyUrl", {"type": "string", "format": "uri"}), ("Path", {"type": "string", "format": "path"}), ("IPv4Address", {"type": "string", "format": "ipv4"}),
              ("SecretStr", {"type": "string", "format": "password"}), ("PurePosixPath", {"type": "string", "customTypePath": "pathlib.PurePosixPath"}),
              ("Fraction", {"type": "string", "customTypePath": "fractions.Fraction"}), ("constr", {"type": "string", "minLength": 1}), ("conint", {"type": "integer", "minimum": 0}),
              ("Any", {}), ("str", {"type": "string"}), ("int", {"type": "integer"})]


def campaign_pairs(ck: Check, camp, kinds: list[str]) -> None:
    for i, (name, schema) in enumerate(PAIR_TYPES):
        first = {"title": "Model", "type": "object", "properties": {name: schema, "more": {"type": "array", "items": schema}}}
        second = {"title": "Model", "type": "object", "required": ["v"], "properties": {"v": schema, "vs": {"type": "array", "items": schema}, "n": {"type": "integer"}},
                  "definitions": {"Named": schemagen.json_copy(schema)}}
        second["properties"]["named"] = {"$ref": "#/definitions/Named"}
        for kind in kinds:
            res = e2e_case(ck, camp, first, kind, {}, None, "jsonschema", ["pair:first"])
            if res is not None and "_aliased" in res.code:
                camp.hit("pair:first_run_aliases_the_import")
            pre = [{"document": first, "model": kind, "opts": {}}]
            e2e_case(ck, camp, first, kind, {}, None, "jsonschema", ["pair:same_document_again"], prelude=pre)
            e2e_case(ck, camp, second, kind, {}, None, "jsonschema", ["pair:plain_user_after"], prelude=pre)
            other = e2e.MODEL_KINDS[(e2e.MODEL_KINDS.index(kind) + 1 + i % 4) % 5]
            e2e_case(ck, camp, second, other, {}, None, "jsonschema", ["pair:plain_user_after_other_kind"], prelude=pre)


# ---------------------------------------------------------------- the real append/remove history of Parser.parse vs the ledger discipline
def op_names(op) -> str:
    if op[0] in ("app", "rem"):
        return f"{op[0]} [" + ", ".join(f"{i['from']}.{i['name']}" for i in op[1]) + "]"
    if op[0] == "rem1":
        return f"rem1 {op[1]['from']}.{op[1]['name']}"
    return f"rr {op[1]}"


def campaign_ledger(ck: Check) -> None:
    """Every generate() call of the e2e campaign ran with Imports.append / remove /
    remove_referenced_imports recorded (vlib/importledger.py).  Each recorded history goes through the
    Lean model twice: `ledgerBreak` (Props/C02 `ledger_counts`, `ledger_filed_present` assume a
    disciplined history — the real one must be) and `run` (the model's final state against the real
    object's: counters, names, aliases, reference paths, dump)."""
    camp = ck.campaign("imports.ledger: the REAL append/remove history of every Imports object of Parser.parse (recorded during the e2e campaign's generate() calls): "
                       "disciplined (Model.Imports.ledgerRun) and Model.Imports.run ends in the real object's state")
    t0 = time.time()
    cases = ck.ledger_cases
    reps = ck.driver.run([f"imports.ledger {ops_sx(c['history'])}" for c in cases]) if cases else []
    bad_docs = set()
    for c, rep in zip(cases, reps):
        camp.evaluations += 1
        if not rep.startswith("ok "):
            ck.infra_errors.append(f"driver reply {rep[:80]!r} for imports.ledger")
            continue
        sx = parse_sx(rep[3:])
        verdict, final = sx[0], sx[1]
        h = c["history"]
        kinds_of_op = {op[0] for op in h}
        for k in sorted(kinds_of_op):
            camp.hit("history_has:" + k)
        camp.hit("instance:" + ("parser" if c["instance"] == 0 else "module"))
        camp.hit(f"ops:{min(len(h) // 10 * 10, 50)}+")
        camp.hit("kind:" + c["input"]["model"])
        if c["input"].get("modular"):
            camp.hit("package_output")
        if not c["completed"]:
            camp.hit("generate_raised(prefix_of_a_history)")
        if "rem" in kinds_of_op:
            camp.distinct.add(ops_sx(h))
        doc_key = json.dumps(c["input"], sort_keys=True, default=str)
        if verdict != "disciplined":
            n = int(verdict[1])
            camp.hit("undisciplined")
            if doc_key not in bad_docs:  # one disagreement per document
                bad_docs.add(doc_key)
                ck.disagree(camp, dict(c["input"], imports_instance=c["instance"], step=n, history=[op_names(op) for op in h[: n + 1]]),
                            "disciplined: every batch `remove(model.imports)` takes back a batch that an earlier `append` filed",
                            f"operation {n} ({op_names(h[n])}) takes back a batch that was never filed (or was taken back already)")
            continue
        camp.hit("disciplined")
        model = "raise" if final == "raise" else model_state(final)
        if model == "raise":
            camp.hit("model_raises")
            if c["completed"]:
                ck.disagree(camp, dict(c["input"], imports_instance=c["instance"]), "the history raises KeyError", "generate() completed")
            continue
        if model != c["final"]:
            ck.disagree(camp, dict(c["input"], imports_instance=c["instance"], history=[op_names(op) for op in h]), model, c["final"])
        elif len(camp.samples) < 2 and "rem" in kinds_of_op:
            camp.samples.append({"document": c["input"]["document"], "model": c["input"]["model"], "opts": c["input"]["opts"], "history": [op_names(op) for op in h][:12]})
    camp.wall_s = time.time() - t0


def campaign_e2e(ck: Check, n: int, n_collide: int, n_gql: int, n_hide: int = 60, n_shadow: int = 150, n_chain: int = 200, quick: bool = True) -> None:
    camp = ck.campaign("e2e: generate() → import the module → resolve forward references of every model → no member hides a class its annotation names (+ one conforming instance for the member-named-like-its-class family); static scope analysis (5 kinds, msgspec static only)")
    t0 = time.time()
    rng = ck.rng.fork("e2e")
    # first of all (nothing has run in this process yet, and a failure here carries its prelude for the replay)
    campaign_pairs(ck, camp, ["pydantic_v2.BaseModel", "pydantic.BaseModel"] if quick else e2e.MODEL_KINDS)
    for doc, kind, opts, target, it, *rest in E2E_CORPUS:
        e2e_case(ck, camp, doc, kind, opts, target, it, ["corpus"], instance=rest[0] if rest else None)
    for i in range(n + n_collide):
        collide = i >= n
        doc, feats = schemagen.random_document(rng, collide=collide)
        opts, target = schemagen.random_options(rng)
        kind = e2e.MODEL_KINDS[i % 5] if rng.chance(4, 5) else rng.choice(e2e.MODEL_KINDS)
        e2e_case(ck, camp, doc, kind, opts, target, "jsonschema", feats + (["collide"] if collide else []))
    for i in range(n_gql):
        sdl = random_sdl(rng)
        opts, target = schemagen.random_options(rng)
        opts = {k: v for k, v in opts.items() if k in ("use_union_operator", "use_standard_collections", "use_annotated", "field_constraints", "use_default_kwarg", "snake_case_field")}
        e2e_case(ck, camp, sdl, rng.choice(e2e.MODEL_KINDS), opts, target, "graphql", ["graphql"])
    campaign_hiding(ck, camp, ck.rng.fork("hiding"), n_hide)
    campaign_shadow(ck, camp, ck.rng.fork("shadow"), n_shadow, e2e.MODEL_KINDS)
    campaign_chains(ck, camp, ck.rng.fork("chains"), n_chain, 2 if quick else 1)
    camp.wall_s = time.time() - t0


def random_sdl(rng: Rng) -> str:
    types = rng.sample(["A", "B", "C", "Node", "Pet"], rng.range(1, 3))
    scal = ["Int", "String", "ID", "Boolean", "Float"]
    out = []
    if rng.chance(1, 3):
        out.append("enum Color { RED GREEN }")
        scal = scal + ["Color"]
    for t in types:
        fields = []
        names = rng.sample(["id", "name", "b", "a", "node", "items", "B", "A", "String", "Int", "color", "Pet"], rng.range(1, 4))
        for f in names:
            ty = rng.choice(scal + types + types)
            w = rng.below(5)
            ty = [ty, ty + "!", f"[{ty}]", f"[{ty}!]!", f"[[{ty}]]"][w]
            fields.append(f"  {f}: {ty}")
        out.append(f"type {t} {{\n" + "\n".join(fields) + "\n}")
    return "\n".join(out) + "\n"


E2E_CORPUS = [
    # seed 5 (thorough): a string-valued member `str` next to Dict[str, int] in dataclass output: get_type_hints raises NameError for the string's text (C02-F7), not an unresolved forward reference
    ({"title": "Doc", "type": "object", "properties": {"m": {"type": "object", "additionalProperties": {"type": "integer"}}, "str": {"type": "string", "default": "d"}}},
     "dataclasses.dataclass", {}, None, "jsonschema"),
    # seed 5 (quick): the observer gave up comparing `Dict[str, constr(min_length=1)]` (an Annotated part) and reported a disagreement; the key really resolves to NoneType (C02-F7)
    ({"title": "Str", "type": "object", "required": ["conint"], "properties": {"conint": {"type": "object", "additionalProperties": {"type": "string", "minLength": 1}},
                                                                                 "bool": {"type": "string", "format": "ipv4"}, "str": {"type": "string", "format": "path"}}},
     "pydantic_v2.BaseModel", {"enum_field_as_literal": "all", "collapse_root_models": True}, "3.10", "jsonschema"),
    ({"type": "object", "properties": {"str": {"type": "string"}}}, "pydantic_v2.BaseModel", {}, None, "jsonschema"),
    ({"type": "object", "properties": {"int": {"type": "string"}, "n": {"type": "integer"}}}, "dataclasses.dataclass", {}, None, "jsonschema"),
    ({"type": "object", "required": ["a"], "properties": {"a": {"type": ["array", "null"], "items": {"type": "string"}}}}, "pydantic_v2.BaseModel", {}, None, "jsonschema"),
    ({"type": "object", "required": ["a"], "properties": {"a": {"type": ["array", "null"], "items": {"type": "string"}}}}, "typing.TypedDict", {}, None, "jsonschema"),
    ({"type": "object", "properties": {"date": {"type": "string", "format": "date"}, "d2": {"type": "array", "items": {"type": "string", "format": "date"}}}}, "pydantic.BaseModel", {}, None, "jsonschema"),
    ({"definitions": {"A": {"type": "object", "properties": {"b": {"$ref": "#/definitions/B"}}}, "B": {"type": "object", "properties": {"a": {"$ref": "#/definitions/A"}}}},
      "type": "object", "properties": {"a": {"$ref": "#/definitions/A"}}}, "pydantic_v2.BaseModel", {}, None, "jsonschema"),
    ({"definitions": {"A": {"type": "object", "properties": {"b": {"$ref": "#/definitions/B"}}}, "B": {"type": "object", "properties": {"a": {"$ref": "#/definitions/A"}}}},
      "type": "object", "properties": {"a": {"$ref": "#/definitions/A"}}}, "dataclasses.dataclass", {}, None, "jsonschema"),
    ("type A { B: B }\ntype B { x: Int }\n", "pydantic_v2.BaseModel", {}, None, "graphql"),
    ("type A { b: B  id: ID }\ntype B { x: Int }\n", "pydantic_v2.BaseModel", {}, None, "graphql"),
    # former witnesses of C02-F1 (repaired: Parser.__alias_shadowed_imports / __change_field_name): they must hold, in every executable kind
    *[({"title": "Model", "type": "object", "properties": {"str": {"type": "string"}, "n": {"type": "array", "items": {"type": "string"}}}}, k, {}, None, "jsonschema",
       {"str": "x", "n": ["y"]}) for k in e2e.MODEL_KINDS],
    *[({"title": "Model", "type": "object", "properties": {"int": {"type": "string"}, "float": {"type": "number"}, "n": {"type": "integer"}, "bool": {"type": "boolean"}}}, k, {}, None,
       "jsonschema", {"int": "x", "float": 1.5, "n": 3, "bool": True}) for k in e2e.MODEL_KINDS],
    *[({"title": "Model", "type": "object", "properties": {"Any": {}, "m": {"type": "object", "additionalProperties": True}, "l": {"type": "array", "items": {}}}}, k, o, None,
       "jsonschema", {"Any": 1, "m": {"a": 2}, "l": [1, "x"]}) for k in e2e.MODEL_KINDS for o in ({}, {"use_union_operator": True})],
    *[({"title": "Model", "type": "object", "properties": {"date": {"type": "string", "format": "date"}, "ds": {"type": "array", "items": {"type": "string", "format": "date"}}}}, k, {}, None,
       "jsonschema", {"date": "2020-01-02", "ds": ["2020-01-03"]}) for k in e2e.MODEL_KINDS],
    *[("type A { B: B  String: String  items: [B] }\ntype B { x: Int  A: [A!] }\n", k, {}, None, "graphql") for k in e2e.MODEL_KINDS],
    # former witness of C02-F2 (repaired: the generic + standard-collections branch of DataType.imports yields typing.FrozenSet, the name type_hint
    # writes): it must hold in every kind (msgspec statically), with and without the union operator, and next to a list and a dict member
    *[({"type": "object", "properties": {"a": {"type": "array", "uniqueItems": True, "items": {"type": "string"}}}}, k,
       {"use_generic_container_types": True, "use_standard_collections": True, "use_unique_items_as_set": True, **o}, None, "jsonschema", {"a": ["x", "y"]})
      for k in e2e.MODEL_KINDS for o in ({}, {"use_union_operator": True})],
    *[({"title": "Model", "type": "object", "required": ["s"], "properties": {
        "s": {"type": "array", "uniqueItems": True, "items": {"type": "integer"}}, "l": {"type": "array", "items": {"type": "string"}},
        "d": {"type": "object", "additionalProperties": {"type": "integer"}}}}, k,
       {"use_generic_container_types": True, "use_standard_collections": True, "use_unique_items_as_set": True}, None, "jsonschema",
       {"s": [1, 2], "l": ["x"], "d": {"k": 3}}) for k in e2e.MODEL_KINDS],
    # former witness of C02-F12 (repaired: Parser.__collapse_root_models keeps a root model that is still the base class of the
    # `class B(A): pass` that --reuse-model wrote for its duplicate): two named schemas with the same content under --reuse-model +
    # --collapse-root-models must hold in every kind, with both / only the first / only the second of them used by a member, and with three
    *[({"title": "Model", "type": "object", "properties": props,
        "definitions": {n: {"type": "array", "items": {"type": "string"}} for n in names}}, k,
       {"collapse_root_models": True, "reuse_model": True}, None, "jsonschema", {m: ([["x"], []] if m == "c" else ["x", "y"]) for m in props})
      for k in e2e.MODEL_KINDS
      for names, props in ((("A", "B"), {"a": {"$ref": "#/definitions/A"}, "b": {"$ref": "#/definitions/B"}}),
                           (("A", "B"), {"a": {"$ref": "#/definitions/A"}}),
                           (("A", "B"), {"b": {"$ref": "#/definitions/B"}}),
                           (("A", "B", "C"), {"a": {"$ref": "#/definitions/A"}, "b": {"$ref": "#/definitions/B"}, "c": {"type": "array", "items": {"$ref": "#/definitions/C"}}}))],
]


# ---------------------------------------------------------------- search hooks, known findings, entry points
def search_after_break(ck: Check) -> None:
    """A theorem or a correspondence broke: run the end-to-end oracle on documents biased towards
    import-relevant shapes (unions, optionals, containers, literals) under every spelling."""
    camp = ck.campaign("search: documents × every spelling option vector through the module oracle")
    rng = ck.rng.fork("search")
    # the documents on which a correspondence broke (e.g. an undisciplined import history), in every output kind and under the
    # neighbouring option vectors: the disagreement names the mechanism, the oracle needs a module in which it unbinds a name
    seen_docs = []
    for d in ck.disagreements:
        i = d.input if isinstance(d.input, dict) else {}
        if "document" in i and i["document"] not in seen_docs and len(seen_docs) < 12:
            seen_docs.append(i["document"])
            o = dict(i.get("opts") or {})
            for kind in e2e.MODEL_KINDS:
                for extra in ({}, {"field_constraints": True}, {"field_constraints": True, "use_annotated": True}, {"use_standard_collections": True, "use_union_operator": True}):
                    e2e_case(ck, camp, i["document"], kind, {**o, **extra}, i.get("target"), i.get("input_file_type", "jsonschema"), ["search:disagreeing_document"],
                             modular=bool(i.get("modular")))
                    if ck.failures:
                        return
    # chains of root models: few providers of each import, every leaf type
    chain_rng = ck.rng.fork("search_chains")
    for n in range(300):
        doc, feats = schemagen.chain_document(chain_rng)
        opts = schemagen.chain_options(chain_rng)
        opts["collapse_root_models"] = True
        e2e_case(ck, camp, doc, e2e.MODEL_KINDS[n % 5], opts, None, "jsonschema", feats)
        if ck.failures:
            return
    docs = [
        {"type": "object", "required": ["a", "b"], "properties": {"a": {"type": ["array", "null"], "items": {"type": "string"}}, "b": {"type": "integer"}, "c": {"enum": ["x", "y"]},
                                                                   "d": {"type": "object", "additionalProperties": {"type": "integer"}}, "e": {"anyOf": [{"type": "integer"}, {"type": "string"}]},
                                                                   "f": {"type": "array", "uniqueItems": True, "items": {"type": "integer"}}}},
        {"type": "object", "properties": {"a": {"const": "k"}, "b": {"type": "string", "format": "date-time"}, "c": {"type": "array", "items": {"type": ["string", "null"]}}}},
    ]
    vectors = [{}, {"use_union_operator": True}, {"use_standard_collections": True}, {"use_generic_container_types": True}, {"use_unique_items_as_set": True},
               {"enum_field_as_literal": "all"}, {"use_annotated": True, "field_constraints": True}]
    for doc in docs:
        for kind in e2e.MODEL_KINDS:
            for v in vectors:
                e2e_case(ck, camp, doc, kind, v, None)
                if ck.failures:
                    return
    for _ in range(400):
        doc, feats = schemagen.random_document(rng)
        opts, target = schemagen.random_options(rng)
        e2e_case(ck, camp, doc, rng.choice(e2e.MODEL_KINDS), opts, target, "jsonschema", feats)
        if ck.failures:
            return


def known_findings(ck: Check) -> None:
    for f in ck.findings:
        w = f["witness"]
        probe = Check(ck.prop, ck.tier)
        probe.findings = []
        camp = probe.campaign("witness")
        run_prelude(w.get("prelude"))
        e2e_case(probe, camp, w["document"], w["model"], w.get("opts", {}), w.get("target"), w.get("input_file_type", "jsonschema"), instance=w.get("instance"),
                 prelude=w.get("prelude"), modular=bool(w.get("modular")))
        if any(match_finding([f], fl.classification) for fl in probe.failures):
            ck.known(f["id"], f["what"])
        else:  # the witness no longer fails the way the finding says: the finding is stale (repaired, or its matcher is wrong)
            ck.notes.setdefault("known_findings_not_reconfirmed", []).append(
                {"id": f["id"], "witness_failures": [fl.classification for fl in probe.failures][:3]})


def run(ck: Check) -> None:
    quick = ck.tier == "quick"
    ck.buckets = Buckets()
    ck.tie_cases = []
    ck.ledger_cases = []
    ck.prove()
    ck.assumptions += [
        "Python's name resolution (module scope, class scope first inside a class body, deferred evaluation of annotations under `from __future__ import annotations`, lambda bodies run later in module scope, operands evaluated left to right before the operation) is what vlib/props/c02.py scope_analysis, vlib/classscope.py and lean/Dcg/Model/ClassScope.lean state; all three are compared with each other and with really importing the module on every run",
        "who evaluates annotations in the class namespace: pydantic v2 at class creation (class's own name on top; NameError = forward reference, re-evaluated after the members' values are deleted), dataclass consumers inspect.get_annotations(eval_str=True) / pydantic.TypeAdapter (typing.get_type_hints only for builtin names), nobody for pydantic v1 and TypedDict; msgspec's own resolution is not claimed (msgspec is not installed: its output is judged statically, by what plain class-body evaluation makes certain)",
        "pydantic 2.13 / pydantic.v1 / dataclasses / typing.get_type_hints / inspect.get_annotations decide whether forward references resolve and what the members resolve to",
        "only Python 3.12 executes the output; other target versions are generated and analysed but run on 3.12",
        "DataType.type_hint has been evaluated before DataType.imports is read (DataModelFieldBase.imports does so); is_func/kwargs of constrained types are outside Model.Imports (covered by the field/model imports campaign on the real classes)",
    ]
    campaign_histories(ck, 400 if quick else 4000)
    campaign_prune(ck, 200 if quick else 3000)
    campaign_type_imports(ck, 800 if quick else 4000, thorough=not quick)
    campaign_e2e(ck, 520 if quick else 3000, 140 if quick else 800, 60 if quick else 300, 80 if quick else 800, 150 if quick else 1500,
                 240 if quick else 2400, quick)
    campaign_tie(ck)
    campaign_ledger(ck)
    fieldcover.campaign(ck, 600 if quick else 6000)
    ck.search_hooks.append(search_after_break)
    known_findings(ck)
    ck.notes["exceptions_not_name_binding"] = {
        "rule": "every exception raised by importing an emitted module or by resolving/consuming its classes that the static class-scope analysis does not attribute to a hidden "
                "or unbound name; bucket = exception type + message with quoted names blanked; disposition from the investigation recorded in vlib/classscope.py TRIAGE "
                "(environment = the sandbox lacks a package; other_property = the failure belongs to the named check and is ignored here; untriaged = not seen before, look at the example)",
        "buckets": ck.buckets.evidence(),
    }


def replay(ck: Check, path: str) -> int:
    """the oracle's own verdict on one recorded input (known findings do not silence it; a failure
    that a known finding explains is labelled)"""
    data = json.loads(open(path).read())
    inp = data.get("input") or {}
    findings, ck.findings = ck.findings, []
    ck.buckets = Buckets()
    camp = ck.campaign("replay")
    if "document" in inp:
        run_prelude(inp.get("prelude"))
        e2e_case(ck, camp, inp["document"], inp["model"], inp.get("opts", {}), inp.get("target"), inp.get("input_file_type", "jsonschema"), instance=inp.get("instance"),
                 prelude=inp.get("prelude"), modular=bool(inp.get("modular")))
    for f in ck.failures:
        k = match_finding(findings, f.classification)
        print("REPLAY-FAILS" + (f" (known finding {k['id']})" if k else "") + ":", json.dumps(f.classification), f.observed[:300])
    for d in ck.disagreements:
        print("REPLAY-DISAGREEMENT:", str(d.model)[:200], "|", str(d.impl)[:200])
    for key, b in ck.buckets.evidence().items():
        print(f"REPLAY-EXCEPTION-NOT-NAME-BINDING: {key} [{b['disposition']}: {b['owner']}]")
    if not ck.failures:
        print("replay: the oracle does not fail on this input")
    return 1 if ck.failures or ck.disagreements else 0
