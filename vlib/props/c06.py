"""C06 — each named schema yields exactly one model and every reference lands on it."""
from __future__ import annotations

import ast
import itertools
import json
import re
import time
import typing
from pathlib import Path

from .. import e2e
from ..common import Hang, Rng, hx, unhx, watchdog
from ..runner import Check
from ..translate import c06_tables, formats
from . import c06_dedupe, c06_dirs, c06_ids, c06_walk

# ------------------------------------------------------------------ pools (names that collide after normalisation)
NAMES = [
    "Pet", "pet", "Pet_", "Pets-item", "Pets_item", "PetsItem", "Pets", "pets", "Pet1", "pet_1", "PET", "PetModel",
    "", "class", "None", "false", "1pet", "_pet", "#pet", "#", "pet model", "Pet.", "a.Pet", "a.b.pet", "x.Pet",
]
NON_ASCII_NAMES = ["Pét", "pet⁰", "Ｐet"]
CONTAINERS = ["#/definitions", "#/$defs", "#/components/schemas"]
ROOTS = [[], [], ["a.json"], ["dir", "b.json"]]
FILE_REFS = ["a.json", "a.json#", "a.json#/definitions/Pet", "dir/b.yaml#/x/pet", "Pet.json", "x.y.json#/definitions/pet", "pets.v1.yaml"]
MALFORMED_REFS = ["#foo", "", "../x.json", "./a.json", "a//b.json", "/abs.json", "http://h/x.json#/definitions/Pet", "https://h/p", "#Pet", "##"]


# ------------------------------------------------------------------ tiny S-expression reader for driver replies
def sx_parse(text: str):
    toks = text.replace("(", " ( ").replace(")", " ) ").split()
    stack: list[list] = [[]]
    for t in toks:
        if t == "(":
            stack.append([])
        elif t == ")":
            top = stack.pop()
            stack[-1].append(top)
        else:
            stack[-1].append(t)
    return stack[0]


def enc_strs(xs) -> str:
    return "(" + " ".join(hx(x) for x in xs) + ")"


# ------------------------------------------------------------------ operation sequences
def gen_sequence(rng: Rng, max_ops: int = 30) -> dict:
    """One test case: resolver options + a list of operations (JSON-able)."""
    names = rng.sample(NAMES, rng.range(2, 6))
    if rng.chance(1, 25):
        names.append(rng.choice(NON_ASCII_NAMES))
    conts = rng.sample(CONTAINERS, rng.range(1, 2))
    excl = [n for n in ("Pet", "Pet1", "PetsItem", "Field") if rng.chance(1, 5)]
    sfx = rng.choice(["", "", "", "Model", "X"])
    sing = rng.choice([None, None, None, "", "Thing"])
    ops = []
    root: list[str] = []
    for _ in range(rng.range(3, max_ops)):
        k = rng.below(100)
        name = rng.choice(names)
        cont = rng.choice(conts)
        key = rng.choice(names) if rng.chance(1, 6) else name  # path key and requested name usually agree
        if k < 40:
            shape = rng.below(10)
            if shape < 6:
                path = [*root, cont, key]
            elif shape < 8:
                path = [*root, f"{cont}/{key}"]
            elif shape == 8:
                path = [*root, "", cont, key, ""]
            else:
                path = [*root, cont, key, "items"]
            cls = not rng.chance(1, 10)
            ops.append(
                {
                    "op": "add",
                    "path": path,
                    "orig": name if not rng.chance(1, 12) else "",
                    "cls": cls,
                    "sing": rng.chance(1, 6),
                    "uniq": not rng.chance(1, 5),
                    "sgsfx": rng.choice([None, None, None, "", "Elem"]),
                    "loaded": rng.chance(2, 3),
                }
            )
        elif k < 70:
            r = rng.below(20)
            if r < 13:
                ref = f"{cont}/{key}"
                resolved = False
            elif r < 15:
                ref = "/".join(root) + f"{cont}/{key}"
                resolved = True
            elif r < 16:
                ref = "#"
                resolved = False
            elif r < 18:
                ref = rng.choice(FILE_REFS)
                resolved = rng.chance(1, 4)
            else:
                ref = rng.choice(MALFORMED_REFS)
                resolved = rng.chance(1, 4)
            ops.append({"op": "addref", "ref": ref, "resolved": resolved})
        elif k < 82 or k >= 95:
            r = rng.below(10)
            if r < 5:
                arg = {"s": f"{cont}/{key}"}
            elif r < 8:
                arg = {"q": [cont, key] if rng.chance(1, 2) else [*root, cont, key]}
            elif r < 9:
                arg = {"s": rng.choice(FILE_REFS + ["#"])}
            else:
                arg = {"s": rng.choice(MALFORMED_REFS)}
            ops.append({"op": "get" if k < 82 else "del", "arg": arg})
        else:
            root = list(rng.choice(ROOTS))
            ops.append({"op": "root", "root": root})
    return {"excl": excl, "sfx": sfx, "sing": sing, "ops": ops}


def enc_op(op: dict) -> str:
    b = lambda v: "1" if v else "0"  # noqa: E731
    if op["op"] == "addref":
        return f"(addref {hx(op['ref'])} {b(op['resolved'])})"
    if op["op"] == "add":
        sg = "-" if op["sgsfx"] is None else hx(op["sgsfx"])
        return f"(add {enc_strs(op['path'])} {hx(op['orig'])} {b(op['cls'])} {b(op['sing'])} {b(op['uniq'])} {sg} {b(op['loaded'])})"
    if op["op"] in ("get", "del"):
        a = op["arg"]
        arg = f"(s {hx(a['s'])})" if "s" in a else "(q " + " ".join(hx(x) for x in a["q"]) + ")"
        return f"({op['op']} {arg})"
    return f"(root {enc_strs(op['root'])})"


def enc_case(case: dict, table) -> str:
    sing = "Item" if case["sing"] is None else case["sing"]
    rows = " ".join(f"({hx(n)} {hx(s)} {hx(r)})" for (n, s), r in sorted(table.items()))
    return f"res.run {hx(case['sfx'])} {hx(sing)} {enc_strs(case['excl'])} ({rows}) ({' '.join(enc_op(o) for o in case['ops'])})"


_scratch = None


def scratch_dir() -> Path:
    global _scratch
    if _scratch is None:
        _scratch = Path(e2e.scratch_root()).resolve() / "c06-base"
        _scratch.mkdir(exist_ok=True)
    return _scratch


class SingRecorder:
    """`get_singular_name` (inflect) is an oracle parameter of the model: record what the real one answered."""

    def __init__(self) -> None:
        self.table: dict[tuple[str, str], str] = {}

    def __enter__(self):
        from datamodel_code_generator import reference

        self.mod = reference
        self.orig = reference.get_singular_name

        def wrapper(name, suffix=reference.SINGULAR_NAME_SUFFIX):
            r = self.orig(name, suffix)
            self.table[(name, suffix)] = r
            return r

        reference.get_singular_name = wrapper
        return self

    def __exit__(self, *a):
        self.mod.get_singular_name = self.orig


def observe(res, oids: dict, keep: list) -> list:
    out = []
    for path, r in res.references.items():
        if id(r) not in oids:
            oids[id(r)] = len(oids)
            keep.append(r)
        out.append([path, r.name, r.original_name, r.duplicate_name, bool(r.loaded), oids[id(r)]])
        if r.path != path:
            out[-1].append(f"path-field={r.path}")
    return out


def run_impl(case: dict):
    """Execute the sequence on a real ModelResolver; observable state after every operation."""
    from datamodel_code_generator.reference import ModelResolver

    res = ModelResolver(
        exclude_names=set(case["excl"]),
        duplicate_name_suffix=case["sfx"] or None,
        singular_name_suffix=case["sing"],
        base_path=scratch_dir(),
    )
    oids: dict[int, int] = {}
    keep: list = []
    trace = []
    with SingRecorder() as rec:
        for op in case["ops"]:
            out: typing.Any
            try:
                with watchdog(5.0):
                    if op["op"] == "addref":
                        r = res.add_ref(op["ref"], resolved=op["resolved"])
                        st = observe(res, oids, keep)
                        out = ["ref", oids[id(r)]] if id(r) in oids else ["ref", "dangling"]
                    elif op["op"] == "add":
                        r = res.add(
                            op["path"],
                            op["orig"],
                            class_name=op["cls"],
                            singular_name=op["sing"],
                            unique=op["uniq"],
                            singular_name_suffix=op["sgsfx"],
                            loaded=op["loaded"],
                        )
                        st = observe(res, oids, keep)
                        out = ["ref", oids[id(r)]] if id(r) in oids else ["ref", "dangling"]
                    elif op["op"] == "get":
                        a = op["arg"]
                        r = res.get(a["s"] if "s" in a else a["q"])
                        out = "none" if r is None else ["ref", oids.get(id(r), "dangling")]
                    elif op["op"] == "del":
                        a = op["arg"]
                        res.delete(a["s"] if "s" in a else a["q"])
                        out = "unit"
                    else:
                        res.set_current_root(op["root"])
                        out = "unit"
            except (KeyError, IndexError):
                out = "raised"
            except Hang:
                out = "diverges"
            except Exception as e:  # noqa: BLE001
                out = f"exc:{type(e).__name__}"
            trace.append([out, list(res.current_root), observe(res, oids, keep)])
        return trace, rec.table


def decode_model_trace(reply: str):
    if not reply.startswith("ok"):
        return reply
    items = sx_parse(reply[2:])
    trace = []
    for out, root, entries in items:
        o = ["ref", int(out[1])] if isinstance(out, list) else out
        ents = [
            [unhx(p), unhx(n), unhx(og), None if d == "-" else unhx(d), ld == "1", int(oid)]
            for p, n, og, d, ld, oid in entries
        ]
        trace.append([o, [unhx(x) for x in root], ents])
    return trace


def is_unmodelled_trace(model) -> bool:
    return model == "unmodelled" or (isinstance(model, list) and any(it[0] == "unmodelled" for it in model))


def _add(path, orig, **kw) -> dict:
    return {"op": "add", "path": path, "orig": orig, "cls": True, "sing": False, "uniq": True, "sgsfx": None, "loaded": True, **kw}


# hand-written sequences: the witnesses of Props/C06.lean and past model corrections, run first
SEQ_CORPUS = [
    {"excl": [], "sfx": "", "sing": None, "ops": [_add(["#/definitions", "Pet"], "Pet"), {"op": "addref", "ref": "#/definitions/pet", "resolved": False}, _add(["#/definitions", "pet"], "pet")]},
    {"excl": [], "sfx": "", "sing": None, "ops": [_add(["a"], "x.Pet"), _add(["b"], "x.Pet")]},
    {"excl": [], "sfx": "", "sing": None, "ops": [{"op": "addref", "ref": "#/definitions/Pet", "resolved": False}, {"op": "del", "arg": {"s": "#/definitions/Pet"}}, {"op": "addref", "ref": "#/definitions/Pet", "resolved": False}]},
    {"excl": ["Pet2"], "sfx": "", "sing": None, "ops": [_add(["a"], "Pet"), _add(["b"], "pet"), _add(["c"], "Pet_"), _add(["d"], "Pets", sing=True), _add(["e"], "Pets-item")]},
    {"excl": ["Optional"], "sfx": "Model", "sing": None, "ops": [_add(["#"], "Root"), _add(["#/definitions/Optional"], "Optional"), _add(["#/definitions/optional"], "Optional1"), _add(["#/definitions/o"], "Optional")]},
    {"excl": [], "sfx": "", "sing": "", "ops": [{"op": "root", "root": ["dir", "b.json"]}, {"op": "addref", "ref": "#", "resolved": False}, {"op": "addref", "ref": "a.json", "resolved": False}, {"op": "addref", "ref": "x.y.json#/definitions/pet", "resolved": False}, {"op": "get", "arg": {"q": ["dir", "b.json", "#/definitions", "Pet"]}}, _add(["dir", "b.json", "#/definitions", "Pet"], "", cls=False)]},
    {"excl": [], "sfx": "", "sing": None, "ops": [{"op": "addref", "ref": "#foo", "resolved": False}, {"op": "addref", "ref": "", "resolved": False}, {"op": "addref", "ref": "", "resolved": True}, {"op": "get", "arg": {"s": "http://h/x#/a"}}]},
]


def campaign_sequences(ck: Check, n: int, label: str = "", cases: list | None = None) -> list:
    camp = ck.campaign("Resolver.step vs real ModelResolver: operation sequences, state compared after every op" + label)
    t0 = time.time()
    rng = ck.rng.fork("sequences" + label)
    cases = list(cases if cases is not None else SEQ_CORPUS) + [gen_sequence(rng) for _ in range(n)]
    impl = [run_impl(c) for c in cases]
    replies = ck.driver.run([enc_case(c, tab) for c, (_, tab) in zip(cases, impl)])
    bad = []
    for case, (itrace, _), rep in zip(cases, impl, replies):
        camp.evaluations += 1
        model = decode_model_trace(rep)
        if isinstance(model, str) and model != "unmodelled":
            ck.infra_errors.append(f"driver reply {rep[:200]!r}")
            continue
        camp.hit("ops", len(case["ops"]))
        for op in case["ops"]:
            camp.hit("op:" + op["op"])
        if model == "unmodelled":
            camp.unmodelled += 1
            camp.hit("unmodelled:non-ascii")
            continue
        # compare up to the first operation outside the modelled region
        cut = next((i for i, it in enumerate(model) if it[0] == "unmodelled"), None)
        if cut is not None:
            camp.hit("cut:unmodelled-ref")
            m_cmp, i_cmp = model[:cut], itrace[:cut]
        else:
            m_cmp, i_cmp = model, itrace
        for it in m_cmp:
            camp.hit("out:" + (it[0][0] if isinstance(it[0], list) else it[0]))
        names = [e[1] for e in (m_cmp[-1][2] if m_cmp else [])]
        if len(set(names)) < len(names):
            camp.hit("state:name-collision")
        if any(e[3] for it in m_cmp for e in it[2]):
            camp.hit("state:duplicate_name")
        if m_cmp and len(m_cmp[-1][2]) >= 2:
            camp.distinct.add(json.dumps([case["excl"], case["sfx"], case["sing"], case["ops"][: len(m_cmp)]], sort_keys=True))
        if m_cmp != i_cmp:
            k = next((i for i, (a, b) in enumerate(zip(m_cmp, i_cmp)) if a != b), min(len(m_cmp), len(i_cmp)))
            small = dict(case, ops=case["ops"][: k + 1])
            ck.disagree(camp, small, m_cmp[k] if k < len(m_cmp) else None, i_cmp[k] if k < len(i_cmp) else None)
            bad.append(small)
        elif len(camp.samples) < 2 and len(case["ops"]) <= 8:
            camp.samples.append(case)
    camp.wall_s = time.time() - t0
    return bad


# ------------------------------------------------------------------ function-level correspondence
NAME_UNITS = [
    list("abpPZ"), list("019"), ["_", "__", "-", " ", ".", "#", "$", "/", "~"],
    ["class", "None", "True", "False", "def", "pet", "Pet", "model", "item", "field", "Field"],
    ["é", "⁰", "½", "日", "ǅ"],
]


def gen_name(rng: Rng, ascii_only: bool) -> str:
    groups = NAME_UNITS[:4] if ascii_only else NAME_UNITS
    return "".join(rng.choice(rng.choice(groups)) for _ in range(rng.range(0, 6)))


def simple_campaign(ck: Check, name: str, cases: list, req, impl, key=None, nontrivial=None, classify=None) -> None:
    """Generic differential campaign: `req(case)` is the driver line, `impl(case)` the real answer in
    the reply vocabulary (`("ok", value)`, `"raised"`, `"unmodelled"`…)."""
    camp = ck.campaign(name)
    t0 = time.time()
    replies = ck.driver.run([req(c) for c in cases])
    for c, rep in zip(cases, replies):
        camp.evaluations += 1
        parts = rep.split(" ", 1)
        if parts[0] == "ok":
            body = parts[1] if len(parts) > 1 else ""
            model = ("ok", [unhx(x) for x in sx_parse(body)[0]] if body.startswith("(") else unhx(body))
        else:
            model = rep
        if model == "unmodelled":
            camp.unmodelled += 1
            camp.hit("unmodelled")
            continue
        if isinstance(model, str) and model.startswith("err"):
            ck.infra_errors.append(f"driver reply {rep!r} for {c!r}")
            continue
        try:
            with watchdog(5.0):
                real = impl(c)
        except (KeyError, IndexError):
            real = "raised"
        except Hang:
            real = "diverges"
        if classify:
            camp.hit(classify(c, real))
        if nontrivial is None or nontrivial(c, real):
            camp.distinct.add(json.dumps(key(c) if key else c, sort_keys=True, default=str))
        if model != real:
            ck.disagree(camp, c, model, real)
        elif len(camp.samples) < 2 and (nontrivial is None or nontrivial(c, real)):
            camp.samples.append({"case": c, "result": real})
    camp.wall_s = time.time() - t0


def campaign_functions(ck: Check, n: int) -> None:
    from datamodel_code_generator.reference import ModelResolver, ModelType

    rng = ck.rng.fork("functions")
    base = ModelResolver(base_path=scratch_dir())
    fr = base.field_name_resolvers[ModelType.CLASS]
    names = NAMES + NON_ASCII_NAMES + [gen_name(rng, not rng.chance(1, 10)) for _ in range(n)]
    simple_campaign(
        ck, "classForm? vs ModelResolver.default_class_name_generator (ASCII region)", names,
        lambda s: f"res.classform {hx(s)}", lambda s: ("ok", base.default_class_name_generator(s)),
        nontrivial=lambda s, r: r != ("ok", s),
        classify=lambda s, r: "changed" if r != ("ok", s) else "identity",
    )
    simple_campaign(
        ck, "validName? vs FieldNameResolver(CLASS).get_valid_name(ignore_snake_case_field=True)", names,
        lambda s: f"res.validname {hx(s)}", lambda s: ("ok", fr.get_valid_name(s, ignore_snake_case_field=True)),
        nontrivial=lambda s, r: r != ("ok", s),
    )
    part_pool = ["", "#", "#/a", "a", "a/", "/#", "b#c", "/", "x/#y", "definitions", "Pet", "#/definitions", "a.json", "//#", "#/", "é"]
    paths = [[rng.choice(part_pool) for _ in range(rng.range(0, 5))] for _ in range(n)]
    simple_campaign(
        ck, "joinPath vs ModelResolver.join_path", paths,
        lambda ps: f"res.joinpath {enc_strs(ps)}", lambda ps: ("ok", ModelResolver.join_path(ps)),
        nontrivial=lambda ps, r: len([p for p in ps if p]) >= 2,
    )
    ref_pool = (
        FILE_REFS + MALFORMED_REFS
        + [f"{c}/{k}" for c in CONTAINERS for k in ("Pet", "pet", "Pets-item", "a.b", "é")]
        + ["#", "#/", "#/a#b", "a#b#c", "a.json#x", ".", "..", "a/./b", "a/../b", "dir/", "x y.json#/a b", "~", "a\\b"]
    )

    def real_resolve(c):
        root, ref = c
        base.set_current_root(root)
        try:
            return ("ok", base.resolve_ref(ref))
        finally:
            base.set_current_root([])

    rcases = []
    for _ in range(n):
        root = ["http://h", "x.json"] if rng.chance(1, 15) else list(rng.choice(ROOTS))
        rcases.append([root, rng.choice(ref_pool)])
    simple_campaign(
        ck, "resolveRef vs ModelResolver.resolve_ref (local pointers, plain relative files)", rcases,
        lambda c: f"res.resolve {enc_strs(c[0])} {hx(c[1])}", real_resolve,
        nontrivial=lambda c, r: isinstance(r, tuple),
        classify=lambda c, r: "ok" if isinstance(r, tuple) else str(r),
    )
    # idempotence of resolve_ref on the real class, over the results of the campaign above
    camp = ck.campaign("resolve_ref(resolve_ref(r)) == resolve_ref(r) on the real class (modelled region)")
    for root, ref in rcases:
        if root and root[0].startswith("http"):
            continue
        try:
            once = real_resolve([root, ref])[1]
            rep = ck_resolve_cache(ck, root, ref)
        except (KeyError, IndexError):
            continue
        if rep != "ok":
            continue
        camp.evaluations += 1
        camp.distinct.add(json.dumps([root, ref]))
        twice = real_resolve([root, once])[1]
        if twice != once:
            ck.fail({"oracle": "resolve_idempotent"}, {"root": root, "ref": ref}, f"resolve_ref twice gives {twice!r}, once {once!r}")
    # which strings are `$id`/anchor references: the model's reading of ID_PATTERN vs the real pattern object
    from datamodel_code_generator import reference as _reference

    irng = Rng(rng.s, "id-refs")  # a stream of its own: the draws of the campaigns below stay what they were
    id_cases = list(dict.fromkeys(
        ["#" + a for a in anchor_scope_names()] + [a for a in anchor_scope_names()[:40]]
        + ["", "#", "#/", "#//", "#/a", "#/definitions/Pet", "a.json#b", "a#", "/#a", " #a", "\n#a", "#\n", "#a\n", "#\n/", "##/", "#a/", "# /"]
        + ["#" + gen_name(irng, not irng.chance(1, 6)) for _ in range(n)]
    ))
    simple_campaign(
        ck, "isIdRef vs reference.ID_PATTERN.match (which references go to the $id registry)", id_cases,
        lambda r: f"res.isidref {hx(r)}", lambda r: ("ok", "1" if _reference.ID_PATTERN.match(r) else "0"),
        nontrivial=lambda r, res: r.startswith("#") and len(r) > 1,
        classify=lambda r, res: ("id-ref" if res == ("ok", "1") else "not-id-ref") + ":" + (anchor_shape(r[1:]) if r.startswith("#") and len(r) > 1 and r[1] != "/" else "pointer-or-other"),
    )
    stems = [rng.choice(["", ".", "..", "a", "a.b", ".a", "a.", "a.b.c", "..a", "a..", "Pet.json", "x.y.yaml", "#", "é.ü"]) for _ in range(60)]
    simple_campaign(
        ck, "stem vs pathlib.Path(x).stem (x without '/')", stems,
        lambda s: f"res.stem {hx(s)}", lambda s: ("ok", Path(s).stem),
    )

    # _get_unique_name with a planted set of taken names
    def real_unique(c):
        r = ModelResolver(exclude_names=set(c["excl"]), duplicate_name_suffix=c["sfx"] or None, base_path=scratch_dir())
        for i, nm in enumerate(c["refs"]):
            r.references[f"p{i}#"] = r.add_ref(f"p{i}#", resolved=True)
            r.references[f"p{i}#"].name = nm
        return ("ok", r._get_unique_name(c["name"], camel=c["camel"]))  # noqa: SLF001

    ucases = []
    for _ in range(n):
        name = rng.choice(["Pet", "pet", "", "Pet1", "a_b", "X"])
        sfx = rng.choice(["", "", "Model", "_", "1"])
        camel = rng.chance(1, 2)
        d = "" if camel else "_"
        k = rng.range(0, 14)
        cands = [name] + [d.join(p for p in ([name, str(i)] if not sfx else [name, sfx, str(i - 1) if i > 1 else ""]) if p) for i in range(1, 16)]
        tk = [c for c in cands[:k] if not rng.chance(1, 8)] + [rng.choice(["Other", "Pet2", "pet_3", "PetModel", "1", "Model"]) for _ in range(rng.below(3))]
        cut = rng.below(len(tk) + 1)
        ucases.append({"name": name, "sfx": sfx, "camel": camel, "refs": tk[:cut], "excl": tk[cut:]})
    simple_campaign(
        ck, "uniqueName (cand/goU with fuel |taken|+1) vs ModelResolver._get_unique_name", ucases,
        lambda c: f"res.unique {hx(c['sfx'])} {'1' if c['camel'] else '0'} {enc_strs(c['refs'] + c['excl'])} {hx(c['name'])}",
        real_unique,
        nontrivial=lambda c, r: r != ("ok", c["name"]),
        classify=lambda c, r: "suffixed" if r != ("ok", c["name"]) else "free",
    )


_resolve_cache: dict = {}


def ck_resolve_cache(ck: Check, root, ref) -> str:
    k = json.dumps([root, ref])
    if k not in _resolve_cache:
        _resolve_cache[k] = ck.driver.run([f"res.resolve {enc_strs(root)} {hx(ref)}"])[0].split(" ")[0]
    return _resolve_cache[k]


class FakeImport:
    def __init__(self, name: str) -> None:
        self.alias = None
        self.import_ = name


class FakeModel:
    """Duck-typed stand-in for DataModel: exactly the attributes the per-module pass touches."""

    def __init__(self, path: str, cls: str, dup: str, imports: list[str]) -> None:
        self.path, self.class_name, self.duplicate_class_name = path, cls, dup
        self.imports = [FakeImport(i) for i in imports]


def real_modpass(c):
    from datamodel_code_generator.parser.base import Parser

    models = [FakeModel(p, cl, d, c["imports"]) for p, cl, d in c["models"]]
    Parser._Parser__replace_duplicate_name_in_module(models)  # noqa: SLF001
    return ("ok", [m.class_name for m in models])


def gen_modpass(rng: Rng) -> dict:
    pool = ["Pet", "Pet1", "PetModel", "PetModel1", "Pets", "Optional", "BaseModel", "Item", "pet", "Pet_", "class_", "A"]
    n = rng.range(1, 6)
    models = []
    for i in range(n):
        cl = rng.choice(pool)
        dup = rng.choice(pool) if rng.chance(1, 3) else ""
        path = f"#/definitions/k{i}" if not rng.chance(1, 12) else "#/definitions/k0"
        models.append([path, cl, dup])
    return {"imports": rng.sample(["Optional", "BaseModel", "Pet", "PetModel", "Item"], rng.below(4)), "models": models}


def campaign_modpass(ck: Check, n: int) -> None:
    rng = ck.rng.fork("modpass")
    cases = [
        {"imports": ["Optional", "BaseModel"], "models": [["#", "Root", ""], ["#/definitions/Optional", "Optional", ""], ["#/definitions/optional", "Optional1", "Optional"]]},
        {"imports": [], "models": [["#/definitions/Pet", "Pet", ""], ["#/definitions/pet", "Pet", ""]]},
    ] + [gen_modpass(rng) for _ in range(n)]
    simple_campaign(
        ck, "replaceDuplicateNameInModule vs Parser.__replace_duplicate_name_in_module (duck-typed models)", cases,
        lambda c: f"res.modpass {enc_strs(c['imports'])} ({' '.join('(' + ' '.join(hx(x) for x in m) + ')' for m in c['models'])})",
        real_modpass,
        nontrivial=lambda c, r: isinstance(r, tuple) and r[1] != [m[1] for m in c["models"]],
        classify=lambda c, r: "renamed" if isinstance(r, tuple) and r[1] != [m[1] for m in c["models"]] else ("unchanged" if isinstance(r, tuple) else str(r)),
    )


# ------------------------------------------------------------------ end-to-end oracle
E2E_KEYS = [
    "Pet", "pet", "Pet_", "Pets-item", "Pets_item", "PetsItem", "Pets", "pets", "Pet1", "pet_1", "PetModel", "PET",
    "Optional", "BaseModel", "Model", "Root", "class", "1pet", "_pet", "pet model", "Any", "List", "Field", "None",
]
CORE_KEYS = ["Pet", "pet", "Pet_", "Pets-item", "PetsItem", "Pet1", "PetModel", "Optional"]
E2E_CONTAINERS = ["definitions", "$defs", "components/schemas"]
WRAPPERS = {"Optional", "List", "Union", "Sequence", "NotRequired", "Required", "Annotated", "Set", "Dict", "Mapping"}


def cont_of(case: dict, j: int) -> str:
    return (case.get("containers") or [case["container"]] * len(case["keys"]))[j]


# ------------------------------------------------------------------ the family of anchor names
# A definition that is the target of an 'anchor' edge (or of a root reference listed in `root_anchors`)
# declares `"$id": "#<name>"` and is referenced as `"$ref": "#<name>"` — the IDENTICAL string.  `<name>` is a
# parameter of the case (`case["anchors"][j]`; absent / null = the historical `anc{j}`).  The family: every
# non-empty string that does not start with "/" ("#" alone is the document root and "#/…" is a JSON pointer:
# those are not anchors, the property's `$id`/anchor clause does not speak about them) and does not end in "#/"
# (see below), the names emitted into one
# file pairwise different (two subschemas declaring the same `$id` make the reference ambiguous).  Inside the
# family sit the plain names of the JSON-Schema drafts (`^[A-Za-z][-A-Za-z0-9.:_]*$`, class `spec`) and the near
# misses that the generator accepts as well and resolves by string identity (its rule is "`#` followed by
# anything but `/`"): digit-/underscore-/hyphen-initial, non-ASCII letters, blanks and percent signs, further
# `#`, a later `/`, other punctuation.  Every class was run on the unchanged tree before it was admitted.
# One more exclusion, found by the systematic scope: a name that ends in `#/` — `JsonSchemaObject.validate_ref`
# reads a `$ref` that ends in `#/` as the root pointer `…#` and drops the `/`, so the reference `##/` is not the
# string `##/` any more when it is looked up (KeyError '##'); `#` cannot occur inside a URI fragment at all, and
# the property does not promise anything for a reference whose spelling the `$ref` reader normalises away.
PLAIN_NAME = r"[A-Za-z][-A-Za-z0-9.:_]*"


def in_anchor_family(name) -> bool:
    return isinstance(name, str) and name != "" and name[0] != "/" and not name.endswith("#/")


ANCHOR_POOLS: dict[str, list[str]] = {
    "letters": ["address", "Foo", "anchor", "Anchor", "ANCHOR", "item", "a", "Z", "thing", "Thing"],
    "hyphen": ["street-address", "order-line", "a-b", "x-", "a--b", "Pets-item"],
    "dot": ["a.b", "v1.2", "a.", "x.y.z", "a.json"],
    "colon-underscore-digit": ["ns:item", "a_b", "a1", "item2", "a:", "A_1.b:c-d", "urn:x"],
    "digit-initial": ["1a", "007", "1", "2-b"],
    "underscore-initial": ["_a", "__", "_", "_1"],
    "hyphen-dot-colon-initial": ["-a", "-", ".", "..", ".a", ":a"],
    "non-ascii": ["\u00e9", "adr\u00ebsse", "\u65e5\u672c", "\uff21", "a\u00e9", "\u00dcn\u00ef", "pet\u2070"],
    "blank-percent": ["a b", "a%20b", "%", " a", "a ", "a\tb", "%41"],
    "hash": ["#", "#a", "a#", "a#b", "##"],
    "later-slash": ["a/b", "definitions/Pet", "a/", "$defs/x"],
    "punct": ["a?b", "a&b=c", "$a", "a~1b", "!", "a+b", "a@b", "(a)", "a,b", "a;b", "a'b", 'a"b', "a\\b", "{a}", "[a]", "*", "a|b", "<a>", "a=b"],
    "newline": ["a\nb"],
    "long": ["a" * 70, "street-address-" * 6 + "x"],
}


def anchor_shape(name: str | None) -> str:
    """the class of an anchor name (input distribution, failure classification)"""
    if name is None or re.fullmatch(r"anc\d+", name):
        return "default"
    if re.fullmatch(PLAIN_NAME, name):
        if "-" in name:
            return "spec:hyphen"
        if "." in name or ":" in name:
            return "spec:dot-colon"
        return "spec:word" if len(name) > 1 else "spec:one-letter"
    if not name.isascii():
        return "near:non-ascii"
    c = name[0]
    if c.isdigit():
        return "near:digit-initial"
    if c == "_":
        return "near:underscore-initial"
    if c in "-.:":
        return "near:hyphen-dot-colon-initial"
    if "#" in name:
        return "near:hash"
    if "/" in name:
        return "near:later-slash"
    if any(ch in name for ch in " %\t\n"):
        return "near:blank-percent"
    return "near:punct"


def anchor_of(case: dict, j: int) -> str:
    a = (case.get("anchors") or [None] * len(case["keys"]))[j]
    return f"anc{j}" if a is None else a


def anchored_defs(case: dict) -> list[int]:
    """definitions that declare an `$id` in the document built from `case`"""
    files = case.get("files") or [0] * len(case["keys"])
    out = {j for i, j, k in case["edges"] if k == "anchor" and files[i] == files[j]}
    out |= {i for i in case.get("root_anchors") or [] if files[i] == 0}
    return sorted(out)


def check_anchor_family(case: dict) -> None:
    """raise ValueError for a case outside the family described above"""
    files = case.get("files") or [0] * len(case["keys"])
    seen: set = set()
    for j in anchored_defs(case):
        a = anchor_of(case, j)
        if not in_anchor_family(a):
            raise ValueError(f"anchor name {a!r} of definition {j} is outside the family: '#' is the document root, '#/...' a JSON pointer, "
                             "and a reference ending in '#/' is rewritten by the $ref reader")
        if (files[j], a) in seen:
            raise ValueError(f"anchor name {a!r} declared twice in one file: the reference is ambiguous")
        seen.add((files[j], a))
    for _, j, k in case["edges"]:
        if k == "deepanchor" and (files[j], f"ancsub{j}") in seen:
            raise ValueError(f"anchor name 'ancsub{j}' is taken by the nested object of definition {j}")
    if any(i not in case["root_refs"] for i in case.get("root_anchors") or []):
        raise ValueError("root_anchors must be a subset of root_refs")


def gen_anchor_names(rng: Rng, keys: list[str]) -> list[str]:
    """one anchor name per definition, pairwise different: pools by class, names equal to a definition key /
    to the class-name form of a key, case variants of one another, random compositions of class units"""
    out: list[str] = []
    for j in range(len(keys)):
        for _ in range(20):
            k = rng.below(20)
            if k < 12:
                name = rng.choice(ANCHOR_POOLS[rng.choice(list(ANCHOR_POOLS))])
            elif k < 14:  # equal to a definition key of the document (its own or another one's), or a colliding spelling
                name = rng.choice(keys + E2E_KEYS[:12])
            elif k < 16 and out:  # differs from an earlier anchor only in case / by one character
                prev = rng.choice(out)
                name = rng.choice([prev.swapcase(), prev.upper(), prev.lower(), prev + rng.choice("-._:1x"), prev[:-1] or prev + prev])
            elif k < 17:
                name = f"anc{rng.below(len(keys))}"  # the historical name, possibly of ANOTHER definition
            else:
                units = ["a", "b", "Z", "pet", "Pet", "1", "9", "_", "-", ".", ":", "\u00e9", " ", "%", "#", "/", "~", "$", "?"]
                name = "".join(rng.choice(units) for _ in range(rng.range(1, 5)))
            if in_anchor_family(name) and name not in out:
                break
        else:
            name = f"anchor-{j}"
        out.append(name)
    return out


ANCHOR_ALPHABET = ["a", "Z", "7", "_", "-", ".", ":", "\u00e9", " ", "%", "#", "/", "~"]


def anchor_scope_names() -> list[str]:
    """the systematic small scope of the anchor-name family: every member of every class pool, then ALL names of
    length <= 2 over one representative per character class (lower/upper letter, digit, `_ - . :`, non-ASCII letter,
    blank, `%`, `#`, `/`, `~`) that are inside the family (not starting with `/`)"""
    out = [a for pool in ANCHOR_POOLS.values() for a in pool]
    out += list(ANCHOR_ALPHABET)
    out += [a + b for a in ANCHOR_ALPHABET for b in ANCHOR_ALPHABET]
    return [a for a in dict.fromkeys(out) if in_anchor_family(a)]


def ref_to(case: dict, i_from: int | None, j: int, kind: str = "ref") -> str:
    """JSON reference from definition i_from (None = root object of main.json) to definition j"""
    files = case.get("files") or [0] * len(case["keys"])
    f_from = 0 if i_from is None else files[i_from]
    same_file = files[j] == f_from
    if kind == "anchor" and same_file:
        return "#" + anchor_of(case, j)
    file_part = "" if same_file else ("other.json" if files[j] == 1 else "main.json")
    return f"{file_part}#/{cont_of(case, j)}/{case['keys'][j]}" + (f"/properties/sub{j}" if kind == "deep" else "")


def chain_info(case: dict) -> tuple[set, set]:
    """(definitions that get the entry member e{k}, extras objects reachable from them).
    Only chain heads (never the target of a chain edge) get an entry, so the other objects are reachable
    only through objects that are themselves found by reference; a pure cycle gets one entry."""
    ch = [(i, j) for i, j, k in case["edges"] if k == "chain"]
    nodes = {k for e in ch for k in e}
    entries = {i for i in nodes if all(j != i for _, j in ch)} or ({min(nodes)} if nodes else set())
    reach, todo = set(), list(entries)
    while todo:
        k = todo.pop()
        if k not in reach:
            reach.add(k)
            todo += [j for i, j in ch if i == k]
    for k in sorted(nodes - reach):  # components that are pure cycles
        if k not in reach:
            entries.add(k)
            todo = [k]
            while todo:
                x = todo.pop()
                if x not in reach:
                    reach.add(x)
                    todo += [j for i, j in ch if i == x]
    return entries, reach


def build_e2e_doc(case: dict) -> tuple[typing.Any, str]:
    """case = {container, keys (document order), edges [[i, j, 'ref'|'array'|'deep'|'anchor'|'chain'|'deepanchor']], root_refs [i…],
    files (optional: 0 = main.json, 1 = other.json per definition),
    containers (optional: container per definition, for documents that have `definitions` AND `$defs`),
    anchors (optional: anchor name per definition, null = `anc{j}`; see "the family of anchor names"),
    root_anchors (optional: those of root_refs that the root object writes as `$ref: "#<anchor>"`)}.
    Every definition i carries the marker member `mk{i}x`; the root object carries `mkrootx`; a definition
    that is the target of a 'deep' edge has a nested object `sub{j}` with marker `mkd{j}x`; the target of an
    'anchor' edge (same file) or of a root anchor reference has `$id: "#<anchor name>"`; the target of a
    'deepanchor' edge has the nested object `sub{j}` with `$id: "#ancsub{j}"`, referenced as `#ancsub{j}` (member `n{i}to{j}`).
    Returns (document or {file name: document}, input file type)."""
    check_anchor_family(case)
    keys = case["keys"]
    files = case.get("files") or [0] * len(keys)
    defs: list[dict] = [{}, {}]  # per file: container -> key -> schema
    for i, k in enumerate(keys):
        defs[files[i]].setdefault(cont_of(case, i), {})[k] = {"type": "object", "properties": {f"mk{i}x": {"type": "integer"}}}

    def schema(j: int) -> dict:
        return defs[files[j]][cont_of(case, j)][keys[j]]

    extras: dict = {}

    for i, j, kind in case["edges"]:
        props = schema(i)["properties"]
        if kind == "array":
            props[f"a{i}to{j}"] = {"type": "array", "items": {"$ref": ref_to(case, i, j)}}
        elif kind == "deep":
            schema(j)["properties"].setdefault(f"sub{j}", {"type": "object", "properties": {f"mkd{j}x": {"type": "integer"}}})
            props[f"d{i}to{j}"] = {"$ref": ref_to(case, i, j, "deep")}
        elif kind == "deepanchor":
            # the nested object `sub{j}` of definition j declares an `$id` of its own and is referenced through it
            if files[i] != files[j]:
                raise ValueError("a 'deepanchor' edge is same-file only")
            sub = schema(j)["properties"].setdefault(f"sub{j}", {"type": "object", "properties": {f"mkd{j}x": {"type": "integer"}}})
            sub["$id"] = f"#ancsub{j}"
            props[f"n{i}to{j}"] = {"$ref": f"#ancsub{j}"}
        elif kind == "chain":
            # objects outside every definitions container (`#/extras/s{k}`), reachable only through
            # references: s{i} points at s{j}, so s{j} is discovered while the reserved-reference
            # work list is being processed (several rounds for a chain)
            for k in (i, j):
                extras.setdefault(f"s{k}", {"type": "object", "properties": {f"mke{k}x": {"type": "integer"}}})
                if k in chain_info(case)[0]:
                    schema(k)["properties"][f"e{k}"] = {"$ref": f"#/extras/s{k}"}
            extras[f"s{i}"]["properties"][f"c{i}to{j}"] = {"$ref": f"#/extras/s{j}"}
        else:
            props[f"r{i}to{j}"] = {"$ref": ref_to(case, i, j, kind)}
    for j in anchored_defs(case):
        schema(j)["$id"] = "#" + anchor_of(case, j)
    if case["container"] == "components/schemas":
        return {"openapi": "3.0.0", "info": {"title": "t", "version": "1"}, "paths": {}, "components": {"schemas": defs[0].get("components/schemas", {})}}, "openapi"
    props = {"mkrootx": {"type": "integer"}}
    root_anchors = case.get("root_anchors") or []
    for i in case["root_refs"]:
        props[f"rRto{i}"] = {"$ref": ref_to(case, None, i, "anchor" if i in root_anchors else "ref")}
    main = {"title": "RootDoc", "type": "object", "properties": props, **defs[0]}
    if extras:
        main["extras"] = extras
    if 1 in files:
        return {"main.json": main, "other.json": dict(defs[1])}, "jsonschema"
    return main, "jsonschema"


def run_generate_files(files: dict, model: str, timeout: float = 20.0) -> e2e.Result:
    """like e2e.run_generate, for a main.json that references sibling files (single-file output)"""
    import contextlib
    import io
    import os
    import shutil
    import tempfile
    import warnings

    import datamodel_code_generator as d

    work = Path(tempfile.mkdtemp(dir=e2e.scratch_root()))
    for name, doc in files.items():
        (work / name).write_text(json.dumps(doc))
    out = work / "out.py"
    res = e2e.Result(ok=False)
    cwd = os.getcwd()
    t0 = time.time()
    try:
        with watchdog(timeout), warnings.catch_warnings(), contextlib.redirect_stderr(io.StringIO()):
            warnings.simplefilter("ignore")
            d.generate(work / "main.json", input_file_type=d.InputFileType.JsonSchema, output=out,
                       output_model_type=d.DataModelType(model), formatters=[], disable_timestamp=True)
        res.ok = True
    except Hang as ex:
        res.hang, res.error_type, res.error_msg = True, "Hang", str(ex)
    except BaseException as ex:  # noqa: BLE001
        if isinstance(ex, (KeyboardInterrupt, SystemExit)):
            raise
        res.error_type, res.error_msg = type(ex).__name__, str(ex)[:300]
    finally:
        if os.getcwd() != cwd:
            os.chdir(cwd)
    res.wall_s = time.time() - t0
    if out.is_file():
        res.files["out.py"] = out.read_text(encoding="utf-8")
    shutil.rmtree(work, ignore_errors=True)
    return res


def ann_leaves(node) -> list[str]:
    """class names an annotation points at, wrappers (`Optional[...]`, `List[...]`, `X | None`) removed"""
    if isinstance(node, ast.Constant):
        if isinstance(node.value, str):
            try:
                return ann_leaves(ast.parse(node.value, mode="eval").body)
            except SyntaxError:
                return [node.value]
        return []
    if isinstance(node, ast.Subscript):
        return ann_leaves(node.slice)
    if isinstance(node, ast.Tuple):
        return [x for e in node.elts for x in ann_leaves(e)]
    if isinstance(node, ast.BinOp):
        return ann_leaves(node.left) + ann_leaves(node.right)
    if isinstance(node, ast.Name):
        return [node.id]
    if isinstance(node, ast.Attribute):
        return [ast.unparse(node)]
    return []


def class_table(code: str) -> list[tuple[str, dict]]:
    """[(class name, {member: annotation AST})] for the top-level classes, in order; TypedDict functional
    syntax (`X = TypedDict('X', {...})`) included."""
    out = []
    for node in ast.parse(code).body:
        if isinstance(node, ast.ClassDef):
            members = {}
            for st in node.body:
                if isinstance(st, ast.AnnAssign) and isinstance(st.target, ast.Name):
                    members[st.target.id] = st.annotation
            out.append((node.name, members))
        elif isinstance(node, ast.Assign) and isinstance(node.value, ast.Call) and getattr(node.value.func, "id", "") == "TypedDict":
            args = node.value.args
            if len(args) == 2 and isinstance(args[1], ast.Dict) and isinstance(node.targets[0], ast.Name):
                members = {k.value: v for k, v in zip(args[1].keys, args[1].values) if isinstance(k, ast.Constant)}
                out.append((node.targets[0].id, members))
    return out


def key_class(k: str) -> str:
    if k in ("Optional", "BaseModel", "Any", "List", "Field"):
        return "import-name"
    if k in ("class", "None"):
        return "keyword"
    if k in ("Model", "Root"):
        return "root-like"
    return "plain"


def e2e_oracle(ck: Check, camp, case: dict) -> bool:
    """The property's own oracle on one document. Returns True when it passed."""
    camp.evaluations += 1
    doc, ift = build_e2e_doc(case)
    model = case.get("model", "pydantic_v2.BaseModel")
    multi = isinstance(doc, dict) and "main.json" in doc
    res = run_generate_files(doc, model) if multi else e2e.run_generate(doc, input_file_type=ift, model=model)
    keys = case["keys"]
    n = len(keys)
    camp.hit("container:" + case["container"])
    camp.hit("kind:" + model)
    camp.hit(f"defs:{n}")
    if multi:
        camp.hit("cross-file")
    for kind in {k for _, _, k in case["edges"]}:
        camp.hit("edge:" + kind)
    if any(i == j for i, j, _ in case["edges"]):
        camp.hit("edge:self")
    if any([j, i] in [[a, b] for a, b, _ in case["edges"]] and i != j for i, j, _ in case["edges"]):
        camp.hit("edge:mutual")
    two = len(set(case.get("containers") or [])) > 1
    if two:
        camp.hit("two-containers")
    shapes = sorted({anchor_shape((case.get("anchors") or [None] * n)[j]) for j in anchored_defs(case)})
    for sh in shapes:
        camp.hit("anchor:" + sh)
    if case.get("root_anchors"):
        camp.hit("anchor:from-root")
    if shapes and two:
        camp.hit("anchor:two-containers")
    if shapes and multi:
        camp.hit("anchor:in-cross-file-case")
    base = {
        "oracle": "e2e",
        "shape": "two_containers" if two else ("cross_file" if multi else "single"),
        "container": case["container"],
        "kind": model,
        "key_classes": sorted({key_class(k) for k in keys}),
    }
    if shapes:
        base["anchor_shapes"] = shapes

    def fail(mech: str, observed: str, **extra) -> bool:
        camp.hit("fail:" + mech)
        ck.fail({**base, "mechanism": mech, **extra}, case, observed)
        return False

    if res.hang:
        return fail("hang", "generate() did not return")
    if not res.ok:
        base["error"] = res.error_type
        return fail("generation_error", f"{res.error_type}: {res.error_msg}")
    err = e2e.parses(res.code)
    if err:
        return fail("unparsable", err)
    table = class_table(res.code)
    names = [c for c, _ in table]
    if len(set(names)) != len(names):
        return fail("duplicate_class_name", f"top-level classes {names}")
    owner: dict[int, str] = {}
    for i in range(n):
        holders = [c for c, ms in table if f"mk{i}x" in ms]
        if len(holders) != 1:
            return fail("missing_class" if not holders else "merged_or_duplicated", f"definition {keys[i]!r}: classes carrying its marker: {holders}; classes: {names}")
        owner[i] = holders[0]
    expected = n + (1 if ift == "jsonschema" else 0)
    if len(set(owner.values())) != n:
        return fail("merged_or_duplicated", f"two definitions share a class: {owner}")
    subs = {j for _, j, kind in case["edges"] if kind in ("deep", "deepanchor")}
    extras = {k for i, j, kind in case["edges"] if kind == "chain" for k in (i, j)}
    # a nested object referenced by pointer may be emitted twice (inline + by reference): not a named schema
    if not expected + len(subs) + len(extras) <= len(table) <= expected + 2 * len(subs) + len(extras):
        return fail("extra_class", f"{len(table)} top-level classes for {n} definitions (+{len(subs)} nested, +{len(extras)} outside the container): {names}")
    members = dict(table)
    checks = [(owner[i], (f"a{i}to{j}" if kind == "array" else f"r{i}to{j}"), j) for i, j, kind in case["edges"] if kind not in ("deep", "chain", "deepanchor")]
    checks = list(dict.fromkeys(checks))
    for i, j, kind in case["edges"]:
        if kind == "deep":
            ann = members[owner[i]].get(f"d{i}to{j}")
            leaves = [x for x in (ann_leaves(ann) if ann is not None else []) if x != "None" and x not in WRAPPERS]
            if len(leaves) != 1 or f"mkd{j}x" not in members.get(leaves[0], {}):
                return fail("ref_mislanded", f"{owner[i]}.d{i}to{j}: {ast.unparse(ann) if ann is not None else None} should name a class with member mkd{j}x")
        if kind == "chain":
            hold = {k: [c for c, ms in table if f"mke{k}x" in ms] for k in (i, j)}
            if any(len(h) != 1 for h in hold.values()):
                return fail("missing_class", f"objects #/extras/s{i}, #/extras/s{j}: classes carrying their markers: {hold}; classes: {names}")
            links = [(hold[i][0], f"c{i}to{j}", hold[j][0])] + [(owner[k], f"e{k}", hold[k][0]) for k in (i, j) if k in chain_info(case)[0]]
            for cls, member, target in links:
                ann = members[cls].get(member)
                leaves = [x for x in (ann_leaves(ann) if ann is not None else []) if x != "None" and (x not in WRAPPERS or x == target)]
                if leaves != [target]:
                    return fail("ref_mislanded", f"{cls}.{member}: {ast.unparse(ann) if ann is not None else None} should name {target}")
    if ift == "jsonschema":
        root_cls = [c for c, ms in table if "mkrootx" in ms]
        if len(root_cls) != 1:
            return fail("missing_class", f"root class: {root_cls}")
        checks += [(root_cls[0], f"rRto{i}", i) for i in case["root_refs"]]
    for cls, member, j in checks:
        ann = members[cls].get(member)
        if ann is None:
            return fail("member_missing", f"{cls}.{member} not emitted")
        leaves = [x for x in ann_leaves(ann) if x != "None"]
        inner = [x for x in leaves if x not in WRAPPERS or x == owner[j]]
        if inner != [owner[j]]:
            return fail("ref_mislanded", f"{cls}.{member}: {ast.unparse(ann)} should name {owner[j]} (definition {keys[j]!r})")
    if model == "pydantic_v2.BaseModel":
        try:
            mod = e2e.load_module(res.code, model)
        except BaseException as ex:  # noqa: BLE001
            if isinstance(ex, (KeyboardInterrupt, SystemExit)):
                raise
            return fail("import_error", f"{type(ex).__name__}: {str(ex)[:200]}")
        try:
            for cls, member, j in checks:
                target = getattr(mod, owner[j])
                ann = getattr(mod, cls).model_fields[member].annotation

                def flat(t):
                    args = typing.get_args(t)
                    return [t] if not args else [x for a in args for x in flat(a)]

                got = [t for t in flat(ann) if t is not type(None)]
                if got != [target] or f"mk{j}x" not in target.model_fields:
                    return fail("ref_mislanded", f"{cls}.{member} resolves to {got}, expected class {owner[j]} of definition {keys[j]!r}")
        finally:
            e2e.unload(mod)
    # LAST (any other failure of the document is reported first): a reference to the `$id` of a NESTED subschema
    # must name the class of that nested object
    for i, j, kind in case["edges"]:
        if kind == "deepanchor":
            ann = members[owner[i]].get(f"n{i}to{j}")
            leaves = [x for x in (ann_leaves(ann) if ann is not None else []) if x != "None" and (x not in WRAPPERS or x == owner[j])]
            if len(leaves) != 1 or f"mkd{j}x" not in members.get(leaves[0], {}):
                return fail("ref_mislanded", f"{owner[i]}.n{i}to{j}: {ast.unparse(ann) if ann is not None else None} should name the class of the nested object "
                            f"#/{cont_of(case, j)}/{keys[j]}/properties/sub{j} (member mkd{j}x), which declares $id '#ancsub{j}'",
                            anchor_target="nested_subschema", lands_on="enclosing_definition" if leaves == [owner[j]] else "other")
    camp.distinct.add(json.dumps(case, sort_keys=True))
    if len(camp.samples) < 2:
        camp.samples.append(case)
    return True


def gen_e2e_case(rng: Rng) -> dict:
    # the anchor names come from a stream of their own (derived from the state of `rng`, which is not advanced)
    arng = Rng(rng.s, "anchor-names")
    case = _gen_e2e_case(rng)
    n = len(case["keys"])
    files = case.get("files") or [0] * n
    if case["container"] != "components/schemas":
        if arng.chance(1, 3):
            # the root object references some definitions through their anchors (main.json only)
            case["root_anchors"] = [i for i in case["root_refs"] if files[i] == 0 and arng.chance(1, 2)]
        same_file_refs = [e for e in case["edges"] if e[2] == "ref" and files[e[0]] == files[e[1]]]
        if not anchored_defs(case) and same_file_refs and arng.chance(1, 4):
            arng.choice(same_file_refs)[2] = "anchor"
        if "files" not in case and arng.chance(1, 12):
            # `$id` on a nested subschema (known finding C06-K4 on the unchanged tree; checked last by the oracle)
            case["edges"].append([arng.below(n), arng.below(n), "deepanchor"])
        if anchored_defs(case) and arng.chance(5, 6):
            names = gen_anchor_names(arng, case["keys"])
            case["anchors"] = [names[j] if j in anchored_defs(case) else None for j in range(n)]
    return case


def gen_anchor_focus_case(rng: Rng, cls: str) -> dict:
    """a random JSON-Schema case in which at least one definition is referenced through an anchor whose name is a
    member of class `cls` of ANCHOR_POOLS (stratification: every class is met in every run, whatever the seed)"""
    while True:
        case = _gen_e2e_case(rng)
        if case["container"] != "components/schemas":
            break
    n = len(case["keys"])
    files = case.get("files") or [0] * n
    cand = [e for e in case["edges"] if e[2] == "ref" and files[e[0]] == files[e[1]]]
    if cand:
        rng.choice(cand)[2] = "anchor"
    main_defs = [i for i in case["root_refs"] if files[i] == 0]
    if main_defs and (not cand or rng.chance(1, 2)):
        case["root_anchors"] = rng.sample(main_defs, rng.range(1, min(2, len(main_defs))))
    if not anchored_defs(case):
        case["edges"].append([0, 0, "anchor"])
    anchored = anchored_defs(case)
    names = gen_anchor_names(rng, case["keys"])
    j, pick = rng.choice(anchored), rng.choice(ANCHOR_POOLS[cls])
    names = [f"other-{k}" if a == pick else a for k, a in enumerate(names)]
    names[j] = pick
    case["anchors"] = [names[k] if k in anchored else None for k in range(n)]
    return case


def _gen_e2e_case(rng: Rng) -> dict:
    n = rng.range(2, 5)
    pool = E2E_KEYS if rng.chance(1, 2) else CORE_KEYS
    keys = rng.sample(pool, n)
    edges = []
    for i in range(n):
        for j in range(n):
            if rng.chance(1, 3):
                edges.append([i, j, rng.choice(["ref", "ref", "ref", "ref", "array", "deep", "anchor", "chain"])])
    if not any(i == j for i, j, _ in edges) and rng.chance(1, 2):
        edges.append([0, 0, "ref"])
    case = {
        "container": (cont := rng.choice(E2E_CONTAINERS)),
        "keys": keys,
        "edges": edges,
        "root_refs": [i for i in range(n) if rng.chance(1, 2)],
        "model": rng.choice(["pydantic_v2.BaseModel"] * 5 + ["pydantic.BaseModel", "dataclasses.dataclass", "typing.TypedDict"]),
    }
    if cont == "components/schemas":  # OpenAPI 3.0 schema objects have no `$id`: no anchors there; no `#/extras`
        case["edges"] = [[i, j, "ref" if k in ("anchor", "chain") else k] for i, j, k in edges]
    if case["container"] != "components/schemas" and rng.chance(1, 4):
        # cross-file: some definitions live in other.json; only what main.json reaches is generated,
        # so the root object references every definition
        case["files"] = [rng.below(2) for _ in range(n)]
        case["root_refs"] = list(range(n))
        case["edges"] = [[i, j, "ref" if k == "chain" else k] for i, j, k in case["edges"]]
    elif case["container"] != "components/schemas" and rng.chance(1, 5):
        # a document with `definitions` AND `$defs` (every container of SCHEMA_PATHS is walked)
        case["containers"] = [rng.choice(["definitions", "$defs"]) for _ in range(n)]
        if rng.chance(1, 3):
            # the SAME key in both containers: two named schemas (`#/definitions/K`, `#/$defs/K`), two classes
            case["keys"][1] = case["keys"][0]
            case["containers"][:2] = rng.shuffle(["definitions", "$defs"])
    return case


E2E_CORPUS = [
    {"container": "definitions", "keys": ["Pet", "pet", "Pet_", "Pets-item"], "edges": [[0, 1, "ref"], [1, 0, "ref"], [0, 0, "ref"], [2, 3, "array"]], "root_refs": [0, 1, 2, 3]},
    {"container": "definitions", "keys": ["Pets-item", "Pet_", "pet", "Pet"], "edges": [[0, 1, "ref"], [1, 0, "ref"], [3, 3, "ref"]], "root_refs": []},
    {"container": "$defs", "keys": ["Optional", "optional"], "edges": [[0, 1, "ref"]], "root_refs": []},
    {"container": "$defs", "keys": ["Optional", "BaseModel", "Pet"], "edges": [[0, 1, "ref"], [1, 0, "ref"]], "root_refs": [0, 1, 2]},
    {"container": "components/schemas", "keys": ["Pet", "pet", "PetModel"], "edges": [[0, 1, "ref"], [1, 2, "ref"], [2, 0, "array"]], "root_refs": []},
    {"container": "definitions", "keys": ["Pet", "pet"], "edges": [[0, 1, "deep"], [1, 1, "ref"]], "root_refs": [0]},
    {"container": "definitions", "keys": ["Pet", "pet", "Pet_", "PetsItem"], "edges": [[0, 1, "chain"], [1, 2, "chain"], [2, 3, "chain"], [3, 3, "deep"]], "root_refs": []},
    {"container": "$defs", "keys": ["Pets-item", "Pet", "pet"], "edges": [[2, 1, "chain"], [1, 0, "chain"], [0, 2, "chain"]], "root_refs": [2]},
    {"container": "definitions", "keys": ["Pet", "pet", "Pet_"], "edges": [[0, 1, "ref"], [1, 2, "ref"], [2, 0, "ref"]], "root_refs": [0, 1, 2], "files": [1, 1, 0]},
    {"container": "definitions", "keys": ["Pet", "pet"], "edges": [[0, 1, "anchor"], [1, 0, "anchor"]], "root_refs": [1]},
    {"container": "definitions", "keys": ["Pet", "Dog"], "edges": [], "root_refs": [], "containers": ["definitions", "$defs"]},
    {"container": "definitions", "keys": ["Pet", "pet"], "edges": [[0, 1, "ref"]], "root_refs": [], "containers": ["definitions", "$defs"]},
    # repaired (former C06-K1 above, former C06-K2 here): `$ref: '#anc1'` to an `$id` anchor declared in the second container
    {"container": "definitions", "keys": ["Pet", "Dog"], "edges": [[0, 1, "anchor"]], "root_refs": [], "containers": ["definitions", "$defs"]},
    {"container": "definitions", "keys": ["Pet", "Dog"], "edges": [[0, 1, "anchor"], [1, 0, "anchor"]], "root_refs": [0], "containers": ["$defs", "definitions"]},
    {"container": "definitions", "keys": ["Dog", "Pet", "pet"], "edges": [[2, 0, "array"]], "root_refs": [], "containers": ["$defs", "definitions", "$defs"]},
    # the same key in both containers: two named schemas, two classes, every reference lands on the one of ITS container
    {"container": "definitions", "keys": ["Pet", "Pet"], "edges": [[0, 1, "ref"], [1, 0, "array"]], "root_refs": [1], "containers": ["definitions", "$defs"]},
    {"container": "definitions", "keys": ["Pet", "Pet", "pet"], "edges": [[2, 0, "ref"], [2, 1, "anchor"]], "root_refs": [], "containers": ["$defs", "definitions", "$defs"]},
    # the anchor NAME is a parameter (absent / null = anc{j}): hyphenated plain name, also referenced from the root object
    {"container": "definitions", "keys": ["Pet", "Dog"], "edges": [[0, 1, "anchor"], [1, 1, "anchor"]], "root_refs": [1], "root_anchors": [1], "anchors": [None, "street-address"]},
    # names that differ only in case; every definition referenced from the root through its anchor or its pointer
    {"container": "$defs", "keys": ["Pet", "Dog", "pet"], "edges": [[0, 1, "anchor"], [1, 2, "anchor"], [2, 0, "anchor"]], "root_refs": [0, 1, 2], "root_anchors": [0, 2], "anchors": ["Anchor", "anchor", "ANCHOR"]},
    # the anchor of a definition is the KEY of the other one, declared in the other container
    {"container": "definitions", "keys": ["Pet", "Dog"], "edges": [[0, 1, "anchor"], [1, 0, "anchor"]], "root_refs": [], "anchors": ["Dog", "Pet"], "containers": ["definitions", "$defs"]},
    # near misses the generator resolves by string identity: digit-initial, `_`-initial, dotted with `:`, non-ASCII, blank, further `#`
    {"container": "definitions", "keys": ["Pet", "Dog", "Pets-item"], "edges": [[0, 1, "anchor"], [1, 2, "anchor"], [2, 0, "anchor"]], "root_refs": [0], "root_anchors": [0], "anchors": ["1a", "_b", "ns:v1.2"]},
    {"container": "$defs", "keys": ["Pet", "Dog", "pet"], "edges": [[0, 1, "anchor"], [1, 2, "anchor"], [2, 0, "anchor"]], "root_refs": [], "anchors": ["\u00e9", "a b", "#"], "model": "typing.TypedDict"},
    # cross-file: the SAME anchor name declared in main.json and in other.json (anchor edges are same-file)
    {"container": "definitions", "keys": ["Pet", "Dog", "Cat"], "edges": [[0, 0, "anchor"], [1, 2, "anchor"], [2, 1, "anchor"]], "root_refs": [0, 1, 2], "root_anchors": [0], "files": [0, 1, 1], "anchors": ["x-1", "x-1", "_y"]},
]


def ring_edges(n: int) -> list:
    """forward, mutual and self references on n definitions"""
    e = [[i, (i + 1) % n, "ref"] for i in range(n)] + [[0, 0, "ref"]]
    if n > 2:
        e.append([1, 0, "array"])
    return e


def campaign_e2e(ck: Check, n: int, label: str = "", extra: list | None = None) -> None:
    camp = ck.campaign("e2e: one class per definition, distinct names, every $ref member names the class of its target" + label)
    t0 = time.time()
    rng = ck.rng.fork("e2e" + label)
    for case in E2E_CORPUS + list(extra or []):
        e2e_oracle(ck, camp, case)
    frng = Rng(rng.s, "anchor-focus")  # a stream of its own: the random cases below stay what they were
    generated = [gen_anchor_focus_case(frng, cls) for cls in ANCHOR_POOLS for _ in range(1 if n <= 150 else 4)] if n else []
    for k in range(n + len(generated)):
        case = generated[k - n] if k >= n else gen_e2e_case(rng)
        # the same definitions in a second, permuted document order (edges keep pointing at the same keys)
        e2e_oracle(ck, camp, case)
        perm = rng.shuffle(list(range(len(case["keys"]))))
        inv = {old: new for new, old in enumerate(perm)}
        permuted = dict(case, keys=[case["keys"][i] for i in perm], edges=[[inv[i], inv[j], k] for i, j, k in case["edges"]], root_refs=[inv[i] for i in case["root_refs"]])
        for per_def in ("files", "containers", "anchors"):
            if per_def in case:
                permuted[per_def] = [case[per_def][i] for i in perm]
        if "root_anchors" in case:
            permuted["root_anchors"] = [inv[i] for i in case["root_anchors"]]
        e2e_oracle(ck, camp, permuted)
    camp.wall_s = time.time() - t0


def campaign_e2e_exhaustive(ck: Check, keys_pool: list[str], max_defs: int, label: str) -> None:
    """all key subsets of size 2..max_defs of `keys_pool`, in ALL document orders, three containers"""
    camp = ck.campaign(f"e2e exhaustive: all subsets (size 2..{max_defs}) of {len(keys_pool)} colliding keys in all orders" + label)
    t0 = time.time()
    for k in range(2, max_defs + 1):
        for subset in itertools.combinations(keys_pool, k):
            for perm in itertools.permutations(range(k)):
                for cont in E2E_CONTAINERS:
                    keys = [subset[i] for i in perm]
                    inv = {old: new for new, old in enumerate(perm)}
                    e2e_oracle(ck, camp, {
                        "container": cont, "keys": keys,
                        "edges": [[inv[i], inv[j], kind] for i, j, kind in ring_edges(k)],
                        "root_refs": [inv[0]] if k % 2 else [],
                    })
                    if len(ck.failures) > 20:
                        camp.wall_s = time.time() - t0
                        return
    camp.wall_s = time.time() - t0


# ------------------------------------------------------------------ reserved-reference work list
def worklist_graph(case: dict) -> tuple[list, list, list]:
    """(rows [(pointer, [references written inside it])], root refs, definition pointers in document order)
    of a single-file JSON-Schema e2e document without nested-pointer ('deep') edges."""
    keys = case["keys"]
    ptr = [f"#/{cont_of(case, i)}/{k}" for i, k in enumerate(keys)]
    refs: dict[str, list[str]] = {p: [] for p in ptr}
    extras: dict[str, list[str]] = {}
    entries = chain_info(case)[0]
    for i, j, kind in case["edges"]:
        if kind == "chain":
            for k in (i, j):
                if f"#/extras/s{k}" not in extras:
                    extras[f"#/extras/s{k}"] = []
                    if k in entries:
                        refs[ptr[k]].append(f"#/extras/s{k}")
            extras[f"#/extras/s{i}"].append(f"#/extras/s{j}")
        else:
            refs[ptr[i]].append(ptr[j])
    rows = [[p, r] for p, r in refs.items()] + [[p, r] for p, r in extras.items()]
    # the prelude of _parse_file walks the containers in SCHEMA_PATHS order, each in document order
    rank = {p.lstrip("#/"): r for r, p in enumerate(formats.schema_paths()["jsonSchemaPaths"])}
    order = sorted(range(len(keys)), key=lambda i: rank.get(cont_of(case, i), len(rank)))
    return rows, [ptr[i] for i in case["root_refs"]], [ptr[i] for i in order]


def real_worklist(case: dict):
    from datamodel_code_generator.parser.jsonschema import JsonSchemaParser

    doc, _ = build_e2e_doc(case)
    with watchdog(20.0):
        parser = JsonSchemaParser(json.dumps(doc))
        parser.parse_raw()
    reserved = sorted(set().union(*parser.reserved_refs.values())) if parser.reserved_refs else []
    loaded = sorted(p for p, r in parser.model_resolver.references.items() if r.loaded)
    return reserved, loaded


def campaign_worklist(ck: Check, n: int) -> None:
    camp = ck.campaign("worklist model (prelude + loop, fuel |pointers|+1) vs JsonSchemaParser.parse_raw: reserved set and loaded pointers")
    t0 = time.time()
    rng = ck.rng.fork("worklist")
    cases = [c for c in E2E_CORPUS if "files" not in c and c["container"] != "components/schemas" and all(k not in ("deep", "deepanchor") for _, _, k in c["edges"])]
    while len(cases) < n:
        c = gen_e2e_case(rng)
        if "files" in c or c["container"] == "components/schemas":
            continue
        c["edges"] = [[i, j, "chain" if k in ("deep", "deepanchor") else k] for i, j, k in c["edges"]]
        cases.append(c)
    reqs = []
    for c in cases:
        rows, rr, defs = worklist_graph(c)
        reqs.append(f"res.worklist ({' '.join('(' + hx(p) + ' ' + enc_strs(r) + ')' for p, r in rows)}) {enc_strs(rr)} {enc_strs(defs)}")
    replies = ck.driver.run(reqs)
    for c, rep in zip(cases, replies):
        camp.evaluations += 1
        rows, _, _ = worklist_graph(c)
        universe = {p for p, _ in rows} | {"#"}
        try:
            reserved, loaded = real_worklist(c)
            real = ("ok", reserved, sorted(set(loaded) & universe))
        except Hang:
            real = "outoffuel"
        except Exception as ex:  # noqa: BLE001
            real = f"exc:{type(ex).__name__}"
        if rep.startswith("ok "):
            a, b = sx_parse(rep[3:])
            model = ("ok", sorted(unhx(x) for x in a), sorted(set(unhx(x) for x in b) & universe))
        else:
            model = rep
        chain = sum(1 for _, _, k in c["edges"] if k == "chain")
        camp.hit(f"chain-edges:{min(chain, 4)}")
        if len(set(c.get("containers") or [])) > 1:
            camp.hit("two-containers")
        if isinstance(real, tuple):
            camp.hit(f"reserved:{min(len(real[1]), 6)}")
            if real[1]:
                camp.distinct.add(json.dumps(c, sort_keys=True))
            # worklist_complete stated on the implementation itself
            missing = [r for r in real[1] if r not in loaded]
            if missing:
                ck.fail({"oracle": "worklist_complete", "mechanism": "reserved_not_loaded"}, c, f"reserved but never loaded: {missing}")
        if model != real:
            ck.disagree(camp, c, model, real)
        elif len(camp.samples) < 2 and chain:
            camp.samples.append({"case": c, "reserved": real[1] if isinstance(real, tuple) else real})
    camp.wall_s = time.time() - t0


# ------------------------------------------------------------------ multi-document input (a directory of JSON files)
MD_STEMS = ["a", "b", "c", "d"]
MD_NODES = ["root", "def", "part", "part2"]          # where a reference is written
MD_TARGETS = ["def", "part", "part2", "whole"]        # what it points at
MD_POINTER = {"def": "/definitions/Thing", "part": "/x-parts/Alpha", "part2": "/x-parts/Beta"}
MD_MARK = {"root": "mkroot", "whole": "mkroot", "def": "mkdef", "part": "mkpart", "part2": "mkbeta"}


def md_ref(case: dict, f_from: int, f_to: int, target: str) -> str:
    stems = case["stems"]
    file_part = "" if f_from == f_to else stems[f_to] + ".json"
    if target == "whole":
        return file_part or "#"
    return file_part + "#" + MD_POINTER[target]


def md_generated_parts(case: dict) -> set:
    """(file, part kind) objects outside definitions that are reachable by reference from what is always
    generated (every file's root object and its definitions)"""
    live, todo = set(), [(f, n) for f in range(len(case["stems"])) for n in ("root", "def")]
    seen = set(todo)
    while todo:
        f, n = todo.pop()
        for e in case["edges"]:
            sf, sn, tf, tk = e
            if (sf, sn) == (f, n) and tk in ("part", "part2") and (tf, tk) not in seen:
                seen.add((tf, tk))
                live.add((tf, tk))
                todo.append((tf, tk))
    return live


def build_multidoc(case: dict) -> dict:
    """case = {stems [file stems, any order], edges [[from file, from node, to file, target]], model}.
    EVERY file has a root object, `definitions/Thing`, `x-parts/Alpha` and `x-parts/Beta` — the same pointers
    with a DIFFERENT subschema in each file: the marker member `mk<kind>_<stem>` names the file it is in.
    Edge k is the member `e<k>` of its source object."""
    docs = {}
    for f, stem in enumerate(case["stems"]):
        def obj(kind):
            return {"type": "object", "properties": {f"{MD_MARK[kind]}_{stem}": {"type": "integer"}}}
        root = obj("root")
        root["title"] = "Root" + stem.upper()
        root["x-self"] = stem
        root["definitions"] = {"Thing": obj("def")}
        root["x-parts"] = {"Alpha": obj("part"), "Beta": obj("part2")}
        docs[f] = root
    for k, (sf, sn, tf, tk) in enumerate(case["edges"]):
        d = docs[sf]
        src = d if sn == "root" else d["definitions"]["Thing"] if sn == "def" else d["x-parts"]["Alpha" if sn == "part" else "Beta"]
        src["properties"][f"e{k}"] = {"$ref": md_ref(case, sf, tf, tk)}
    return {case["stems"][f] + ".json": doc for f, doc in docs.items()}


def run_generate_dir(files: dict, model: str, timeout: float = 20.0):
    """real generate() on a DIRECTORY of documents (modular output). Also records, from outside, what
    `_resolve_unparsed_json_pointer` starts from and every `parse_json_pointer` call made under it:
    (document the lookup is made in — its `x-self` —, pending reference)."""
    import contextlib
    import io
    import os
    import shutil
    import tempfile
    import warnings

    import datamodel_code_generator as d
    from datamodel_code_generator.parser.jsonschema import JsonSchemaParser

    work = Path(tempfile.mkdtemp(dir=e2e.scratch_root()))
    inp = work / "in"
    inp.mkdir()
    for name, doc in files.items():
        (inp / name).write_text(json.dumps(doc))
    out = work / "out"
    res = e2e.Result(ok=False)
    obs = {"start": None, "lookups": [], "loaded_end": None}
    orig_resolve = JsonSchemaParser._resolve_unparsed_json_pointer
    orig_pjp = JsonSchemaParser.parse_json_pointer
    depth = [0]

    def loaded_of(parser):
        return sorted(p for p, r in parser.model_resolver.references.items() if r.loaded)

    def resolve(self):
        if obs["start"] is None:
            obs["start"] = {"reserved": sorted(r for v in self.reserved_refs.values() for r in v), "loaded": loaded_of(self),
                            "buckets": {"/".join(k): sorted(v) for k, v in self.reserved_refs.items()}}
        depth[0] += 1
        try:
            return orig_resolve(self)
        finally:
            depth[0] -= 1
            if depth[0] == 0:
                obs["loaded_end"] = loaded_of(self)

    def pjp(self, raw, ref, path_parts):
        if depth[0]:
            obs["lookups"].append([raw.get("x-self") if isinstance(raw, dict) else None, ref])
        return orig_pjp(self, raw, ref, path_parts)

    cwd = os.getcwd()
    t0 = time.time()
    JsonSchemaParser._resolve_unparsed_json_pointer = resolve
    JsonSchemaParser.parse_json_pointer = pjp
    try:
        with watchdog(timeout), warnings.catch_warnings(), contextlib.redirect_stderr(io.StringIO()):
            warnings.simplefilter("ignore")
            d.generate(inp, input_file_type=d.InputFileType.JsonSchema, output=out,
                       output_model_type=d.DataModelType(model), formatters=[], disable_timestamp=True)
        res.ok = True
    except Hang as ex:
        res.hang, res.error_type, res.error_msg = True, "Hang", str(ex)
    except BaseException as ex:  # noqa: BLE001
        if isinstance(ex, (KeyboardInterrupt, SystemExit)):
            raise
        res.error_type, res.error_msg = type(ex).__name__, str(ex)[:300]
    finally:
        JsonSchemaParser._resolve_unparsed_json_pointer = orig_resolve
        JsonSchemaParser.parse_json_pointer = orig_pjp
        if os.getcwd() != cwd:
            os.chdir(cwd)
    res.wall_s = time.time() - t0
    if out.is_dir():
        for q in sorted(out.rglob("*.py")):
            res.files[str(q.relative_to(out))] = q.read_text(encoding="utf-8")
    shutil.rmtree(work, ignore_errors=True)
    return res, obs


def module_imports(code: str) -> tuple[dict, dict]:
    """(module alias -> sibling module, class alias -> (sibling module, class)) of one emitted module"""
    mods, classes = {}, {}
    for node in ast.parse(code).body:
        if isinstance(node, ast.ImportFrom) and node.level == 1:
            for a in node.names:
                if node.module is None:
                    mods[a.asname or a.name] = a.name
                else:
                    classes[a.asname or a.name] = (node.module, a.name)
    return mods, classes


def multidoc_oracle(ck: Check, camp, case: dict) -> bool:
    """The property's own oracle on a directory of documents: every file's root object and definition give
    exactly one class in the module of that file, every referenced out-of-container object gives exactly one,
    and EVERY `$ref` member names the class that carries the marker of precisely the referenced document's
    subschema. Plus, on the same run, the statement of `resolves_in_own_document` on the implementation."""
    camp.evaluations += 1
    stems = case["stems"]
    model = case.get("model", "pydantic_v2.BaseModel")
    files = build_multidoc(case)
    res, obs = run_generate_dir(files, model)
    order = sorted(stems)
    camp.hit(f"files:{len(stems)}")
    camp.hit("kind:" + model)
    for sf, sn, tf, tk in case["edges"]:
        if sf != tf:
            pos = order.index(stems[tf])
            camp.hit("target-file:" + ("last" if pos == len(order) - 1 else "first" if pos == 0 else "middle") + ":" + tk)
            camp.hit("direction:" + ("to-earlier" if stems[tf] < stems[sf] else "to-later"))
        else:
            camp.hit("same-file:" + tk)
    base = {"oracle": "e2e-multidoc", "shape": "directory", "kind": model}
    rec = {k: v for k, v in dict(case, multidoc=True).items() if k != "_obs"}

    def fail(mech: str, observed: str, **extra) -> bool:
        camp.hit("fail:" + mech)
        ck.fail({**base, "mechanism": mech, **extra}, rec, observed)
        return False

    if res.hang:
        return fail("hang", "generate() did not return")
    if not res.ok:
        return fail("generation_error", f"{res.error_type}: {res.error_msg}", error=res.error_type)
    tables, imports = {}, {}
    for f, stem in enumerate(stems):
        code = res.files.get(stem + ".py")
        if code is None:
            return fail("missing_module", f"no module for {stem}.json; files: {sorted(res.files)}")
        err = e2e.parses(code)
        if err:
            return fail("unparsable", f"{stem}.py: {err}")
        tables[stem] = class_table(code)
        imports[stem] = module_imports(code)
    live = md_generated_parts(case)
    owner: dict[tuple, str] = {}
    for f, stem in enumerate(stems):
        names = [c for c, _ in tables[stem]]
        if len(set(names)) != len(names):
            return fail("duplicate_class_name", f"{stem}.py: {names}")
        # no class of this module may carry the marker of another file's subschema
        for c, ms in tables[stem]:
            foreign = [m for m in ms if m.startswith("mk") and not m.endswith("_" + stem)]
            if foreign:
                return fail("wrong_document_fields", f"{stem}.py class {c} has members {foreign}: the subschema of another document", pointer="out_of_container")
        for kind in ("root", "def", "part", "part2"):
            mark = f"{MD_MARK[kind]}_{stem}"
            holders = [c for c, ms in tables[stem] if mark in ms]
            want = kind in ("root", "def") or (f, kind) in live
            if want and len(holders) != 1:
                return fail("missing_class" if not holders else "merged_or_duplicated",
                            f"{stem}.json {kind}: classes of {stem}.py carrying {mark}: {holders}; classes: {names}")
            if holders:
                owner[(f, kind)] = holders[0]
    generated = {(f, n) for f in range(len(stems)) for n in ("root", "def")} | live
    for k, (sf, sn, tf, tk) in enumerate(case["edges"]):
        if (sf, sn) not in generated:
            continue
        src_cls = owner[(sf, sn)]
        ann = dict(tables[stems[sf]])[src_cls].get(f"e{k}")
        if ann is None:
            return fail("member_missing", f"{stems[sf]}.{src_cls}.e{k} not emitted")
        leaves = [x for x in ann_leaves(ann) if x != "None" and x not in WRAPPERS]
        if len(leaves) != 1:
            return fail("ref_mislanded", f"{stems[sf]}.{src_cls}.e{k}: {ast.unparse(ann)}")
        leaf = leaves[0]
        mods, classes = imports[stems[sf]]
        if "." in leaf:
            m, c = leaf.rsplit(".", 1)
            tmod, tcls = mods.get(m, m), c
        elif leaf in classes:
            tmod, tcls = classes[leaf]
        else:
            tmod, tcls = stems[sf], leaf
        want_mark = f"{MD_MARK[tk]}_{stems[tf]}"
        members = dict(tables.get(tmod, [])).get(tcls)
        if members is None or want_mark not in members:
            return fail("ref_mislanded", f"{stems[sf]}.{src_cls}.e{k}: {ast.unparse(ann)} -> {tmod}.{tcls} with members {sorted(members or [])}; "
                        f"the referenced subschema ({md_ref(case, sf, tf, tk)!r} seen from {stems[sf]}.json) has {want_mark}",
                        pointer="out_of_container" if tk in ("part", "part2") else "in_container")
    # resolves_in_own_document, observed from outside: the document a pending pointer is looked up in is the
    # document the pointer belongs to
    for used, ref in obs["lookups"]:
        own = ref.split("#")[0].rsplit("/", 1)[-1].removesuffix(".json")
        if used != own:
            return fail("pointer_resolved_in_wrong_document", f"pending {ref!r} was looked up in document {used!r}", pointer="out_of_container")
    camp.distinct.add(json.dumps(rec, sort_keys=True))
    if len(camp.samples) < 2 and len(case["edges"]) >= 3:
        camp.samples.append(rec)
    case["_obs"] = obs
    return True


def gen_multidoc_case(rng: Rng) -> dict:
    n = rng.range(2, 4)
    stems = rng.shuffle(rng.sample(MD_STEMS, n))
    edges = []
    for _ in range(rng.range(1, 6)):
        sf = rng.below(n)
        tf = rng.below(n) if rng.chance(1, 5) else rng.choice([x for x in range(n) if x != sf])
        edges.append([sf, rng.choice(["root", "root", "def", "part", "part2"]), tf, rng.choice(["part", "part", "part2", "def", "whole"])])
    # parts that are written from must be reachable: hang them below their own root with probability 1/2
    for sf, sn, _, _ in list(edges):
        if sn in ("part", "part2") and rng.chance(1, 2):
            edges.append([rng.below(n), "root", sf, sn])
    return {"stems": stems, "edges": edges, "model": rng.choice(["pydantic_v2.BaseModel"] * 4 + ["pydantic.BaseModel", "dataclasses.dataclass", "typing.TypedDict"])}


MULTIDOC_CORPUS = [
    # the regression this campaign was added for: c.json (parsed later) references a.json#/x-parts/Alpha, a is not the last document
    {"stems": ["a", "b", "c"], "edges": [[2, "root", 0, "part"]]},
    {"stems": ["a", "b", "c"], "edges": [[1, "root", 0, "part"], [1, "root", 0, "def"], [1, "root", 2, "whole"], [2, "root", 0, "part"]]},
    {"stems": ["c", "a", "b"], "edges": [[0, "root", 2, "part"], [2, "part", 1, "part2"], [1, "part2", 1, "part"]]},
    {"stems": ["a", "b"], "edges": [[0, "root", 1, "part"], [1, "root", 0, "part"], [0, "def", 1, "def"], [1, "def", 0, "whole"]]},
]


def multidoc_exhaustive() -> list:
    """3 files; one cross-file edge of every target kind from every source file to every other file (the
    referenced file first / middle / last in sorted order, both directions), alone and next to a second edge"""
    out = []
    for sf in range(3):
        for tf in range(3):
            if sf == tf:
                continue
            for tk in MD_TARGETS:
                out.append({"stems": ["a", "b", "c"], "edges": [[sf, "root", tf, tk]]})
                for tk2 in ("part", "def"):
                    other = 3 - sf - tf
                    out.append({"stems": ["a", "b", "c"], "edges": [[sf, "root", tf, tk], [other, "def", tf, tk2], [tf, "part", other, "part2"]]})
    return out


def md_model_request(case: dict, obs: dict) -> str | None:
    """the state `_resolve_unparsed_json_pointer` started from (observed) + the document graph -> driver request"""
    stems = case["stems"]
    order = sorted(stems)
    start = obs.get("start")
    if start is None:
        return None

    def canon(f, kind):
        return stems[f] + ".json#" + MD_POINTER[kind]

    def enc_ref(r: str) -> str:
        file_, ptr = r.split("#", 1)
        return f"({order.index(file_.removesuffix('.json'))} {hx(ptr)})"

    rows = []
    for f in range(len(stems)):
        for kind in ("def", "part", "part2"):
            inner = [md_ref(case, sf, tf, tk) for sf, sn, tf, tk in case["edges"] if (sf, sn) == (f, kind)]
            inner = [(stems[f] + ".json" + r) if r.startswith("#") else (r if "#" in r else r + "#") for r in inner]
            rows.append(f"({enc_ref(canon(f, kind))} ({' '.join(enc_ref(r) for r in inner)}))")
    return (f"res.multidoc {len(stems)} ({' '.join(rows)}) ({' '.join(enc_ref(r) for r in start['loaded'])}) "
            f"({' '.join(enc_ref(r) for r in start['reserved'])}) {len(stems) - 1}")


def campaign_multidoc(ck: Check, n: int, exhaustive: bool) -> None:
    camp = ck.campaign("e2e multi-document (directory input): cross-file refs into definitions / outside definitions / whole file, same pointer with a different subschema in every file")
    t0 = time.time()
    rng = ck.rng.fork("multidoc")
    cases = [dict(c) for c in MULTIDOC_CORPUS] + (multidoc_exhaustive() if exhaustive else multidoc_exhaustive()[::5])
    cases += [gen_multidoc_case(rng) for _ in range(n)]
    passed = []
    for case in cases:
        if multidoc_oracle(ck, camp, case):
            passed.append(case)
    camp.wall_s = time.time() - t0
    # correspondence of Model.ResolverMultidoc with the real `_resolve_unparsed_json_pointer`
    camp2 = ck.campaign("Model.ResolverMultidoc.resolveUnparsed vs JsonSchemaParser._resolve_unparsed_json_pointer (lookups made, pointers loaded)")
    t1 = time.time()
    todo = [(c, md_model_request(c, c["_obs"])) for c in passed]
    todo = [(c, r) for c, r in todo if r]
    replies = ck.driver.run([r for _, r in todo])
    for (c, _), rep in zip(todo, replies):
        camp2.evaluations += 1
        obs = c["_obs"]
        order = sorted(c["stems"])

        def dec(item):
            return order[int(item[0])] + ".json#" + unhx(item[1])

        if rep.startswith("ok "):
            tr, ld = sx_parse(rep[3:])
            model = (sorted([order[int(u)], dec(r)] for u, r in tr), sorted(dec(r) for r in ld))
        else:
            model = rep
        real = (sorted(obs["lookups"]), sorted(obs["loaded_end"] or []))
        camp2.hit(f"lookups:{min(len(obs['lookups']), 4)}")
        if obs["lookups"]:
            camp2.distinct.add(json.dumps({k: v for k, v in c.items() if k != "_obs"}, sort_keys=True))
        if model != real:
            ck.disagree(camp2, {k: v for k, v in c.items() if k != "_obs"}, model, real)
        elif len(camp2.samples) < 2 and obs["lookups"]:
            camp2.samples.append({"case": {k: v for k, v in c.items() if k != "_obs"}, "lookups": obs["lookups"]})
    for c in cases:
        c.pop("_obs", None)
    camp2.wall_s = time.time() - t1


# ------------------------------------------------------------------ targeted search (only when something broke)
def names_of_sequences(cases: list[dict]) -> list[str]:
    out: list[str] = []
    for c in cases:
        for op in c.get("ops", []):
            cand = None
            if op["op"] == "add":
                cand = op["orig"] or (op["path"][-1] if op["path"] else None)
            elif op["op"] == "addref":
                cand = op["ref"].rsplit("/", 1)[-1]
            elif "arg" in op:
                a = op["arg"]
                cand = (a["s"].rsplit("/", 1)[-1]) if "s" in a else (a["q"][-1] if a["q"] else None)
            if cand and cand not in out and all(ch not in cand for ch in "#/~.") and cand.isascii():
                out.append(cand)
        out += [x for x in c.get("excl", []) if x not in out]
    return out


def strings_of(x) -> list[str]:
    """every string inside a JSON-able value"""
    if isinstance(x, str):
        return [x]
    if isinstance(x, dict):
        return [s for v in x.values() for s in strings_of(v)]
    if isinstance(x, (list, tuple)):
        return [s for v in x for s in strings_of(v)]
    return []


def anchor_names_of_disagreements(inputs: list) -> list[str]:
    """anchor names suggested by the inputs of the disagreements (of ANY campaign): every string in them that has
    the shape of an anchor reference — `#` followed by something that does not start with `/` (`##`, `#pet`,
    `#foo`, also the part after the `#` of `file#name`) — gives the name after the `#`. Names inside the family only."""
    out: list[str] = []
    for inp in inputs:
        for s in strings_of(inp):
            cands = []
            if s.startswith("#"):
                cands.append(s[1:])
            elif "#" in s:
                cands.append(s.split("#", 1)[1])
            for a in cands:
                if in_anchor_family(a) and len(a) <= 80 and a not in out:
                    out.append(a)
    return out


def id_pattern_changed_on(names: list[str]) -> list[str]:
    """model-side refuter of `id_pattern_is_reviewed`: the names on which the reviewed rule (`#` + anything but `/`:
    every name of the family is an id reference) and the pattern object of the code as it is now disagree"""
    try:
        from datamodel_code_generator import reference

        return [a for a in names if not reference.ID_PATTERN.match("#" + a)]
    except Exception:  # noqa: BLE001
        return []


def anchor_scope_cases(name: str) -> list[dict]:
    """complete documents around ONE anchor name: the definition that declares it is referenced through it by the
    other definition, by itself and by the root object; declared before / after its first use; `definitions`, `$defs`
    and a document with both containers (the anchor in the second one)"""
    other = "other" if re.fullmatch(r"anc\d+", name) else None  # the second anchor keeps the historical name
    return [
        {"container": "definitions", "keys": ["Pet", "Dog"], "edges": [[1, 0, "anchor"]], "root_refs": [0], "root_anchors": [0], "anchors": [name, None]},
        {"container": "$defs", "keys": ["Dog", "Pet"], "edges": [[0, 1, "anchor"], [1, 1, "anchor"], [1, 0, "anchor"]], "root_refs": [], "anchors": [other, name]},
        {"container": "definitions", "keys": ["Pet", "Dog"], "edges": [[0, 1, "anchor"]], "root_refs": [0, 1], "root_anchors": [1], "anchors": [None, name], "containers": ["definitions", "$defs"]},
    ]


def campaign_e2e_anchor_scope(ck: Check, derived: list[str], label: str, budget_s: float = 45.0, sample: int | None = None) -> None:
    """failing-input search over the anchor-name family: the names derived from the disagreements, one-character
    variations of them, and the systematic small scope `anchor_scope_names()`; the names on which the pattern object
    of the code no longer agrees with the reviewed rule are tried first. Stops at the first name that gives a
    failure (after trying to shorten it) or when the time budget is used up."""
    camp = ck.campaign("e2e anchor-name scope: names derived from the disagreements + all class pools + all names of length <= 2 over 13 class representatives" + label)
    t0 = time.time()
    names = list(derived)
    for d in derived[:12]:
        names += [d + x for x in ANCHOR_ALPHABET] + [x + d for x in ANCHOR_ALPHABET]
    scope = anchor_scope_names()
    names += scope if sample is None else ck.rng.fork("anchor-scope" + label).sample(scope, sample)
    names = [a for a in dict.fromkeys(names) if in_anchor_family(a)]
    first = sorted(id_pattern_changed_on(names), key=lambda a: not anchor_shape(a).startswith("spec"))  # stable: plain names of the drafts first
    camp.hit(f"names-the-pattern-object-rejects:{min(len(first), 9)}{'+' if len(first) > 9 else ''}")
    names = list(dict.fromkeys(first + names))

    def fails(name: str) -> bool:
        k = len(ck.failures)
        for case in anchor_scope_cases(name):
            if not e2e_oracle(ck, camp, case) and len(ck.failures) > k:
                return True
        return False

    for name in names:
        if time.time() - t0 > budget_s:
            camp.hit("stopped:time-budget")
            break
        if fails(name):
            # shrink: drop characters while some document around the shorter name still fails
            best = name
            progress = True
            while progress and len(best) > 1 and time.time() - t0 < budget_s:
                progress = False
                for i in range(len(best)):
                    shorter = best[:i] + best[i + 1:]
                    # a plain name of the drafts stays one: the replay should show the strongest witness
                    same = anchor_shape(shorter).split(":")[0] == anchor_shape(best).split(":")[0]
                    if in_anchor_family(shorter) and same and fails(shorter):
                        best, progress = shorter, True
                        break
            # the failure of the shortest name goes first (it becomes the replay)
            ck.failures.insert(0, ck.failures.pop())
            camp.hit("found:" + anchor_shape(best))
            break
    camp.wall_s = time.time() - t0


def search_embed_disagreements(ck: Check) -> None:
    """DESIGN §2.5: (1) anchor-shaped strings of the disagreeing inputs and the systematic scope of the anchor-name
    family, embedded as `$id` / `$ref` pairs into complete documents; (2) the names of every disagreeing
    operation sequence become definition keys of complete documents (all orders, three containers,
    forward/mutual/self references); then a wider seeded e2e campaign; then the exhaustive small scope."""
    if "parse_ref_descends_into_every_schema_field" in ck.broken or any(isinstance(d.input, dict) and "walk_tree" in d.input for d in ck.disagreements):
        c06_walk.search(ck)
        if ck.failures:
            return
    if any(isinstance(d.input, dict) and "ids_root" in d.input for d in ck.disagreements) or any(
        b in ck.broken for b in ("declared_id_is_registered", "anchor_ref_resolves_to_walk_path", "nested_anchor_lands_on_enclosing_definition", "resolveRefId_not_idempotent_under_relative_root_id")
    ):
        c06_ids.search(ck)
        if ck.failures:
            return
    campaign_e2e_anchor_scope(ck, anchor_names_of_disagreements([d.input for d in ck.disagreements]), " [search]")
    if ck.failures:
        return
    seqs = [d.input for d in ck.disagreements if isinstance(d.input, dict) and "ops" in d.input]
    mods = [d.input for d in ck.disagreements if isinstance(d.input, dict) and "models" in d.input]
    keys = names_of_sequences(seqs)
    for m in mods:
        keys += [x for x in m["imports"] + [c for _, c, _ in m["models"]] if x not in keys and x.isascii()]
    keys = list(dict.fromkeys(keys))[:7]  # a key occurs once in a container
    if len(keys) >= 2:
        campaign_e2e_exhaustive(ck, keys, min(3, len(keys)), " [search: keys of the disagreeing sequences]")
        if ck.failures:
            return
    campaign_e2e(ck, 250, " [search]")
    if ck.failures:
        return
    c06_dedupe.search(ck)
    if ck.failures:
        return
    c06_dirs.search(ck)
    if ck.failures:
        return
    campaign_multidoc(ck, 300, exhaustive=True)
    if ck.failures:
        return
    campaign_e2e_exhaustive(ck, CORE_KEYS[:6] + ["BaseModel"], 3, " [search]")


def known_findings(ck: Check) -> None:
    """Re-run the stored witness of every open finding; print KNOWN-FINDING when it still fails."""
    for f in ck.findings:
        probe = Check(ck.prop, ck.tier)
        probe.findings = []
        camp = probe.campaign("witness")
        if f["witness"].get("dirs"):
            c06_dirs.dirs_oracle(probe, camp, f["witness"])
        elif f["witness"].get("walk"):
            c06_walk.walk_oracle(probe, camp, f["witness"])
        else:
            e2e_oracle(probe, camp, f["witness"])
        if probe.failures:
            ck.known(f["id"], f["what"])


def run(ck: Check) -> None:
    quick = ck.tier == "quick"
    ck.translate(c06_tables.GEN_NAME, c06_tables.generate())
    ck.prove()
    ck.assumptions += [
        "Dcg/Model/Resolver.lean restates ModelResolver (add_ref/add/get/delete/get_class_name/_get_unique_name/join_path/resolve_ref) "
        "and Parser.__replace_duplicate_name_in_module; agreement is tested in this run after every operation of random sequences",
        "modelled region: default resolver options plus exclude_names / duplicate_name_suffix / singular_name_suffix; ASCII names; "
        "local pointers, '#', plain relative file references; URLs, base_url, $id/anchors, root_id, remove_suffix_number, "
        "parent_scoped_naming are outside the model (answered `unmodelled`, counted)",
        "inflect (get_singular_name) is an oracle parameter: the answers of the real function are handed to the model",
        "$id / anchors: the model has the TEST `isIdRef` (which references go to the id registry; the pattern text, its flags and its one use are regenerated "
        "from reference.py and tied by `id_pattern_is_reviewed`; that `isIdRef` is the meaning of that regular expression under re.match is a reviewed reading, "
        "compared with the real pattern object on every run) but not the registry: anchor RESOLUTION is exercised end-to-end only. End-to-end family of anchors: "
        "`$id: \"#<name>\"` on an entry of definitions / $defs (not on nested subschemas), referenced from the same file by the identical string `#<name>` "
        "(from another definition, from itself, from the root object); <name> any non-empty string that does not start with `/` (`#` is the root, `#/...` a JSON pointer), "
        "does not end in `#/` (JsonSchemaObject.validate_ref rewrites a `$ref` ending in `#/` to the root pointer) and is declared once per file; "
        "percent-encoded and literal spellings of one name are different names; OpenAPI schema objects have no `$id` (no anchors there); "
        "`other.json#name` (an anchor of another file) is not supported by the generator and not part of the family",
        "pathlib on POSIX without symlinks below the base path",
        "Dcg/Model/IdRegistry restates JsonSchemaParser.parse_id, ModelResolver.add_id / ids and resolve_ref with root_id, root_id_base_path and the regular files of the input directory "
        "(current_base_path = base_path, no base_url; URLs over letters, digits and . - _ ~ : / with a plain path; a URL of the root id's host outside its directory is probed through `..`: "
        "assumed not to exist, as in the harness); agreement is tested in this run on a real parser object (ids table after the prelude, resolve_ref of a reference pool and of its own answers)",
        "theorems hold for every class-name generator; `name_is_classform` speaks of that function, the concrete default form is only tested",
        "multi-document input: files of one flat directory, references `other.json#/pointer`, `other.json`, `#/pointer`; Model/ResolverMultidoc starts from the "
        "reserved/loaded state observed at the first call of _resolve_unparsed_json_pointer (the per-document prelude is not modelled for document sets)",
        "Dcg/Model/ResolverDedupe restates the name/key logic of Parser.__delete_duplicate_models; the key (render(class_name=duplicate_class_name), imports) is a parameter "
        "whose value the harness takes from the real objects; the root-model branch of the pass (a root-type model that only wraps a reference to a model of its own name) is outside the model",
        "modular output of ONE document (dotted definition keys `pkg.Pet`, `pkg.sub.Pet`, `other.Pet` next to plain keys; module names pkg / pkg.sub / other only): "
        "the written package is imported for real, so the module-level reference graph of the family is acyclic (package root -> pkg -> pkg.sub -> other; a cycle of modules is a circular import, "
        "which C06 does not speak about); references inside a module are unrestricted; msgspec / TypedDict kinds are not in this campaign",
        "base-path contexts: directories below the resolver's _base_path as segment lists, POSIX paths without symlinks; a path that leaves _base_path is answered `outside`, "
        "a current directory outside _base_path (or None) ends the modelled region; `#…` references and URLs are outside this part of the model",
    ]
    ck.notes["distinct_nontrivial_rules"] = {
        "sequences": "distinct (options, operation prefix up to the first unmodelled op) whose final registry holds >= 2 entries",
        "classForm/validName": "distinct inputs whose result differs from the input",
        "joinPath": "distinct part lists with >= 2 non-empty parts",
        "resolveRef": "distinct (root, ref) that resolve (no exception) on the real class",
        "isIdRef": "distinct strings `#x...` of length >= 2 (anchor-shaped or pointer-shaped)",
        "anchor-scope": "distinct documents on which the oracle passed (3 documents per anchor name)",
        "uniqueName": "distinct cases in which a suffix had to be appended",
        "modpass": "distinct cases in which the pass renamed at least one class",
        "worklist": "distinct documents whose parse reserved at least one pointer",
        "multidoc": "distinct document sets (file stems in listing order, edges, kind) on which the oracle passed; for the model correspondence: those in which _resolve_unparsed_json_pointer made at least one lookup",
        "collide": "distinct documents (keys in order, content per key, container, kind) on which the oracle passed",
        "dedupe-pass": "distinct model sequences in which the real pass dropped at least one model",
        "dirs": "distinct directory trees (files, edges, entry, kind) on which the oracle passed",
        "dotted": "distinct documents with dotted keys (keys in order, edges, container, kind) on which the oracle passed",
        "basepath": "distinct operation sequences in which one reference string got different answers in different directories",
        "walk": "distinct inputs (members with keyword chains and targets, kind) on which the oracle passed",
        "walk-model": "distinct schema trees with >= 2 references",
        "ids-model": "distinct (root, root id, files, walks) whose id table holds >= 2 ids after the prelude",
        "ids-e2e": "distinct documents (root id, targets, referring members, kind) on which the oracle passed",
        "e2e": "distinct documents (keys in order, edges, container, kind) on which the oracle passed; failures matching a known finding are counted in known_finding_hits_in_campaigns",
    }
    campaign_sequences(ck, 400 if quick else 3000)
    campaign_functions(ck, 300 if quick else 3000)
    campaign_modpass(ck, 300 if quick else 3000)
    campaign_worklist(ck, 120 if quick else 1200)
    c06_walk.campaign_walk_model(ck, 300 if quick else 3000)
    c06_walk.campaign_walk(ck, 150 if quick else 1200)
    c06_ids.campaign_ids_model(ck, 250 if quick else 4000)
    c06_ids.campaign_ids_e2e(ck, 40 if quick else 600)
    campaign_e2e(ck, 100 if quick else 600)
    c06_dedupe.campaign_collide(ck, 80 if quick else 800, 3 if quick else 4)
    c06_dedupe.campaign_pass(ck, 300 if quick else 3000, 4 if quick else 5)
    campaign_multidoc(ck, 200 if quick else 1500, exhaustive=not quick)
    c06_dirs.campaign_dirs(ck, 120 if quick else 1500)
    c06_dirs.campaign_basepath(ck, 300 if quick else 3000)
    c06_dirs.campaign_dotted(ck, 60 if quick else 900, scope=not quick)
    # the systematic scope of the anchor-name family that the failing-input search enumerates is itself part of
    # the regular run (all of it in the thorough tier, a seeded sample of the names in the quick tier)
    campaign_e2e_anchor_scope(ck, [], "", budget_s=20.0 if quick else 120.0, sample=60 if quick else None)
    if not quick:
        campaign_e2e_exhaustive(ck, CORE_KEYS, 4, "")
    ck.search_hooks.append(search_embed_disagreements)
    known_findings(ck)


def replay(ck: Check, path: str) -> int:
    data = json.loads(open(path).read())
    _inp = data.get("input") or (data.get("first_disagreement") or {}).get("input") or {}
    if isinstance(_inp, dict) and (_inp.get("ids_doc") or "ids_root" in _inp):
        if _inp.get("ids_doc"):
            c06_ids.ids_oracle(ck, ck.campaign("replay"), _inp)
        else:
            c06_ids.campaign_ids_model(ck, 0, " [replay]", cases=[_inp])
        for f in ck.failures:
            print("REPLAY-FAILS:", json.dumps(f.classification), f.observed[:300])
        for d in ck.disagreements:
            print("REPLAY-DISAGREES:", d.campaign, "model=", str(d.model)[:300], "impl=", str(d.impl)[:300])
        if not ck.failures and not ck.disagreements:
            print("replay: model and implementation agree and the oracle does not fail on this input")
        return 1 if ck.failures or ck.disagreements else 0
    inp = data.get("input") or (data.get("first_disagreement") or {}).get("input") or {}
    if inp.get("dedupe_pass"):
        c06_dedupe.campaign_pass(ck, 0, 0, " [replay]", cases=[{k: v for k, v in inp.items() if k != "dedupe_pass"}])
        for f in ck.failures:
            print("REPLAY-FAILS:", json.dumps(f.classification), f.observed[:300])
        for d in ck.disagreements:
            print("REPLAY-DISAGREES:", d.campaign, "model=", str(d.model)[:300], "impl=", str(d.impl)[:300])
        if not ck.failures and not ck.disagreements:
            print("replay: model and implementation agree and the oracle does not fail on this input")
        return 1 if ck.failures or ck.disagreements else 0
    if inp.get("dotted"):
        camp = ck.campaign("replay")
        c06_dirs.dotted_oracle(ck, camp, inp)
        for f in ck.failures:
            print("REPLAY-FAILS:", json.dumps(f.classification), f.observed[:300])
        if not ck.failures:
            print("replay: the oracle does not fail on this input" + (" (matches a known finding)" if ck.known_hits else ""))
        return 1 if ck.failures else 0
    if inp.get("walk"):
        camp = ck.campaign("replay")
        c06_walk.walk_oracle(ck, camp, inp)
        for f in ck.failures:
            print("REPLAY-FAILS:", json.dumps(f.classification), f.observed[:300])
        if not ck.failures:
            print("replay: the oracle does not fail on this input" + (" (matches a known finding)" if ck.known_hits else ""))
        return 1 if ck.failures else 0
    if "walk_tree" in inp:
        c06_walk.campaign_walk_model(ck, 0, cases=[inp["walk_tree"]])
        for d in ck.disagreements:
            print("REPLAY-DISAGREES:", d.campaign, "model=", str(d.model)[:300], "impl=", str(d.impl)[:300])
        if not ck.disagreements:
            print("replay: model and implementation agree on this input")
        return 1 if ck.disagreements else 0
    if inp.get("dirs"):
        camp = ck.campaign("replay")
        c06_dirs.dirs_oracle(ck, camp, inp)
        for f in ck.failures:
            print("REPLAY-FAILS:", json.dumps(f.classification), f.observed[:300])
        if not ck.failures:
            print("replay: the oracle does not fail on this input" + (" (matches a known finding)" if ck.known_hits else ""))
        return 1 if ck.failures else 0
    if "ctx_ops" in inp:
        c06_dirs.campaign_basepath(ck, 0, " [replay]", cases=[inp["ctx_ops"]])
        for d in ck.disagreements:
            print("REPLAY-DISAGREES:", d.campaign, "model=", str(d.model)[:300], "impl=", str(d.impl)[:300])
        if not ck.disagreements:
            print("replay: model and implementation agree on this input")
        return 1 if ck.disagreements else 0
    if inp.get("collide"):
        camp = ck.campaign("replay")
        c06_dedupe.collide_oracle(ck, camp, inp)
        for f in ck.failures:
            print("REPLAY-FAILS:", json.dumps(f.classification), f.observed[:300])
        if not ck.failures:
            print("replay: the oracle does not fail on this input")
        return 1 if ck.failures else 0
    if "stems" in inp:
        camp = ck.campaign("replay")
        multidoc_oracle(ck, camp, inp)
        for f in ck.failures:
            print("REPLAY-FAILS:", json.dumps(f.classification), f.observed[:300])
        if not ck.failures:
            print("replay: the oracle does not fail on this input")
        return 1 if ck.failures else 0
    if "container" in inp:
        camp = ck.campaign("replay")
        e2e_oracle(ck, camp, inp)
        for f in ck.failures:
            print("REPLAY-FAILS:", json.dumps(f.classification), f.observed[:300])
        if not ck.failures:
            print("replay: the oracle does not fail on this input" + (" (matches a known finding)" if ck.known_hits else ""))
        return 1 if ck.failures else 0
    if "ops" in inp:
        campaign_sequences(ck, 0, " [replay]", cases=[inp])
    elif "models" in inp:
        simple_campaign(ck, "replay: per-module pass", [inp],
                        lambda c: f"res.modpass {enc_strs(c['imports'])} ({' '.join('(' + ' '.join(hx(x) for x in m) + ')' for m in c['models'])})",
                        real_modpass)
    else:
        print("replay: nothing to replay in this file")
        return 2
    for d in ck.disagreements:
        print("REPLAY-DISAGREES:", d.campaign, "model=", str(d.model)[:300], "impl=", str(d.impl)[:300])
    if not ck.disagreements:
        print("replay: model and implementation agree on this input")
    return 1 if ck.disagreements else 0
