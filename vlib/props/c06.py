"""C06 — each named schema yields exactly one model and every reference lands on it."""
from __future__ import annotations

import ast
import itertools
import json
import time
import typing
from pathlib import Path

from .. import e2e
from ..common import Hang, Rng, hx, unhx, watchdog
from ..runner import Check
from ..translate import c06_tables

# ------------------------------------------------------------------ pools (names that collide after normalisation)
NAMES = [
    "Pet", "pet", "Pet_", "Pets-item", "Pets_item", "PetsItem", "Pets", "pets", "Pet1", "pet_1", "PET", "PetModel",
    "", "class", "None", "false", "1pet", "_pet", "#pet", "#", "pet model", "Pet.", "a.Pet", "a.b.pet", "x.Pet",
]
NON_ASCII_NAMES = ["Pét", "pet⁰", "Ｐet"]
CONTAINERS = ["#/definitions", "#/$defs", "#/components/schemas"]
ROOTS = [[], [], ["a.json"], ["dir", "b.json"]]
FILE_REFS = ["a.json", "a.json#", "a.json#/definitions/Pet", "dir/b.yaml#/x/pet", "Pet.json", "x.y.json#/definitions/pet", "pets.v1.yaml"]
MALFORMED_REFS = ["#foo", "", "../x.json", "./a.json", "a//b.json", "/abs.json", "http://h/x.json#/definitions/Pet", "https://h/p", "#Pet", "##"]


# ------------------------------------------------------------------ tiny S-expression reader for driver replies
def sx_parse(text: str):
    toks = text.replace("(", " ( ").replace(")", " ) ").split()
    stack: list[list] = [[]]
    for t in toks:
        if t == "(":
            stack.append([])
        elif t == ")":
            top = stack.pop()
            stack[-1].append(top)
        else:
            stack[-1].append(t)
    return stack[0]


def enc_strs(xs) -> str:
    return "(" + " ".join(hx(x) for x in xs) + ")"


# ------------------------------------------------------------------ operation sequences
def gen_sequence(rng: Rng, max_ops: int = 30) -> dict:
    """One test case: resolver options + a list of operations (JSON-able)."""
    names = rng.sample(NAMES, rng.range(2, 6))
    if rng.chance(1, 25):
        names.append(rng.choice(NON_ASCII_NAMES))
    conts = rng.sample(CONTAINERS, rng.range(1, 2))
    excl = [n for n in ("Pet", "Pet1", "PetsItem", "Field") if rng.chance(1, 5)]
    sfx = rng.choice(["", "", "", "Model", "X"])
    sing = rng.choice([None, None, None, "", "Thing"])
    ops = []
    root: list[str] = []
    for _ in range(rng.range(3, max_ops)):
        k = rng.below(100)
        name = rng.choice(names)
        cont = rng.choice(conts)
        key = rng.choice(names) if rng.chance(1, 6) else name  # path key and requested name usually agree
        if k < 40:
            shape = rng.below(10)
            if shape < 6:
                path = [*root, cont, key]
            elif shape < 8:
                path = [*root, f"{cont}/{key}"]
            elif shape == 8:
                path = [*root, "", cont, key, ""]
            else:
                path = [*root, cont, key, "items"]
            cls = not rng.chance(1, 10)
            ops.append(
                {
                    "op": "add",
                    "path": path,
                    "orig": name if not rng.chance(1, 12) else "",
                    "cls": cls,
                    "sing": rng.chance(1, 6),
                    "uniq": not rng.chance(1, 5),
                    "sgsfx": rng.choice([None, None, None, "", "Elem"]),
                    "loaded": rng.chance(2, 3),
                }
            )
        elif k < 70:
            r = rng.below(20)
            if r < 13:
                ref = f"{cont}/{key}"
                resolved = False
            elif r < 15:
                ref = "/".join(root) + f"{cont}/{key}"
                resolved = True
            elif r < 16:
                ref = "#"
                resolved = False
            elif r < 18:
                ref = rng.choice(FILE_REFS)
                resolved = rng.chance(1, 4)
            else:
                ref = rng.choice(MALFORMED_REFS)
                resolved = rng.chance(1, 4)
            ops.append({"op": "addref", "ref": ref, "resolved": resolved})
        elif k < 82 or k >= 95:
            r = rng.below(10)
            if r < 5:
                arg = {"s": f"{cont}/{key}"}
            elif r < 8:
                arg = {"q": [cont, key] if rng.chance(1, 2) else [*root, cont, key]}
            elif r < 9:
                arg = {"s": rng.choice(FILE_REFS + ["#"])}
            else:
                arg = {"s": rng.choice(MALFORMED_REFS)}
            ops.append({"op": "get" if k < 82 else "del", "arg": arg})
        else:
            root = list(rng.choice(ROOTS))
            ops.append({"op": "root", "root": root})
    return {"excl": excl, "sfx": sfx, "sing": sing, "ops": ops}


def enc_op(op: dict) -> str:
    b = lambda v: "1" if v else "0"  # noqa: E731
    if op["op"] == "addref":
        return f"(addref {hx(op['ref'])} {b(op['resolved'])})"
    if op["op"] == "add":
        sg = "-" if op["sgsfx"] is None else hx(op["sgsfx"])
        return f"(add {enc_strs(op['path'])} {hx(op['orig'])} {b(op['cls'])} {b(op['sing'])} {b(op['uniq'])} {sg} {b(op['loaded'])})"
    if op["op"] in ("get", "del"):
        a = op["arg"]
        arg = f"(s {hx(a['s'])})" if "s" in a else "(q " + " ".join(hx(x) for x in a["q"]) + ")"
        return f"({op['op']} {arg})"
    return f"(root {enc_strs(op['root'])})"


def enc_case(case: dict, table) -> str:
    sing = "Item" if case["sing"] is None else case["sing"]
    rows = " ".join(f"({hx(n)} {hx(s)} {hx(r)})" for (n, s), r in sorted(table.items()))
    return f"res.run {hx(case['sfx'])} {hx(sing)} {enc_strs(case['excl'])} ({rows}) ({' '.join(enc_op(o) for o in case['ops'])})"


_scratch = None


def scratch_dir() -> Path:
    global _scratch
    if _scratch is None:
        _scratch = Path(e2e.scratch_root()).resolve() / "c06-base"
        _scratch.mkdir(exist_ok=True)
    return _scratch


class SingRecorder:
    """`get_singular_name` (inflect) is an oracle parameter of the model: record what the real one answered."""

    def __init__(self) -> None:
        self.table: dict[tuple[str, str], str] = {}

    def __enter__(self):
        from datamodel_code_generator import reference

        self.mod = reference
        self.orig = reference.get_singular_name

        def wrapper(name, suffix=reference.SINGULAR_NAME_SUFFIX):
            r = self.orig(name, suffix)
            self.table[(name, suffix)] = r
            return r

        reference.get_singular_name = wrapper
        return self

    def __exit__(self, *a):
        self.mod.get_singular_name = self.orig


def observe(res, oids: dict, keep: list) -> list:
    out = []
    for path, r in res.references.items():
        if id(r) not in oids:
            oids[id(r)] = len(oids)
            keep.append(r)
        out.append([path, r.name, r.original_name, r.duplicate_name, bool(r.loaded), oids[id(r)]])
        if r.path != path:
            out[-1].append(f"path-field={r.path}")
    return out


def run_impl(case: dict):
    """Execute the sequence on a real ModelResolver; observable state after every operation."""
    from datamodel_code_generator.reference import ModelResolver

    res = ModelResolver(
        exclude_names=set(case["excl"]),
        duplicate_name_suffix=case["sfx"] or None,
        singular_name_suffix=case["sing"],
        base_path=scratch_dir(),
    )
    oids: dict[int, int] = {}
    keep: list = []
    trace = []
    with SingRecorder() as rec:
        for op in case["ops"]:
            out: typing.Any
            try:
                with watchdog(5.0):
                    if op["op"] == "addref":
                        r = res.add_ref(op["ref"], resolved=op["resolved"])
                        st = observe(res, oids, keep)
                        out = ["ref", oids[id(r)]] if id(r) in oids else ["ref", "dangling"]
                    elif op["op"] == "add":
                        r = res.add(
                            op["path"],
                            op["orig"],
                            class_name=op["cls"],
                            singular_name=op["sing"],
                            unique=op["uniq"],
                            singular_name_suffix=op["sgsfx"],
                            loaded=op["loaded"],
                        )
                        st = observe(res, oids, keep)
                        out = ["ref", oids[id(r)]] if id(r) in oids else ["ref", "dangling"]
                    elif op["op"] == "get":
                        a = op["arg"]
                        r = res.get(a["s"] if "s" in a else a["q"])
                        out = "none" if r is None else ["ref", oids.get(id(r), "dangling")]
                    elif op["op"] == "del":
                        a = op["arg"]
                        res.delete(a["s"] if "s" in a else a["q"])
                        out = "unit"
                    else:
                        res.set_current_root(op["root"])
                        out = "unit"
            except (KeyError, IndexError):
                out = "raised"
            except Hang:
                out = "diverges"
            except Exception as e:  # noqa: BLE001
                out = f"exc:{type(e).__name__}"
            trace.append([out, list(res.current_root), observe(res, oids, keep)])
        return trace, rec.table


def decode_model_trace(reply: str):
    if not reply.startswith("ok"):
        return reply
    items = sx_parse(reply[2:])
    trace = []
    for out, root, entries in items:
        o = ["ref", int(out[1])] if isinstance(out, list) else out
        ents = [
            [unhx(p), unhx(n), unhx(og), None if d == "-" else unhx(d), ld == "1", int(oid)]
            for p, n, og, d, ld, oid in entries
        ]
        trace.append([o, [unhx(x) for x in root], ents])
    return trace


def is_unmodelled_trace(model) -> bool:
    return model == "unmodelled" or (isinstance(model, list) and any(it[0] == "unmodelled" for it in model))


def campaign_sequences(ck: Check, n: int, label: str = "", cases: list | None = None) -> list:
    camp = ck.campaign("Resolver.step vs real ModelResolver: operation sequences, state compared after every op" + label)
    t0 = time.time()
    rng = ck.rng.fork("sequences" + label)
    cases = list(cases or []) + [gen_sequence(rng) for _ in range(n)]
    impl = [run_impl(c) for c in cases]
    replies = ck.driver.run([enc_case(c, tab) for c, (_, tab) in zip(cases, impl)])
    bad = []
    for case, (itrace, _), rep in zip(cases, impl, replies):
        camp.evaluations += 1
        model = decode_model_trace(rep)
        if isinstance(model, str) and model != "unmodelled":
            ck.infra_errors.append(f"driver reply {rep[:200]!r}")
            continue
        camp.hit("ops", len(case["ops"]))
        for op in case["ops"]:
            camp.hit("op:" + op["op"])
        if model == "unmodelled":
            camp.unmodelled += 1
            camp.hit("unmodelled:non-ascii")
            continue
        # compare up to the first operation outside the modelled region
        cut = next((i for i, it in enumerate(model) if it[0] == "unmodelled"), None)
        if cut is not None:
            camp.hit("cut:unmodelled-ref")
            m_cmp, i_cmp = model[:cut], itrace[:cut]
        else:
            m_cmp, i_cmp = model, itrace
        for it in m_cmp:
            camp.hit("out:" + (it[0][0] if isinstance(it[0], list) else it[0]))
        names = [e[1] for e in (m_cmp[-1][2] if m_cmp else [])]
        if len(set(names)) < len(names):
            camp.hit("state:name-collision")
        if any(e[3] for it in m_cmp for e in it[2]):
            camp.hit("state:duplicate_name")
        if m_cmp and len(m_cmp[-1][2]) >= 2:
            camp.distinct.add(json.dumps([case["excl"], case["sfx"], case["sing"], case["ops"][: len(m_cmp)]], sort_keys=True))
        if m_cmp != i_cmp:
            k = next((i for i, (a, b) in enumerate(zip(m_cmp, i_cmp)) if a != b), min(len(m_cmp), len(i_cmp)))
            small = dict(case, ops=case["ops"][: k + 1])
            ck.disagree(camp, small, m_cmp[k] if k < len(m_cmp) else None, i_cmp[k] if k < len(i_cmp) else None)
            bad.append(small)
        elif len(camp.samples) < 2 and len(case["ops"]) <= 8:
            camp.samples.append(case)
    camp.wall_s = time.time() - t0
    return bad


# ------------------------------------------------------------------ function-level correspondence
NAME_UNITS = [
    list("abpPZ"), list("019"), ["_", "__", "-", " ", ".", "#", "$", "/", "~"],
    ["class", "None", "True", "False", "def", "pet", "Pet", "model", "item", "field", "Field"],
    ["é", "⁰", "½", "日", "ǅ"],
]


def gen_name(rng: Rng, ascii_only: bool) -> str:
    groups = NAME_UNITS[:4] if ascii_only else NAME_UNITS
    return "".join(rng.choice(rng.choice(groups)) for _ in range(rng.range(0, 6)))


def simple_campaign(ck: Check, name: str, cases: list, req, impl, key=None, nontrivial=None, classify=None) -> None:
    """Generic differential campaign: `req(case)` is the driver line, `impl(case)` the real answer in
    the reply vocabulary (`("ok", value)`, `"raised"`, `"unmodelled"`…)."""
    camp = ck.campaign(name)
    t0 = time.time()
    replies = ck.driver.run([req(c) for c in cases])
    for c, rep in zip(cases, replies):
        camp.evaluations += 1
        parts = rep.split(" ", 1)
        if parts[0] == "ok":
            body = parts[1] if len(parts) > 1 else ""
            model = ("ok", [unhx(x) for x in sx_parse(body)[0]] if body.startswith("(") else unhx(body))
        else:
            model = rep
        if model == "unmodelled":
            camp.unmodelled += 1
            camp.hit("unmodelled")
            continue
        if isinstance(model, str) and model.startswith("err"):
            ck.infra_errors.append(f"driver reply {rep!r} for {c!r}")
            continue
        try:
            with watchdog(5.0):
                real = impl(c)
        except (KeyError, IndexError):
            real = "raised"
        except Hang:
            real = "diverges"
        if classify:
            camp.hit(classify(c, real))
        if nontrivial is None or nontrivial(c, real):
            camp.distinct.add(json.dumps(key(c) if key else c, sort_keys=True, default=str))
        if model != real:
            ck.disagree(camp, c, model, real)
        elif len(camp.samples) < 2 and (nontrivial is None or nontrivial(c, real)):
            camp.samples.append({"case": c, "result": real})
    camp.wall_s = time.time() - t0


def campaign_functions(ck: Check, n: int) -> None:
    from datamodel_code_generator.reference import ModelResolver, ModelType

    rng = ck.rng.fork("functions")
    base = ModelResolver(base_path=scratch_dir())
    fr = base.field_name_resolvers[ModelType.CLASS]
    names = NAMES + NON_ASCII_NAMES + [gen_name(rng, not rng.chance(1, 10)) for _ in range(n)]
    simple_campaign(
        ck, "classForm? vs ModelResolver.default_class_name_generator (ASCII region)", names,
        lambda s: f"res.classform {hx(s)}", lambda s: ("ok", base.default_class_name_generator(s)),
        nontrivial=lambda s, r: r != ("ok", s),
        classify=lambda s, r: "changed" if r != ("ok", s) else "identity",
    )
    simple_campaign(
        ck, "validName? vs FieldNameResolver(CLASS).get_valid_name(ignore_snake_case_field=True)", names,
        lambda s: f"res.validname {hx(s)}", lambda s: ("ok", fr.get_valid_name(s, ignore_snake_case_field=True)),
        nontrivial=lambda s, r: r != ("ok", s),
    )
    part_pool = ["", "#", "#/a", "a", "a/", "/#", "b#c", "/", "x/#y", "definitions", "Pet", "#/definitions", "a.json", "//#", "#/", "é"]
    paths = [[rng.choice(part_pool) for _ in range(rng.range(0, 5))] for _ in range(n)]
    simple_campaign(
        ck, "joinPath vs ModelResolver.join_path", paths,
        lambda ps: f"res.joinpath {enc_strs(ps)}", lambda ps: ("ok", ModelResolver.join_path(ps)),
        nontrivial=lambda ps, r: len([p for p in ps if p]) >= 2,
    )
    ref_pool = (
        FILE_REFS + MALFORMED_REFS
        + [f"{c}/{k}" for c in CONTAINERS for k in ("Pet", "pet", "Pets-item", "a.b", "é")]
        + ["#", "#/", "#/a#b", "a#b#c", "a.json#x", ".", "..", "a/./b", "a/../b", "dir/", "x y.json#/a b", "~", "a\\b"]
    )

    def real_resolve(c):
        root, ref = c
        base.set_current_root(root)
        try:
            return ("ok", base.resolve_ref(ref))
        finally:
            base.set_current_root([])

    rcases = [[list(rng.choice(ROOTS + [["http://h", "x.json"]])), rng.choice(ref_pool)] for _ in range(n)]
    simple_campaign(
        ck, "resolveRef vs ModelResolver.resolve_ref (local pointers, plain relative files)", rcases,
        lambda c: f"res.resolve {enc_strs(c[0])} {hx(c[1])}", real_resolve,
        nontrivial=lambda c, r: isinstance(r, tuple),
        classify=lambda c, r: "ok" if isinstance(r, tuple) else str(r),
    )
    # idempotence of resolve_ref on the real class, over the results of the campaign above
    camp = ck.campaign("resolve_ref(resolve_ref(r)) == resolve_ref(r) on the real class (modelled region)")
    for root, ref in rcases:
        if root and root[0].startswith("http"):
            continue
        try:
            once = real_resolve([root, ref])[1]
            rep = ck_resolve_cache(ck, root, ref)
        except (KeyError, IndexError):
            continue
        if rep != "ok":
            continue
        camp.evaluations += 1
        camp.distinct.add(json.dumps([root, ref]))
        twice = real_resolve([root, once])[1]
        if twice != once:
            ck.fail({"oracle": "resolve_idempotent"}, {"root": root, "ref": ref}, f"resolve_ref twice gives {twice!r}, once {once!r}")
    stems = [rng.choice(["", ".", "..", "a", "a.b", ".a", "a.", "a.b.c", "..a", "a..", "Pet.json", "x.y.yaml", "#", "é.ü"]) for _ in range(60)]
    simple_campaign(
        ck, "stem vs pathlib.Path(x).stem (x without '/')", stems,
        lambda s: f"res.stem {hx(s)}", lambda s: ("ok", Path(s).stem),
    )

    # _get_unique_name with a planted set of taken names
    def real_unique(c):
        r = ModelResolver(exclude_names=set(c["excl"]), duplicate_name_suffix=c["sfx"] or None, base_path=scratch_dir())
        for i, nm in enumerate(c["refs"]):
            r.references[f"p{i}#"] = r.add_ref(f"p{i}#", resolved=True)
            r.references[f"p{i}#"].name = nm
        return ("ok", r._get_unique_name(c["name"], camel=c["camel"]))  # noqa: SLF001

    ucases = []
    for _ in range(n):
        name = rng.choice(["Pet", "pet", "", "Pet1", "a_b", "X"])
        sfx = rng.choice(["", "", "Model", "_", "1"])
        camel = rng.chance(1, 2)
        d = "" if camel else "_"
        k = rng.range(0, 14)
        cands = [name] + [d.join(p for p in ([name, str(i)] if not sfx else [name, sfx, str(i - 1) if i > 1 else ""]) if p) for i in range(1, 16)]
        tk = [c for c in cands[:k] if not rng.chance(1, 8)] + [rng.choice(["Other", "Pet2", "pet_3", "PetModel", "1", "Model"]) for _ in range(rng.below(3))]
        cut = rng.below(len(tk) + 1)
        ucases.append({"name": name, "sfx": sfx, "camel": camel, "refs": tk[:cut], "excl": tk[cut:]})
    simple_campaign(
        ck, "uniqueName (cand/goU with fuel |taken|+1) vs ModelResolver._get_unique_name", ucases,
        lambda c: f"res.unique {hx(c['sfx'])} {'1' if c['camel'] else '0'} {enc_strs(c['refs'] + c['excl'])} {hx(c['name'])}",
        real_unique,
        nontrivial=lambda c, r: r != ("ok", c["name"]),
        classify=lambda c, r: "suffixed" if r != ("ok", c["name"]) else "free",
    )


_resolve_cache: dict = {}


def ck_resolve_cache(ck: Check, root, ref) -> str:
    k = json.dumps([root, ref])
    if k not in _resolve_cache:
        _resolve_cache[k] = ck.driver.run([f"res.resolve {enc_strs(root)} {hx(ref)}"])[0].split(" ")[0]
    return _resolve_cache[k]


class FakeImport:
    def __init__(self, name: str) -> None:
        self.alias = None
        self.import_ = name


class FakeModel:
    """Duck-typed stand-in for DataModel: exactly the attributes the per-module pass touches."""

    def __init__(self, path: str, cls: str, dup: str, imports: list[str]) -> None:
        self.path, self.class_name, self.duplicate_class_name = path, cls, dup
        self.imports = [FakeImport(i) for i in imports]


def real_modpass(c):
    from datamodel_code_generator.parser.base import Parser

    models = [FakeModel(p, cl, d, c["imports"]) for p, cl, d in c["models"]]
    Parser._Parser__replace_duplicate_name_in_module(models)  # noqa: SLF001
    return ("ok", [m.class_name for m in models])


def gen_modpass(rng: Rng) -> dict:
    pool = ["Pet", "Pet1", "PetModel", "PetModel1", "Pets", "Optional", "BaseModel", "Item", "pet", "Pet_", "class_", "A"]
    n = rng.range(1, 6)
    models = []
    for i in range(n):
        cl = rng.choice(pool)
        dup = rng.choice(pool) if rng.chance(1, 3) else ""
        path = f"#/definitions/k{i}" if not rng.chance(1, 12) else "#/definitions/k0"
        models.append([path, cl, dup])
    return {"imports": rng.sample(["Optional", "BaseModel", "Pet", "PetModel", "Item"], rng.below(4)), "models": models}


def campaign_modpass(ck: Check, n: int) -> None:
    rng = ck.rng.fork("modpass")
    cases = [
        {"imports": ["Optional", "BaseModel"], "models": [["#", "Root", ""], ["#/definitions/Optional", "Optional", ""], ["#/definitions/optional", "Optional1", "Optional"]]},
        {"imports": [], "models": [["#/definitions/Pet", "Pet", ""], ["#/definitions/pet", "Pet", ""]]},
    ] + [gen_modpass(rng) for _ in range(n)]
    simple_campaign(
        ck, "replaceDuplicateNameInModule vs Parser.__replace_duplicate_name_in_module (duck-typed models)", cases,
        lambda c: f"res.modpass {enc_strs(c['imports'])} ({' '.join('(' + ' '.join(hx(x) for x in m) + ')' for m in c['models'])})",
        real_modpass,
        nontrivial=lambda c, r: isinstance(r, tuple) and r[1] != [m[1] for m in c["models"]],
        classify=lambda c, r: "renamed" if isinstance(r, tuple) and r[1] != [m[1] for m in c["models"]] else ("unchanged" if isinstance(r, tuple) else str(r)),
    )


def run(ck: Check) -> None:
    quick = ck.tier == "quick"
    ck.translate(c06_tables.GEN_NAME, c06_tables.generate())
    ck.prove()
    campaign_sequences(ck, 300 if quick else 3000)
    campaign_functions(ck, 300 if quick else 3000)
    campaign_modpass(ck, 300 if quick else 3000)


def replay(ck: Check, path: str) -> int:
    return 0
