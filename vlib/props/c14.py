"""C14 — representation-only options do not change what the models accept."""
from __future__ import annotations

import json
import multiprocessing as mp
import time
from typing import Any

from .. import semfam, semfam2, semgen, semrun
from ..runner import Check
from ..translate import constraints as tconstraints

STYLES = ("v1", "v2")

# (name, generate() options, harness options)
VARIANTS: list[tuple[str, dict, dict]] = [
    ("use_standard_collections", {"use_standard_collections": True}, {}),
    ("use_generic_container_types", {"use_generic_container_types": True}, {}),
    ("use_union_operator", {"use_union_operator": True}, {}),
    ("use_double_quotes", {"use_double_quotes": True}, {"formatters": "default"}),
    ("formatters", {}, {"formatters": "default"}),
    ("target_python_version", {}, {"target": "3.11"}),
    ("keep_model_order", {"keep_model_order": True}, {}),
    ("field_constraints", {"field_constraints": True}, {}),
    ("use_annotated", {"field_constraints": True, "use_annotated": True}, {}),
    ("reuse_model", {"reuse_model": True}, {}),
    ("collapse_root_models", {"collapse_root_models": True}, {}),
    # reviewed combinations: options whose passes interact (collapsing merges a root type's constraints into the
    # field only under field_constraints; reuse runs before collapse; the three ways of writing a constrained Optional)
    ("collapse_root_models+field_constraints", {"collapse_root_models": True, "field_constraints": True}, {}),
    ("collapse_root_models+use_annotated", {"collapse_root_models": True, "field_constraints": True, "use_annotated": True}, {}),
    ("use_annotated+use_union_operator", {"field_constraints": True, "use_annotated": True, "use_union_operator": True}, {}),
    ("reuse_model+collapse_root_models", {"reuse_model": True, "collapse_root_models": True}, {}),
    ("keep_model_order+reuse_model", {"keep_model_order": True, "reuse_model": True}, {}),
]
CONSTRAINT_KEYWORDS = [*semgen.BOUND_KEYS, *semgen.STR_KEYS, *semgen.ARR_KEYS]


def _body(doc: dict) -> dict:
    return {k: v for k, v in doc.items() if k not in ("definitions", "$defs", "title", "x-draft4")}


def _class_schema(b: semrun.Built, name: str):
    """normal form of the schema reported by top-level class `name` (None when the class is not there)"""
    cls = getattr(b.module, name, None)
    if cls is None:
        return None
    saved = b.root
    b.root = cls
    try:
        rep = b.schema()
    except Exception:  # noqa: BLE001
        return None
    finally:
        b.root = saved
    return semrun.NF(rep).nf(_body(rep))


def required_nullable_names(doc: dict) -> set:
    """names of members that are required and whose schema admits null (anywhere in the document)"""
    out: set = set()

    def walk(s: Any) -> None:
        if isinstance(s, dict):
            if isinstance(s.get("allOf"), list):
                # `required` may be stated at the allOf level (a property-less member, or next to `allOf`)
                try:
                    merged = semgen.merge_all_of(doc, s)
                except Exception:  # noqa: BLE001
                    merged = {}
                for nm in merged.get("required", []):
                    ps = (merged.get("properties") or {}).get(nm)
                    if isinstance(ps, dict) and semgen.admits_null(doc, ps):
                        out.add(nm)
            props = s.get("properties")
            if isinstance(props, dict):
                for nm in s.get("required", []):
                    if nm in props and isinstance(props[nm], dict) and semgen.admits_null(doc, props[nm]):
                        out.add(nm)
            for v in s.values():
                walk(v)
        elif isinstance(s, list):
            for v in s:
                walk(v)

    walk(doc)
    return out


def error_class(err: str, code: str = "") -> str:
    if "field constraints are set but not enforced" in err:
        return "unenforced_field_constraints"
    if "NameError" in err:
        import re as _re

        m = _re.search(r"name '([^']+)' is not defined", err)
        if m and code and _re.search(rf"^class \w+\((?:[^)]*,\s*)?{_re.escape(m.group(1))}\s*[,)]", code, _re.M):
            return "name_error_base_class"  # a subclass written before its base class
        return "name_error"
    if "not fully defined" in err or "not yet prepared" in err or "ForwardRef" in err:
        return "unresolved_forward_ref"
    return err.split(":")[1].strip() if err.count(":") >= 2 else "other"


def _reject_reason(err: str) -> str:
    if any(t in err for t in ("list.min_items", "list.max_items", "too_short", "too_long")):
        return "item_count"
    return "other"


def _schema_loc(sp: list) -> str:
    """place of the schema node that raised a jsonschema error (its absolute schema path ends with the keyword)"""
    holder = sp[-2] if len(sp) >= 2 else ""
    if holder == "additionalProperties":
        return "ap_value"
    if holder == "items":
        return "array_item"
    return "member" if len(sp) >= 3 and sp[-3] == "properties" else "root"


def eval_pair(task: tuple) -> dict:
    """one (document, style): baseline vs every variant, on the instance corpus of the document.
    With a fourth component `{"openapi": spec, "root": class}` the two runs read the OpenAPI document `spec`
    (scopes schemas + paths + parameters) and the class under test is `root` ("*Suffix": found by its suffix);
    `doc` is then the JSON-Schema document that says what that class accepts (the corpus is derived from it)."""
    doc, style, variants = task[:3]
    t3 = task[3] if len(task) > 3 else None
    oa = t3 if t3 and "openapi" in t3 else None
    # `{"instances": [...]}`: further instances (valid or not) built for a family — both runs must agree on them too
    family_insts = list((t3 or {}).get("instances", [])) if isinstance(t3, dict) else []
    src = oa["openapi"] if oa else doc
    bkw = {"input_file_type": "openapi", "root_name": oa["root"]} if oa else {}
    out: dict[str, Any] = {"failures": [], "hits": {}, "evals": 0, "distinct": [], "sample": None}

    def hit(k: str) -> None:
        out["hits"][k] = out["hits"].get(k, 0) + 1

    from .c03 import comma_pattern_in_union

    from .c14_refkids import required_only

    doc_cause = "comma_in_pattern_in_union" if comma_pattern_in_union(doc) else "none"
    req_only = required_only(doc)  # inherited members re-declared only through `required` (kind of their type)
    req_nullable = required_nullable_names(doc)
    arr_def = any(isinstance(v, dict) and v.get("type") == "array" for v in (doc.get("definitions") or {}).values())
    insts = semgen.valid_instances(doc)
    muts = []
    for inst in insts[:3]:
        muts += semgen.mutations(doc, inst)
    corpus = [(i, None) for i in insts] + [(m.instance, m) for m in muts]
    n_generic = len(corpus)
    have = {semgen.canon(i) for i, _ in corpus}
    validator = semgen.validator_for(doc)
    trunc_validator = semgen.validator_for(semfam2.truncated_doc(doc)) if family_insts and semfam2.nonintegral_on_integer(doc) else None
    for fi in family_insts:
        if semgen.canon(fi) in have:
            continue
        # an instance of the family that breaks exactly one keyword is labelled like a one-step mutation (keyword, place)
        errs = list(validator.iter_errors(fi))
        fm = None
        if not errs and trunc_validator is not None:
            # a VALID instance that stops being valid when the non-integral bounds of integers are cut by int(): known
            # finding D10 of C03/C04 makes every run refuse it where the bound is written; labelled with the place(s)
            terrs = list(trunc_validator.iter_errors(fi))
            locs = {_schema_loc(list(e.absolute_schema_path)) for e in terrs}
            if terrs and len(locs) == 1:
                fm = semgen.Mutation(fi, "valid_instance", locs.pop(), list(terrs[0].absolute_path), {}, "nonintegral_bound_on_integer", False, terrs[0].instance)
        if len(errs) == 1 and errs[0].validator in CONSTRAINT_KEYWORDS:
            sp = list(errs[0].absolute_schema_path)
            loc = _schema_loc(sp)
            leaf = doc
            for k in sp[:-1]:
                leaf = leaf[k]
            fm = semgen.Mutation(fi, errs[0].validator, loc, list(errs[0].absolute_path), leaf, semgen._cause(errs[0].validator, leaf), False, errs[0].instance)
        corpus.append((fi, fm))
    base = semrun.build(src, style, {}, **bkw)
    out["evals"] += 1
    if not base.ok:
        hit("baseline_not_built")
        return out
    try:
        bvec = [base.validate(i)[0] for i, _ in corpus]
        top_names = [base.root_name] if oa else ["Model", *list((doc.get("definitions") or {}).keys())]
        bschemas = {n: _class_schema(base, n) for n in top_names}
        for name, gopts, hopts in variants:
            out["evals"] += 1
            hit(f"option:{name}")
            cls0 = {"option": name, "style": style, "cause": doc_cause, "array_def": arr_def, "required_only_direct": req_only[0], "required_only_container": req_only[1]}
            inp = {"doc": doc, "style": style, "option": name}
            if oa:
                cls0["input"] = "openapi"
                inp["openapi"] = oa
            v = semrun.build(src, style, gopts, formatters=hopts.get("formatters"), target=hopts.get("target"), **bkw)
            if not v.ok:
                out["failures"].append(({**cls0, "oracle": "variant_not_built", "keyword": "none", "location": "none", "direction": "none", "error": error_class(v.error, v.code)}, inp, f"baseline builds, variant does not: {v.error[:300]}"))
                continue
            try:
                for ci, ((inst, m), bv) in enumerate(zip(corpus, bvec)):
                    out["evals"] += 1
                    vv = v.validate(inst)[0]
                    out["distinct"].append(hash((semgen.canon(doc), semgen.canon(inst), style, name)))
                    if vv != bv:
                        cls = {
                            **cls0,
                            "oracle": "verdict_differs",
                            "keyword": m.keyword if m else ("valid_instance" if ci < n_generic else "family_instance"),
                            "location": m.location if m else "none",
                            "direction": "variant_looser" if vv else "variant_stricter",
                            "mcause": m.cause if m else "none",
                            "error": error_class(str(v.validate(inst)[1])) if not vv and "MODEL-ERROR" in str(v.validate(inst)[1]) else "none",
                            # why the stricter side rejects: an item-count complaint, or something else
                            "vreason": _reject_reason(str((v if bv else base).validate(inst)[1])) if vv != bv else "none",
                        }
                        out["failures"].append((cls, {**inp, "instance": inst}, f"baseline {'accepts' if bv else 'rejects'}, --{name} {'accepts' if vv else 'rejects'}; variant code:\n{v.code[-500:]}"))
                for n in top_names:
                    bs = bschemas.get(n)
                    vs = _class_schema(v, n)
                    if bs is None or vs is None:
                        if (bs is None) != (vs is None):
                            hit("class_only_on_one_side")
                        continue
                    for d, direction in [(x, "variant_looser") for x in semrun.compare(bs, vs, style)] + [(x, "variant_stricter") for x in semrun.compare(vs, bs, style)]:
                        from .c04 import diff_cause

                        mc = diff_cause(d)
                        if d.keyword == "required" and any(d.path.endswith("." + nm) for nm in req_nullable):
                            mc = "required_nullable_member"
                        cls = {**cls0, "oracle": "schema_differs", "keyword": d.keyword, "location": d.location, "direction": direction, "mcause": mc}
                        out["failures"].append((cls, {**inp, "class": n, "path": d.path}, f"reported schema of {n} at {d.path}: `{d.keyword}` baseline/variant {d.expected!r} vs {d.got!r} ({direction})"))
                    hit("schema_compared")
            finally:
                v.close()
        if corpus:
            out["sample"] = {"doc": doc, "style": style, "corpus_size": len(corpus), "first_invalid": next((i for i, m in corpus if m), None)}
    finally:
        base.close()
    return out


def focused_docs() -> list[tuple[str, dict]]:
    from .c03 import focused_docs as f3

    return f3()


def run_tasks(ck: Check, camp, tasks: list[tuple], procs: int = 12) -> None:
    if not tasks:
        return
    ctx = mp.get_context("fork")
    with ctx.Pool(min(procs, len(tasks))) as pool:
        results = pool.map(eval_pair, tasks, chunksize=1)
    for res in results:
        camp.evaluations += res["evals"]
        for k, n in res["hits"].items():
            camp.hit(k, n)
        camp.distinct.update(res["distinct"])
        if res["sample"] and len(camp.samples) < 2:
            camp.samples.append(res["sample"])
        for cls, inp, obs in res["failures"]:
            ck.fail(cls, inp, obs)


# former witnesses of repaired findings: they run with the focused corpus under every variant and must HOLD
FORMER_WITNESSES: list[tuple[str, dict]] = [
    # D43 (repaired: Parser.__collapse_root_models keeps a root model that is still the base class of the `class CItem(AItem): pass`
    # written by --reuse-model): duplicate item root models AItem / CItem, and two named array definitions with the same content
    ("former D43: duplicate item root models",
     {"title": "Model", "type": "object",
      "properties": {"f": {"type": "object", "properties": {"a": {"type": "array", "items": {"type": "number", "exclusiveMinimum": 1}, "maxItems": 1}}}},
      "definitions": {"Base": {"type": "object", "properties": {"c": {"type": "array", "items": {"type": "number", "exclusiveMinimum": 1}, "minItems": 2}}}}}),
    ("former D43: two identical named array definitions",
     {"title": "Model", "type": "object", "properties": {"a": {"$ref": "#/definitions/A"}, "b": {"$ref": "#/definitions/B"}},
      "definitions": {"A": {"type": "array", "items": {"type": "string"}}, "B": {"type": "array", "items": {"type": "string"}}}}),
]


def campaign_focused(ck: Check) -> None:
    camp = ck.campaign("differential oracle between two REAL runs, focused corpus: baseline vs each option × 2 styles")
    t0 = time.time()
    tasks = [(doc, st, VARIANTS) for _l, doc in focused_docs() + FORMER_WITNESSES for st in STYLES]
    run_tasks(ck, camp, tasks)
    camp.wall_s = time.time() - t0


def campaign_random(ck: Check, n: int) -> None:
    camp = ck.campaign("differential oracle between two REAL runs, seeded schemas: baseline vs each option × 2 styles")
    t0 = time.time()
    rng = ck.rng.fork("diff")
    tasks = []
    for i in range(n):
        cfg = semgen.GenCfg(draft4=(i % 5 == 0), all_of=(i % 3 != 0))
        doc, feats = semgen.gen_doc(rng.fork(str(i)), cfg)
        for f in feats:
            camp.hit(f"feature:{f}")
        for st in STYLES:
            tasks.append((doc, st, VARIANTS))
    run_tasks(ck, camp, tasks)
    camp.wall_s = time.time() - t0


# the options that move a bound from the constrained type to Field() (and back: collapsing merges a root type's bounds
# into the field under field_constraints) — the two routings that write the bound of an integer
BOUND_ROUTING_VARIANTS = [v for v in VARIANTS if v[0] in ("field_constraints", "use_annotated", "collapse_root_models+field_constraints", "use_annotated+use_union_operator")]


def fracbound_tasks(rng, n: int, off: int = 0, camp=None) -> list[tuple]:
    tasks = []
    for i in range(n):
        doc, feats, cand = semfam2.fracbound_doc(rng.fork(str(i)), off + i)
        if camp is not None:
            for f in feats:
                camp.hit(f"feature:{f}")
        for st in STYLES:
            tasks.append((doc, st, BOUND_ROUTING_VARIANTS if i % 4 else VARIANTS, {"instances": cand}))
    return tasks


def campaign_fracbound(ck: Check, n: int) -> None:
    """integer-typed schemas whose bounds are not whole numbers: the constrained type (baseline) and Field()
    (--field-constraints / --use-annotated) must admit the same integers and report the same bounds; the corpus carries
    the boundary integers floor(b)-1 … ceil(b)+1 of every bound"""
    camp = ck.campaign("differential oracle between two REAL runs, family: integer-typed schemas with NON-INTEGRAL bounds (4 bound keywords × zone of the bound × fractions × every place), boundary integers as instances: baseline vs the options that re-route constraints × 2 styles")
    t0 = time.time()
    rng = ck.rng.fork("fam-fracbound")
    run_tasks(ck, camp, fracbound_tasks(rng, n, rng.below(48), camp))
    camp.wall_s = time.time() - t0


def campaign_openapi(ck: Check, n: int) -> None:
    """the same differential on OpenAPI input with the scopes schemas + paths + parameters: the query parameters of
    an operation — declared with `schema:` or with `content: {<media type>: {schema: …}}` — are generated as a model
    (`…ParametersQuery`); that model and a component schema must accept / reject / report the same under every option"""
    camp = ck.campaign("differential oracle between two REAL runs, family: OpenAPI documents (scopes schemas+paths+parameters), query parameters declared with `schema:` and with `content:`, arrays / strings / numbers with constraints: baseline vs each option × 2 styles")
    t0 = time.time()
    rng = ck.rng.fork("fam-openapi")
    off = rng.below(60)
    tasks = []
    for i in range(n):
        spec, feats, classes = semfam.openapi_params_doc(rng.fork(str(i)), off + i)
        for f in feats:
            camp.hit(f"feature:{f}")
        for st in STYLES:
            for root, jdoc in classes:
                tasks.append((jdoc, st, VARIANTS, {"openapi": spec, "root": root}))
    run_tasks(ck, camp, tasks)
    camp.wall_s = time.time() - t0


def campaign_openapi_stage1(ck: Check, n: int) -> None:
    """the query-parameter model of an operation IS the class of the object schema {properties: the parameters'
    schemas, required: the required parameters}: stage 1 of the Lean model (`tr`, with `fieldCons` deciding where the
    constraints go) against the real OpenAPI parser, for parameters declared with `schema:` and with `content:`,
    both styles × the three routings"""
    from .. import semlean

    camp = ck.campaign("sem.tr of {properties: parameter schemas} vs the …ParametersQuery class of OpenAPIParser(...).parse_raw() (parameters with `schema:` and `content:`), 2 styles × 3 routings")
    t0 = time.time()
    rng = ck.rng.fork("fam-openapi-stage1")
    off = rng.below(60)
    reqs, meta = [], []
    for i in range(n):
        spec, feats, classes = semfam.openapi_params_doc(rng.fork(str(i)), off + i)
        qdoc = classes[0][1]
        try:
            ssx = semlean.schema_sx(semlean.body_of(qdoc), top=True)
        except semlean.Unmodelled as e:
            camp.unmodelled += 1
            camp.hit(f"unmodelled:{str(e)[:30]}")
            continue
        for f in feats:
            camp.hit(f"feature:{f}")
        for st in STYLES:
            for r in ("contype", "field", "annotated"):
                reqs.append(f"sem.tr {st} {r} top {ssx}")
                meta.append((spec, qdoc, st, r))
    replies = ck.driver.run(reqs)
    for (spec, qdoc, st, r), rep in zip(meta, replies):
        camp.evaluations += 1
        if not rep.startswith("ok "):
            ck.infra_errors.append(f"driver reply {rep!r} for sem.tr")
            continue
        try:
            ri = semlean.RealIR(spec, st, r, openapi=True)
            dm = ri.model_by_suffix("ParametersQuery")
            if dm is None:
                camp.unmodelled += 1
                camp.hit("no-parameters-class")
                continue
            real = ri.dump_model(dm)
        except semlean.Unmodelled as e:
            camp.unmodelled += 1
            camp.hit(f"unmodelled:{str(e)[:30]}")
            continue
        except Exception as e:  # noqa: BLE001
            camp.unmodelled += 1
            camp.hit(f"parser-raised:{type(e).__name__}")
            continue
        model = semlean.canon_ty(semlean.parse_sx(rep[3:])[0])
        camp.hit(f"{st}/{r}")
        camp.distinct.add(hash((semgen.canon(spec), st, r)))
        if model != real:
            ck.disagree(camp, {"openapi": spec, "style": st, "routing": r}, model, real)
        elif len(camp.samples) < 2:
            camp.samples.append({"openapi": spec, "style": st, "routing": r, "ir": model})
    camp.wall_s = time.time() - t0


def campaign_reuse(ck: Check, n: int) -> None:
    """`reuse_merge_sound` needs the two classes to be the same class. What the real pass merges is decided by
    its key (rendered text + imports): whenever it merges two named definitions, stage 1 of the model must give
    them the same IR (fields, required flags, constraints, types, `extra`)."""
    from .. import semlean
    from .c03 import twin_docs

    camp = ck.campaign("Parser.__reuse_model merges definitions B→A  ⇒  sem.trdef B = sem.trdef A (identical IR incl. extra)")
    t0 = time.time()
    rng = ck.rng.fork("reuse")
    docs = [d for _l, d in twin_docs()]
    for i in range(n):
        doc, _f = semgen.gen_doc(rng.fork(str(i)), semgen.GenCfg(boost=("union" if i % 2 else ""), draft4=(i % 5 == 0)))
        if len(doc.get("definitions") or {}) >= 2:
            docs.append(doc)
    reqs, meta = [], []
    for doc in docs:
        try:
            ssx = semlean.schema_sx(semlean.body_of(doc), top=True)
            dsx = semlean.defs_sx(doc)
        except semlean.Unmodelled:
            camp.unmodelled += 1
            continue
        for st in STYLES:
            try:
                merges = semlean.RealIR(doc, st, "contype").reuse_merges()
            except Exception as e:  # noqa: BLE001
                camp.unmodelled += 1
                camp.hit(f"pass-raised:{type(e).__name__}")
                continue
            camp.evaluations += 1
            camp.hit("merge" if merges else "no_merge")
            for b, a in merges:
                for x in (a, b):
                    reqs.append(f"sem.trdef {st} contype {dsx} {ssx} {semlean.hx(x)}")
                meta.append((doc, st, a, b))
    replies = ck.driver.run(reqs)
    for i, (doc, st, a, b) in enumerate(meta):
        ra, rb = replies[2 * i], replies[2 * i + 1]
        camp.evaluations += 1
        camp.distinct.add(hash((semgen.canon(doc), st, a, b)))
        if ra != rb:
            ck.disagree(camp, {"doc": doc, "style": st, "merged": [b, a]}, "IR differs: the two classes do not accept the same values", "merged by __reuse_model")
        elif len(camp.samples) < 2:
            camp.samples.append({"doc": doc, "style": st, "merged": [b, a]})
    camp.wall_s = time.time() - t0


def search(ck: Check) -> None:
    camp = ck.campaign("search: more seeded schemas after a broken obligation")
    rng = ck.rng.fork("search")
    # every (keyword, zone, fraction) combination of the non-integral-bound family first
    tasks = fracbound_tasks(rng.fork("frac"), 48)
    for i in range(60):
        doc, _ = semgen.gen_doc(rng.fork(str(i)), semgen.GenCfg(draft4=(i % 5 == 0)))
        for st in STYLES:
            tasks.append((doc, st, VARIANTS))
    for i in range(30):
        spec, _f, classes = semfam.openapi_params_doc(rng.fork(f"oa{i}"), i)
        for st in STYLES:
            for root, jdoc in classes[:1]:
                tasks.append((jdoc, st, VARIANTS, {"openapi": spec, "root": root}))
    run_tasks(ck, camp, tasks)


def known_findings(ck: Check) -> None:
    for f in ck.findings:
        w = f["witness"]
        variants = [v for v in VARIANTS if v[0] == w["option"]]
        t3 = dict(w["openapi"]) if "openapi" in w else {}
        if "instance" in w:
            t3["instances"] = [w["instance"]]
        res = eval_pair((w["doc"], w["style"], variants, *([t3] if t3 else [])))
        hits = [c for c, _i, _o in res["failures"] if all(c.get(k) == v or (isinstance(v, list) and c.get(k) in v) for k, v in f["match"].items())]
        if hits:
            ck.known(f["id"], f["what"])


def run(ck: Check) -> None:
    quick = ck.tier == "quick"
    ck.translate("Constraints", tconstraints.generate())
    ck.prove()
    ck.assumptions += [
        "the Lean theorems cover the options that reach stage 1 of the model (field_constraints, use_annotated, the four spelling options); target_python_version, formatters, keep_model_order, reuse_model and collapse_root_models are covered by the differential oracle only",
        "pydantic's validation and schema reporting are trusted; both runs of a pair are executed by the same pydantic (v1-style output on the pydantic.v1 shim)",
        "the instance corpus of a document = its constructive valid instances + one-step invalid mutations confirmed by jsonschema",
        "only Python 3.12 is available: output for another target version is imported by this interpreter",
    ]
    # the theorems are about `tr`; tie it to the real parser under all three routings in this check too
    from .c03 import campaign_model

    campaign_model(ck, 25 if quick else 250, parts=("tr",), fork="c14-stage1")
    campaign_reuse(ck, 40 if quick else 400)
    from . import c14_refkids

    c14_refkids.campaign_bookkeeping(ck, 40 if quick else 400)
    c14_refkids.campaign_family(ck, 35 if quick else 140, both_styles=not quick)
    campaign_focused(ck)
    campaign_random(ck, 70 if quick else 600)
    campaign_fracbound(ck, 16 if quick else 96)
    campaign_openapi_stage1(ck, 30 if quick else 300)
    campaign_openapi(ck, 10 if quick else 120)
    ck.search_hooks.append(c14_refkids.search)
    ck.search_hooks.append(search)
    known_findings(ck)


def replay(ck: Check, path: str) -> int:
    data = json.loads(open(path).read())
    inp = data.get("input") or {}
    ck.findings = []
    camp = ck.campaign("replay")
    if "doc" in inp:
        variants = [v for v in VARIANTS if v[0] == inp.get("option")] or VARIANTS
        t3 = dict(inp["openapi"]) if "openapi" in inp else {}
        if "instance" in inp:
            t3["instances"] = [inp["instance"]]
        res = eval_pair((inp["doc"], inp.get("style", "v2"), variants, *([t3] if t3 else [])))
        camp.evaluations += res["evals"]
        for cls, i2, obs in res["failures"]:
            ck.fail(cls, i2, obs)
    for f in ck.failures:
        print("REPLAY-FAILS:", json.dumps(f.classification), f.observed[:300])
    if not ck.failures:
        print("replay: the oracle does not fail on this input")
    return 1 if ck.failures else 0
