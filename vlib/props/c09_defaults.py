"""C09 — defaults that name an enum value (`--set-default-enum-member`), end to end and by family.

The family: documents with one or two enums and several object schemas ("holders") whose members refer
to an enum (by `$ref`, by `allOf: [$ref]`, or with the enum written inline) and carry a default that is
an entry of the enum (a scalar, or a list of entries for `type: array` members). The document comes in
four input kinds:

  single   one JSON-Schema document, one output module
  dotted   one JSON-Schema document whose definition names `shared.Color`, `pk.pal.Order` give modules
  openapi  the same with `components.schemas`
  tree     a directory of JSON-Schema files that refer to each other by relative path (`shared.json#/definitions/Color`)

with the enum used in the module that defines it, in importing modules, in both (same and different
values), several importers, module names that sort before and after the defining module, shuffled
listing orders, string entries over the adversarial alphabet.

Oracle (the property, nothing more): every emitted module imports (written to a package directory and
imported for real); every enum class has exactly the schema's values; every default that is an entry
of its enum IS the enum member with that value (`H().f is Color(value)`; element-wise for lists, none
dropped).

Also here: the correspondence campaign for `Dcg.Model.Enum.runSteps` (sequences of
`Parser.__set_default_enum_member` applications on real `Enum` / `DataType` / field objects).
"""
from __future__ import annotations

import copy
import enum as pyenum
import importlib
import json
import os
import shutil
import sys
import tempfile
import time
import traceback
import types
import warnings
from pathlib import Path
from typing import Any

from .. import e2e
from ..common import Hang, Rng, hx, watchdog
from ..runner import Check
from . import c07
from . import c09 as base
from .c07 import Cfg, yaml_safe_json

Q = "'\""

# ---------------------------------------------------------------- which defaults the documented algorithm resolves


def kept_entries(ty: Any, values: list) -> list:
    """the entries `parse_enum` makes members of (the null split happens only for `type: string`)"""
    if None in values and ty == "string":
        return [v for v in values if v is not None]
    return list(values)


def member_text(v: Any) -> Any:
    """`field.default` of the member made from entry `v`"""
    if isinstance(v, str):
        return "'" + v.translate(str.maketrans(base.enum_table())) + "'"
    return v


def documented_find(ty: Any, values: list, d: Any) -> int | None:
    """Position of the member that `Enum.find_member` AS DOCUMENTED IN KNOWN FINDING D24 returns for `d`:
    first member WITH a value (the member `NoneType_None = None` of D12 is skipped) whose text equals the
    value after stripping surrounding quotes from both, or whose text is `repr(value)`. Computed from the
    input and the escape table only (never from the code under test): it delimits the region of D24, it is
    not an oracle."""
    sd, rd = str(d).strip(Q), repr(d)
    for i, v in enumerate(kept_entries(ty, values)):
        t = member_text(v)
        if t is None:
            continue
        if str(t).strip(Q) == sd or (isinstance(t, str) and t == rd):
            return i
    return None


def default_trigger(ty: Any, values: list, d: Any) -> str:
    """class of a default (an entry of the enum) w.r.t. the known defects of the default → member step
    (falsy defaults 0 / "" / false are no class of their own any more: D25 is repaired, they must resolve)"""
    non_null = [v for v in values if v is not None]
    if base.py_equal_groups(non_null):
        return "py_equal_values"  # D12
    if None in values and ty == "string":
        # the member refers to the wrapper `E = Optional[EEnum]` (a root model in pydantic output). D27: dataclass output never
        # resolves the default. Pydantic output validates every default that is not None through the root model
        # (`Field(default_factory=lambda: E.parse_obj(d))`, `elif self.default is not None and …` in model/pydantic/base_model.py
        # DataModelField.__str__) and must hold — also for the falsy default "" (C09-F3, repaired: the guard was `self.default and …`;
        # falsy defaults are no class of their own any more)
        return "nullable_wrapper"
    pos = documented_find(ty, values, d)
    if pos is None:
        return "find_escaped_not_repr"  # D24: neither comparison matches the entry itself
    if base.typed(kept_entries(ty, values)[pos]) != base.typed(d):
        return "find_strip_matches_other_entry"  # D24: an earlier entry has the same text after stripping quotes
    return "none"


# ---------------------------------------------------------------- the family
ENUM_NAMES = ["Color", "Size", "Mode"]
HOLDER_NAMES = ["Palette", "Widget", "Order", "Deep", "Zed", "Item", "Basket", "Node"]
FLAT = [("shared",), ("app",), ("orders",), ("zzz",), ("base",), ("m1",)]
NESTED = [("pk", "pal"), ("pk", "sub"), ("lib", "core")]
WORDS = ["red", "green", "blue", "a b", "x-y", "Up", "down", "mro", "class", "é", "1", "None"]
ESCAPED = ["a\\b", "C:\\temp", "x\ny", "\r\n", "a\tb", "\\", "\\\\", "\\n", "\n", "\t", "a\x00b", "a\bb", "\f", "it's", 'say "x"',
           "'q'", "a'", "\\'", "tab\there\\", "日本\\"]
MODELS = ["pydantic_v2.BaseModel", "pydantic.BaseModel", "dataclasses.dataclass"]
OPTS = [{}, {}, {}, {"capitalise_enum_members": True}, {"use_subclass_enum": True}, {"use_exact_imports": True},
        {"use_standard_collections": True}, {"snake_case_field": True}]
KINDS = ["single", "tree", "tree", "dotted", "openapi"]


def gen_values(rng: Rng) -> tuple[Any, list]:
    shape = rng.below(10)
    n = rng.range(2, 4)
    if shape < 7:
        vals: list = []
        while len(vals) < n:
            p = rng.below(10)
            v = rng.choice(WORDS) if p < 4 else rng.choice(ESCAPED) if p < 8 else base.gen_string(rng)
            if v not in vals:
                vals.append(v)
        return "string", vals
    if shape < 9:
        return "integer", rng.sample([0, 1, 2, 3, -1, 10], n)
    return None, rng.sample([1, "1", "a", 2, "x", "b\\"], n)


def gen_dcase(rng: Rng, kind: str | None = None) -> dict:
    kind = kind or rng.choice(KINDS)
    modular = kind != "single"
    mods = rng.sample(FLAT, rng.range(2, 4)) + (rng.sample(NESTED, rng.range(0, 2)) if rng.chance(1, 2) else [])
    mods = rng.shuffle(mods)
    enums: dict[str, dict] = {}
    for name in ENUM_NAMES[: 1 if rng.chance(2, 3) else 2]:
        ty, vals = gen_values(rng)
        enums[name] = {"module": list(mods[0] if rng.chance(2, 3) else rng.choice(mods)) if modular else [], "type": ty, "values": vals,
                       "hot": rng.choice(vals)}
    # modules that define an enum import each other in one direction only (the defaults are evaluated when a module is
    # imported: two modules that need each other's enum for a default cannot both be imported, whatever the generator writes)
    rank = {tuple(e["module"]): i for i, e in reversed(list(enumerate(enums.values())))}
    holders: list[dict] = []
    names = rng.shuffle(HOLDER_NAMES)
    # where defaults live: the defining module, importing modules, or both
    where = rng.choice(["both", "both", "both", "definer", "importers"])
    names_carry_module = kind in ("dotted", "openapi")
    if names_carry_module and rng.chance(2, 3):
        where = "importers"  # known finding C09-F1 stops the import of every defining module that has a default: look past it
    for ename, e in enums.items():
        host_mods: list[list] = []
        if where in ("both", "definer"):
            host_mods.append(e["module"])
        if where in ("both", "importers") and modular:
            others = [list(m) for m in mods if list(m) != e["module"] and rank.get(m, 99) > rank[tuple(e["module"])]]
            host_mods += rng.sample(others, rng.range(1, min(3, len(others)))) if others else []
        if not host_mods:
            host_mods = [e["module"]]
        for m in host_mods:
            if not names:
                break
            fields = []
            for i in range(rng.range(1, 3)):
                en = ename if rng.chance(4, 5) else rng.choice(list(enums))
                if tuple(m) in rank and rank.get(tuple(enums[en]["module"]), 0) > rank[tuple(m)]:
                    en = ename
                ee = enums[en]
                shape = "list" if rng.chance(1, 3) else "scalar"
                wrap = rng.choice(["ref", "ref", "allOf", "inline"]) if shape == "scalar" else rng.choice(["ref", "ref", "inline"])
                if names_carry_module and wrap == "inline" and where == "importers":
                    wrap = "ref"

                def pick() -> Any:
                    p = rng.below(12)
                    if p < 6:
                        return ee["hot"]
                    if p < 11:
                        return rng.choice(ee["values"])
                    return "zz" if ee["type"] != "integer" else 77  # not an entry: the property says nothing

                d: Any = [pick() for _ in range(rng.range(1, 3))] if shape == "list" else pick()
                fields.append({"name": f"f{len(fields)}", "enum": en, "shape": shape, "wrap": wrap, "default": d})
            holders.append({"module": m, "name": names.pop(), "fields": fields})
    order = rng.shuffle([*enums, *[h["name"] for h in holders]])
    opts = rng.choice(OPTS)
    if names_carry_module and opts.get("use_exact_imports") and rng.chance(2, 3):
        opts = {}
    return {"dkind": kind, "model": rng.choice(MODELS), "opts": {"set_default_enum_member": True, **opts},
            "enums": {k: {kk: vv for kk, vv in v.items() if kk != "hot"} for k, v in enums.items()}, "holders": holders, "order": order}


# ---------------------------------------------------------------- documents
def enum_schema(e: dict) -> dict:
    s: dict[str, Any] = {"enum": e["values"]}
    if e["type"] is not None:
        s["type"] = e["type"]
    return s


def member_schema(dc: dict, f: dict, ref: str) -> dict:
    e = dc["enums"][f["enum"]]
    target = enum_schema(e) if f["wrap"] == "inline" else {"allOf": [{"$ref": ref}]} if f["wrap"] == "allOf" else {"$ref": ref}
    if f["shape"] == "list":
        return {"type": "array", "items": target, "default": f["default"]}
    return {**target, "default": f["default"]}


def holder_schema(dc: dict, h: dict, ref_of) -> dict:
    return {"type": "object", "properties": {f["name"]: member_schema(dc, f, ref_of(h, f["enum"])) for f in h["fields"]}}


def build_single_doc(dc: dict) -> tuple[str, dict]:
    """single / dotted / openapi: one document"""
    dotted = dc["dkind"] != "single"
    prefix = "#/components/schemas/" if dc["dkind"] == "openapi" else "#/definitions/"

    def key(module: list, name: str) -> str:
        return ".".join([*module, name]) if dotted else name

    defs: dict[str, Any] = {}
    for name in dc["order"]:
        if name in dc["enums"]:
            defs[key(dc["enums"][name]["module"], name)] = enum_schema(dc["enums"][name])
        else:
            h = next(x for x in dc["holders"] if x["name"] == name)
            defs[key(h["module"], name)] = holder_schema(dc, h, lambda _h, en: prefix + key(dc["enums"][en]["module"], en))
    if dc["dkind"] == "openapi":
        return "openapi", {"openapi": "3.0.0", "info": {"title": "t", "version": "1"}, "paths": {}, "components": {"schemas": defs}}
    return "jsonschema", {"title": "Root", "type": "object", "definitions": defs}


def build_tree(dc: dict) -> dict[str, dict]:
    """tree: one file per module; the first holder of the module (listing order) is the file's root schema,
    an enum is the root of a file that has no holder"""
    by_mod: dict[tuple, list[str]] = {}
    for name in dc["order"]:
        m = dc["enums"][name]["module"] if name in dc["enums"] else next(x for x in dc["holders"] if x["name"] == name)["module"]
        by_mod.setdefault(tuple(m), []).append(name)
    root_of = {}
    for m, names in by_mod.items():
        hs = [n for n in names if n not in dc["enums"]]
        root_of[m] = hs[0] if hs else names[0]

    def ref_of(h: dict, en: str) -> str:
        em = tuple(dc["enums"][en]["module"])
        frag = "" if root_of[em] == en else f"#/definitions/{en}"
        if em == tuple(h["module"]):
            return frag or "#"
        here = "/".join(h["module"][:-1])
        return os.path.relpath("/".join(em) + ".json", here or ".") + frag

    files: dict[str, dict] = {}
    for m, names in by_mod.items():
        defs = {}
        root: dict = {}
        for n in names:
            s = enum_schema(dc["enums"][n]) if n in dc["enums"] else holder_schema(dc, next(x for x in dc["holders"] if x["name"] == n), ref_of)
            if n == root_of[m]:
                root = {"title": n, **s}
            else:
                defs[n] = s
        if defs:
            root["definitions"] = defs
        files["/".join(m) + ".json"] = root
    return files


def observe(dc: dict) -> e2e.Result:
    opts = dict(dc["opts"])
    if dc["dkind"] != "tree":
        ift, doc = build_single_doc(dc)
        return e2e.run_generate(yaml_safe_json(doc), input_file_type=ift, model=dc["model"], opts=opts, timeout=15.0, modular=dc["dkind"] != "single")
    import datamodel_code_generator as d

    work = Path(tempfile.mkdtemp(dir=e2e.scratch_root()))
    inp = work / "in"
    for rel, obj in build_tree(dc).items():
        p = inp / rel
        p.parent.mkdir(parents=True, exist_ok=True)
        p.write_text(yaml_safe_json(obj), encoding="utf-8")
    out = work / "pkg"
    res = e2e.Result(ok=False)
    cwd = os.getcwd()
    try:
        with watchdog(15.0), warnings.catch_warnings():
            warnings.simplefilter("ignore")
            d.generate(inp, input_file_type=d.InputFileType.JsonSchema, output=out, output_model_type=d.DataModelType(dc["model"]),
                       formatters=[], disable_timestamp=True, **opts)
        res.ok = True
    except Hang as e:
        res.hang, res.error_type, res.error_msg = True, "Hang", str(e)
    except BaseException as e:  # noqa: BLE001
        if isinstance(e, (KeyboardInterrupt, SystemExit)):
            raise
        res.error_type, res.error_msg = type(e).__name__, str(e)[:300]
    finally:
        if os.getcwd() != cwd:
            os.chdir(cwd)
    if out.is_dir():
        for p in sorted(out.rglob("*")):
            if p.is_file():
                res.files[str(p.relative_to(out))] = p.read_text(encoding="utf-8", errors="surrogateescape")
    shutil.rmtree(work, ignore_errors=True)
    return res


# ---------------------------------------------------------------- importing a generated package for real
_pkg_counter = 0


class Package:
    """the emitted files written to a scratch directory and imported in-process as `<unique>.<module>`"""

    def __init__(self, files: dict[str, str], model: str) -> None:
        global _pkg_counter
        _pkg_counter += 1
        self.name = f"dcgverif_c09pkg_{os.getpid()}_{_pkg_counter}"
        self.root = Path(tempfile.mkdtemp(dir=e2e.scratch_root()))
        self.single = set(files) == {"out.py"}
        for rel, text in files.items():
            if not rel.endswith(".py"):
                continue
            if model == "pydantic.BaseModel":
                text = text.replace("from pydantic import", "from pydantic.v1 import")
            p = self.root / self.name / ("__init__.py" if self.single else rel)
            p.parent.mkdir(parents=True, exist_ok=True)
            p.write_text(text, encoding="utf-8")
        self.files = files
        sys.path.insert(0, str(self.root))
        importlib.invalidate_caches()

    def file_of(self, module: list) -> str | None:
        if self.single:
            return "out.py"
        for cand in ("/".join(module) + ".py", "/".join([*module, "__init__.py"])):
            if cand in self.files:
                return cand
        return None

    def load(self, module: list):
        """module object, or (exception, file whose code raised)"""
        name = ".".join([self.name, *([] if self.single else module)])
        try:
            with warnings.catch_warnings():
                warnings.simplefilter("ignore")
                return importlib.import_module(name)
        except BaseException as e:  # noqa: BLE001
            if isinstance(e, (KeyboardInterrupt, SystemExit)):
                raise
            culprit = None
            for fr, _ in traceback.walk_tb(e.__traceback__):
                fn = fr.f_code.co_filename
                if fn.startswith(str(self.root)):
                    culprit = os.path.relpath(fn, self.root / self.name)
            return (e, culprit)  # importlib has removed the failed module; modules that did import stay (class identity)

    def close(self) -> None:
        for k in [k for k in sys.modules if k == self.name or k.startswith(self.name + ".")]:
            del sys.modules[k]
        if str(self.root) in sys.path:
            sys.path.remove(str(self.root))
        sys.path_importer_cache.pop(str(self.root), None)
        shutil.rmtree(self.root, ignore_errors=True)


# ---------------------------------------------------------------- the oracle on one document
def checked_default(dc: dict, f: dict) -> bool:
    """is every (element of the) default an entry of the enum — does the property speak about it?"""
    vals = [base.typed(v) for v in dc["enums"][f["enum"]]["values"] if v is not None]
    ds = f["default"] if f["shape"] == "list" else [f["default"]]
    return bool(ds) and all(base.typed(d) in vals for d in ds)


def import_trigger(dc: dict, culprit_module: list | None) -> str:
    """Known defect C09-F1: in a document whose definition NAMES carry the module (`shared.Color`), `Member.__repr__` writes
    the dotted definition name (`shared.Color.red`) wherever the field's data type has no import alias: in the module that
    defines the enum (it binds `Color`), and with --use-exact-imports in importing modules (`from .shared import Color`)."""
    if dc["dkind"] in ("dotted", "openapi") and culprit_module:
        for h in dc["holders"]:
            if h["module"] != culprit_module:
                continue
            for f in h["fields"]:
                e = dc["enums"][f["enum"]]
                ds = f["default"] if f["shape"] == "list" else [f["default"]]
                if f["default"] is None or all(documented_find(e["type"], e["values"], d) is None for d in ds):
                    continue  # no member is written for this field (missing default, `[]`, nothing found)
                if f["wrap"] == "inline" or e["module"] == culprit_module:
                    return "dotted_name_defining_module"
                if dc["opts"].get("use_exact_imports") and e["module"]:
                    return "dotted_name_exact_import"
    return "none"


def module_of_file(rel: str | None) -> list | None:
    if rel is None:
        return None
    parts = rel[: -len(".py")].split("/")
    return parts[:-1] if parts[-1] == "__init__" else parts


def check_dcase(ck: Check, camp, dc: dict) -> None:
    camp.evaluations += 1
    kind = dc["dkind"]
    camp.hit("input:" + kind)
    camp.hit("kind:" + dc["model"])
    for k in dc["opts"]:
        if k != "set_default_enum_member":
            camp.hit("opt:" + k)
    cls0 = {"oracle": "e2e_enum", "kind": dc["model"], "input_kind": kind}
    res = observe(dc)
    if res.hang:
        ck.fail({**cls0, "mechanism": "hang", "trigger": "none"}, dc, "generate() did not return within 15 s")
        return
    if not res.ok:
        if res.error_type in ("ScannerError", "ReaderError", "ParserError", "ConstructorError"):
            camp.hit("reported_error:yaml")
        else:
            ck.fail({**cls0, "mechanism": "generate_error", "trigger": "none"}, dc, f"generate() raised {res.error_type}: {res.error_msg}")
        return
    files = {k: v for k, v in res.files.items() if k.endswith(".py")}
    for rel, text in files.items():
        err = e2e.parses(text)
        if err:
            ck.fail({**cls0, "mechanism": "unparsable", "trigger": "none"}, dc, f"{rel} does not parse: {err}")
            return
    camp.distinct.add(json.dumps(dc, sort_keys=True, default=str))
    pkg = Package(files, dc["model"])
    try:
        loaded: dict[tuple, Any] = {}
        reported: set = set()
        all_mods = sorted({tuple(e["module"]) for e in dc["enums"].values()} | {tuple(h["module"]) for h in dc["holders"]})
        for m in all_mods:
            if pkg.file_of(list(m)) is None:
                ck.fail({**cls0, "mechanism": "module_missing", "trigger": "none"}, dc, f"no file was emitted for module {'.'.join(m)!r}: {sorted(files)}")
                continue
            r = pkg.load(list(m))
            loaded[m] = r
            if isinstance(r, tuple):
                exc, culprit = r
                if culprit not in reported:
                    reported.add(culprit)
                    cm = module_of_file(culprit) if not pkg.single else []
                    trig = import_trigger(dc, cm)
                    if isinstance(exc, TypeError) and "already defined" in str(exc) and c07.nfkc_unstable(files.get("out.py" if pkg.single else culprit or "", ""), []):
                        trig = "nfkc_member_name"  # known finding D21: two member names that are one identifier after NFKC normalisation
                    ck.fail({**cls0, "mechanism": "import_error", "trigger": trig, "error": type(exc).__name__}, dc,
                            f"importing the emitted module {culprit} raised {type(exc).__name__}: {str(exc)[:160]}")
        if reported:
            camp.hit("import_error")
        # the enum classes have exactly the schema's values
        enum_cls: dict[str, Any] = {}
        for en, e in dc["enums"].items():
            mod = loaded.get(tuple(e["module"]))
            if mod is None or isinstance(mod, tuple):
                continue
            used_by_ref = any(f["enum"] == en and f["wrap"] != "inline" for h in dc["holders"] for f in h["fields"])
            E = getattr(mod, en, None)
            if not (isinstance(E, type) and issubclass(E, pyenum.Enum)):
                if used_by_ref or kind != "single":
                    ck.fail({**cls0, "mechanism": "values", "trigger": "none"}, dc, f"module {'.'.join(e['module'])!r} has no Enum class {en}")
                continue
            enum_cls[en] = E
            got = sorted(base.typed(m.value) for m in E)
            want = sorted(base.typed(v) for v in e["values"] if v is not None)
            if got != want:
                ck.fail({**cls0, "mechanism": "values", "trigger": base.classify(base.Case(e["type"], e["values"]), dc["opts"])}, dc,
                        f"values of {en} are {got!r}, the schema's entries are {want!r}")
        # every default that is an entry IS the member
        for h in dc["holders"]:
            mod = loaded.get(tuple(h["module"]))
            if mod is None or isinstance(mod, tuple):
                continue
            H = getattr(mod, h["name"], None)
            if H is None:
                ck.fail({**cls0, "mechanism": "class_missing", "trigger": "none"}, dc, f"module {'.'.join(h['module'])!r} has no class {h['name']}")
                continue
            try:
                inst = H()
            except Exception as ex:  # noqa: BLE001
                # a list default of a dataclass is a default_factory: its text is evaluated only now
                ck.fail({**cls0, "mechanism": "import_error", "trigger": import_trigger(dc, h["module"]), "error": type(ex).__name__, "at": "instantiate"}, dc,
                        f"{h['name']}() raised {type(ex).__name__}: {str(ex)[:160]}")
                continue
            for f in h["fields"]:
                if not checked_default(dc, f):
                    camp.hit("default:not_an_entry")
                    continue
                e = dc["enums"][f["enum"]]
                if f["wrap"] != "inline" and f["enum"] not in enum_cls:
                    continue  # the enum's module did not import / has no such class: reported above
                where = "same_module" if e["module"] == h["module"] or f["wrap"] == "inline" else "importing_module"
                x = getattr(inst, f["name"], "<no such attribute>")
                ds = f["default"] if f["shape"] == "list" else [f["default"]]
                xs = x if f["shape"] == "list" and isinstance(x, list) else [base.unwrap_root(x)]
                bad: list[str] = []
                trig = "none"
                if len(xs) != len(ds):
                    bad.append(f"{len(ds)} entries in the default, {len(xs)} elements in the rendered default")
                    trig = next((t for t in (default_trigger(e["type"], e["values"], d) for d in ds) if t != "none"), "none")
                for d, got in zip(ds, xs):
                    if f["wrap"] == "inline":
                        ok = (isinstance(got, pyenum.Enum) and type(got).__module__ == mod.__name__ and base.typed(got.value) == base.typed(d)
                              and sorted(base.typed(m.value) for m in type(got)) == sorted(base.typed(v) for v in e["values"] if v is not None))
                    else:
                        want = [m for m in enum_cls[f["enum"]] if base.typed(m.value) == base.typed(d)]
                        ok = len(want) == 1 and got is want[0]
                    if not ok:
                        t = default_trigger(e["type"], e["values"], d)
                        trig = t if trig == "none" else trig
                        bad.append(f"{d!r} is rendered as {got!r}")
                camp.hit(f"default:{f['shape']}:{f['wrap']}:{where}:{'member' if not bad else 'not_member'}")
                if any(not d for d in ds):
                    camp.hit(f"default:falsy_entry:{f['shape']}:{'member' if not bad else 'not_member'}")  # the region of the repaired finding D25
                if bad:
                    ck.fail({**cls0, "mechanism": "default_member", "trigger": trig, "shape": f["shape"], "where": where}, dc,
                            f"{h['name']}.{f['name']}: default {f['default']!r} names entries of {f['enum']} but " + "; ".join(bad[:3]))
        if len(camp.samples) < 3 and kind != "single" and not reported:
            camp.samples.append({"input_kind": kind, "files": sorted(files), "holders": [(".".join(h["module"]), h["name"], [f["default"] for f in h["fields"]]) for h in dc["holders"]]})
    finally:
        pkg.close()


CORPUS: list[dict] = [
    # the same value is the default in the defining module and in an importing module (both module-name orders)
    {"dkind": "tree", "model": "pydantic_v2.BaseModel", "opts": {"set_default_enum_member": True},
     "enums": {"Color": {"module": ["shared"], "type": "string", "values": ["red", "green"]}},
     "holders": [{"module": ["shared"], "name": "Palette", "fields": [{"name": "f0", "enum": "Color", "shape": "scalar", "wrap": "ref", "default": "red"}]},
                 {"module": ["app"], "name": "Widget", "fields": [{"name": "f0", "enum": "Color", "shape": "scalar", "wrap": "allOf", "default": "red"}]}],
     "order": ["Palette", "Color", "Widget"]},
    {"dkind": "tree", "model": "dataclasses.dataclass", "opts": {"set_default_enum_member": True},
     "enums": {"Color": {"module": ["base"], "type": "string", "values": ["red", "green"]}},
     "holders": [{"module": ["zzz"], "name": "Widget", "fields": [{"name": "f0", "enum": "Color", "shape": "list", "wrap": "ref", "default": ["green", "red"]}]},
                 {"module": ["base"], "name": "Palette", "fields": [{"name": "f0", "enum": "Color", "shape": "list", "wrap": "ref", "default": ["red"]},
                                                                     {"name": "f1", "enum": "Color", "shape": "scalar", "wrap": "ref", "default": "green"}]},
                 {"module": ["pk", "pal"], "name": "Deep", "fields": [{"name": "f0", "enum": "Color", "shape": "scalar", "wrap": "ref", "default": "green"}]}],
     "order": ["Widget", "Deep", "Color", "Palette"]},
    # defaults only in importing modules of a document with dotted definition names
    {"dkind": "dotted", "model": "pydantic_v2.BaseModel", "opts": {"set_default_enum_member": True},
     "enums": {"Color": {"module": ["shared"], "type": "string", "values": ["red", "green"]}},
     "holders": [{"module": ["orders"], "name": "Order", "fields": [{"name": "f0", "enum": "Color", "shape": "scalar", "wrap": "ref", "default": "red"}]},
                 {"module": ["pk", "pal"], "name": "Deep", "fields": [{"name": "f0", "enum": "Color", "shape": "list", "wrap": "ref", "default": ["red", "green"]}]}],
     "order": ["Color", "Order", "Deep"]},
    # hand-escaped characters, scalar and list, one module
    {"dkind": "single", "model": "pydantic_v2.BaseModel", "opts": {"set_default_enum_member": True},
     "enums": {"Color": {"module": [], "type": "string", "values": ["/", "\\", "C:\\temp", "two\nlines", "a\tb", "\r\n"]}},
     "holders": [{"module": [], "name": "Palette", "fields": [{"name": "f0", "enum": "Color", "shape": "scalar", "wrap": "ref", "default": "\\"},
                                                              {"name": "f1", "enum": "Color", "shape": "list", "wrap": "inline", "default": ["C:\\temp", "/", "two\nlines"]},
                                                              {"name": "f2", "enum": "Color", "shape": "scalar", "wrap": "inline", "default": "\r\n"}]}],
     "order": ["Color", "Palette"]},
    # the region of the repaired finding D25: falsy defaults (0, "") as scalar and inside lists, in the defining module and in an
    # importing one, every executable kind
    {"dkind": "tree", "model": "dataclasses.dataclass", "opts": {"set_default_enum_member": True},
     "enums": {"Size": {"module": ["shared"], "type": "integer", "values": [0, 1, 2]}},
     "holders": [{"module": ["shared"], "name": "Palette", "fields": [{"name": "f0", "enum": "Size", "shape": "scalar", "wrap": "ref", "default": 0},
                                                                       {"name": "f1", "enum": "Size", "shape": "list", "wrap": "ref", "default": [0, 2, 0]}]},
                 {"module": ["app"], "name": "Widget", "fields": [{"name": "f0", "enum": "Size", "shape": "scalar", "wrap": "allOf", "default": 0},
                                                                   {"name": "f1", "enum": "Size", "shape": "list", "wrap": "ref", "default": [0]}]}],
     "order": ["Widget", "Size", "Palette"]},
    {"dkind": "tree", "model": "pydantic_v2.BaseModel", "opts": {"set_default_enum_member": True},
     "enums": {"Size": {"module": ["base"], "type": "integer", "values": [1, 0]}, "Mode": {"module": ["base"], "type": "string", "values": ["on", ""]}},
     "holders": [{"module": ["base"], "name": "Palette", "fields": [{"name": "f0", "enum": "Size", "shape": "scalar", "wrap": "ref", "default": 0},
                                                                     {"name": "f1", "enum": "Mode", "shape": "scalar", "wrap": "ref", "default": ""}]},
                 {"module": ["zzz"], "name": "Widget", "fields": [{"name": "f0", "enum": "Mode", "shape": "scalar", "wrap": "ref", "default": ""},
                                                                   {"name": "f1", "enum": "Size", "shape": "list", "wrap": "ref", "default": [0, 1]},
                                                                   {"name": "f2", "enum": "Mode", "shape": "list", "wrap": "ref", "default": ["", "on"]}]}],
     "order": ["Mode", "Widget", "Size", "Palette"]},
    {"dkind": "single", "model": "pydantic.BaseModel", "opts": {"set_default_enum_member": True},
     "enums": {"Size": {"module": [], "type": "integer", "values": [0, 1]}, "Mode": {"module": [], "type": "string", "values": ["", "on"]}},
     "holders": [{"module": [], "name": "Palette", "fields": [{"name": "f0", "enum": "Size", "shape": "scalar", "wrap": "ref", "default": 0},
                                                               {"name": "f1", "enum": "Mode", "shape": "scalar", "wrap": "inline", "default": ""},
                                                               {"name": "f2", "enum": "Size", "shape": "list", "wrap": "inline", "default": [0, 1, 0]}]}],
     "order": ["Size", "Mode", "Palette"]},
]


def campaign_defaults(ck: Check, n: int) -> None:
    camp = ck.campaign("e2e defaults naming enum entries (single / dotted / openapi / directory-tree inputs, modular output: every module "
                       "imports, every enum has the schema's values, every scalar and list default IS the member)")
    t0 = time.time()
    rng = ck.rng.fork("defaults")
    for dc in CORPUS:
        check_dcase(ck, camp, copy.deepcopy(dc))
    for _ in range(n):
        check_dcase(ck, camp, gen_dcase(rng))
    camp.wall_s = time.time() - t0


# ---------------------------------------------------------------- correspondence: sequences of __set_default_enum_member
ALIASES = [None, None, "", "shared.Color", "pal.Color", "Color_1", "m.E", "E_", "é.E"]


def gen_steps(rng: Rng, case: base.Case) -> list[list[dict]]:
    """modules (one call of __set_default_enum_member each) of fields: alias of the field's data type, default"""
    vals = case.values
    hot = rng.choice(vals)

    def pick() -> Any:
        p = rng.below(10)
        return hot if p < 5 else rng.choice(vals) if p < 9 else ("zz" if rng.chance(1, 2) else 0)

    mods = []
    for _ in range(rng.range(1, 4)):
        alias = rng.choice(ALIASES)  # one alias per module: what __change_from_import gives every use of the enum there
        fields = []
        for _ in range(rng.range(1, 3)):
            if rng.chance(1, 3):
                d: Any = [pick() for _ in range(rng.range(0, 3))]
            else:
                d = pick()
            fields.append({"alias": alias if rng.chance(9, 10) else rng.choice(ALIASES), "default": d})
        mods.append(fields)
    return mods


def sx_step(f: dict) -> str:
    def one(v: Any) -> str:
        return f"({base.sxj(v)} {hx(repr(v))})"

    a = "none" if f["alias"] is None else hx(f["alias"])
    d = f["default"]
    if isinstance(d, list):
        return f"({a} l {' '.join(one(v) for v in d)})"
    return f"({a} s {one(d)})"


def real_steps(em, mods: list[list[dict]]) -> list[str]:
    """the real objects: Enum model `em`, one DataType per field referring to it, Parser.__set_default_enum_member per module"""
    from datamodel_code_generator.model.base import DataModelFieldBase
    from datamodel_code_generator.model.enum import Member
    from datamodel_code_generator.parser.base import Parser
    from datamodel_code_generator.types import DataType

    fn = Parser._Parser__set_default_enum_member  # noqa: SLF001
    stub = types.SimpleNamespace(set_default_enum_member=True)
    all_fields = []
    for fields in mods:
        fs = []
        for f in fields:
            inner = DataType(reference=em.reference, alias=f["alias"])
            dt = DataType(data_types=[inner], is_list=True) if isinstance(f["default"], list) else inner
            fs.append(DataModelFieldBase(name="f", data_type=dt, default=copy.deepcopy(f["default"]), required=False))
        fn(stub, [types.SimpleNamespace(fields=fs)])
        all_fields += fs
    out = []
    for fld in all_fields:  # rendered after every module has been processed, as Parser.parse does
        d = fld.default
        if isinstance(d, Member):
            out.append("one " + hx(repr(d)))
        elif isinstance(d, list) and d and all(isinstance(x, Member) for x in d):
            out.append("many " + " ".join(hx(repr(x)) for x in d))
        else:
            out.append("u")
    return out


def campaign_steps(ck: Check, n: int) -> None:
    camp = ck.campaign("enum.setdefaults (Model.Enum.runSteps: Member objects, aliases, rendered text) vs Parser.__set_default_enum_member "
                       "applied module after module to real Enum / DataType / field objects, repr of every default afterwards")
    t0 = time.time()
    rng = ck.rng.fork("steps")
    jobs = []
    for i in range(n):
        case = base.gen_case(rng)
        if not base.scalar_only(case) or not case.values:
            continue
        cfg = rng.choice(base.ENUM_CFGS) if rng.chance(1, 3) else Cfg()
        mods = gen_steps(rng, case)
        jobs.append((case, cfg, mods))
    jobs = STEP_CORPUS + jobs
    reqs = []
    metas = []
    for case, cfg, mods in jobs:
        camp.evaluations += 1
        if cfg.uses_lower() and any(isinstance(v, str) and "Σ" in v for v in case.values + (case.varnames or [])):
            camp.unmodelled += 1
            continue
        p, enums = base.stage1(case, cfg)
        if isinstance(p, str) or len(enums) != 1:
            camp.unmodelled += 1
            camp.hit("reported:" + (p if isinstance(p, str) else "enum models"))
            continue
        em = enums[0]
        try:
            impl = " | ".join(real_steps(em, mods))
        except Exception as e:  # noqa: BLE001
            impl = f"raised {type(e).__name__}: {str(e)[:100]}"
        inp = {**case.as_input(), "cfg": cfg.label(), "enum_name": em.name, "modules": mods}
        reqs.append(f"enum.setdefaults {cfg.sx()} {case.sx()} {hx(em.name)} ({' '.join(sx_step(f) for fields in mods for f in fields)})")
        metas.append((inp, impl, mods))
    for (inp, impl, mods), rep in zip(metas, ck.driver.run(reqs)):
        flat = [f for fields in mods for f in fields]
        for f, tok in zip(flat, impl.split(" | ")):
            camp.hit(f"{'list' if isinstance(f['default'], list) else 'scalar'}:{'alias' if f['alias'] else 'no_alias'}:{tok.split(' ')[0]}")
        # the same value looked up from fields with different aliases: the case in which object identity matters
        seen: dict[str, set] = {}
        for f in flat:
            for d in f["default"] if isinstance(f["default"], list) else [f["default"]]:
                seen.setdefault(repr(d), set()).add(f["alias"] or None)
        if any(len(s) > 1 for s in seen.values()):
            camp.hit("same_value_under_two_aliases")
        camp.distinct.add(json.dumps(inp, sort_keys=True, default=str))
        if rep != impl:
            ck.disagree(camp, inp, rep, impl)
        elif len(camp.samples) < 2 and "many" in impl and "one" in impl:
            camp.samples.append({**inp, "rendered": impl})
    camp.wall_s = time.time() - t0


STEP_CORPUS = [
    (base.Case("string", ["red", "green"]), Cfg(), [[{"alias": None, "default": "red"}], [{"alias": "shared.Color", "default": "red"}]]),
    (base.Case("string", ["red", "green"]), Cfg(), [[{"alias": "shared.Color", "default": "red"}], [{"alias": None, "default": "red"}],
                                                     [{"alias": "pal.Color", "default": ["red", "green", "red"]}]]),
    (base.Case("integer", [0, 1, 2]), Cfg(), [[{"alias": "m.E", "default": [0, 1]}, {"alias": "", "default": 1}], [{"alias": None, "default": [1, 2, 0]}]]),
    (base.Case("string", ["a\\b", "x"]), Cfg(cap=True), [[{"alias": None, "default": ["a\\b", "zz", "x"]}], [{"alias": "q.E", "default": "a\\b"}]]),
    # falsy defaults are looked up (D25 repaired); a missing default (None), `[]` and a None-valued member (D12) are not
    (base.Case("integer", [0, 1, 2]), Cfg(), [[{"alias": None, "default": 0}, {"alias": "m.E", "default": 0}], [{"alias": "", "default": [0, 0]}]]),
    (base.Case("string", ["", "a"]), Cfg(), [[{"alias": "shared.Color", "default": ""}], [{"alias": None, "default": ["", "a"]}, {"alias": None, "default": []}]]),
    (base.Case(None, [False, "x", 0.0]), Cfg(), [[{"alias": None, "default": False}, {"alias": "q.E", "default": 0.0}]]),
    (base.Case(None, [1, None, ""]), Cfg(), [[{"alias": None, "default": None}, {"alias": "q.E", "default": [None, ""]}, {"alias": None, "default": ""}]]),
]


# ---------------------------------------------------------------- targeted search (run only when a proof / correspondence broke)
def dcase_from(ty: Any, values: list, defaults: list, variant: int) -> dict:
    """a complete document around (entries, default values) of a disagreement"""
    d0 = defaults[0]
    fs_def = [{"name": "f0", "enum": "Color", "shape": "scalar", "wrap": "ref", "default": d0},
              {"name": "f1", "enum": "Color", "shape": "list", "wrap": "ref", "default": list(defaults)}]
    fs_imp = [{"name": "f0", "enum": "Color", "shape": "scalar", "wrap": "allOf" if variant & 1 else "ref", "default": d0},
              {"name": "f1", "enum": "Color", "shape": "list", "wrap": "ref", "default": list(reversed(defaults))}]
    definer, importer = (["shared"], ["app"]) if variant & 2 else (["base"], ["zzz"])
    kind = "single" if variant & 4 else "tree"
    if kind == "single":
        definer = importer = []
        fs_imp[1]["wrap"] = "inline"
    return {"dkind": kind, "model": MODELS[variant % 3], "opts": {"set_default_enum_member": True},
            "enums": {"Color": {"module": definer, "type": ty, "values": values}},
            "holders": [{"module": definer, "name": "Palette", "fields": fs_def}, {"module": importer, "name": "Widget", "fields": fs_imp}],
            "order": ["Widget", "Color", "Palette"] if variant & 1 else ["Color", "Palette", "Widget"]}


def search_defaults(ck: Check) -> None:
    """embed the (entries, default) pairs of the disagreeing find / setdefaults cases into complete documents (one module and a
    directory tree with the same value used in the defining and in an importing module), then a small scope"""
    camp = ck.campaign("search: disagreeing (entries, default) pairs embedded into complete documents; small scope of module layouts")
    tried = 0
    for dis in ck.disagreements[:60]:
        inp = dis.input if isinstance(dis.input, dict) else {}
        if "enum" not in inp:
            continue
        vals = inp["enum"]
        ds: list = []
        if "default" in inp:
            ds.append(inp["default"])
        for fields in inp.get("modules", []):
            for f in fields:
                ds += f["default"] if isinstance(f["default"], list) else [f["default"]]
        ds = [d for i, d in enumerate(ds) if any(base.typed(d) == base.typed(v) for v in vals if v is not None) and d not in ds[:i]][:3]
        if not ds or not base.scalar_only(base.Case(inp.get("type"), vals)):
            continue
        for variant in range(8):
            check_dcase(ck, camp, dcase_from(inp.get("type"), vals, ds, variant))
            tried += 1
            if ck.failures:
                return
        if tried > 160:
            break
    for vals, ds in ((["red", "green"], ["red"]), (["a\\b", "x\ny", "p"], ["a\\b", "x\ny"]), ([1, 2, 3], [2, 1])):
        for variant in range(8):
            check_dcase(ck, camp, dcase_from("integer" if isinstance(vals[0], int) else "string", vals, ds, variant))
            if ck.failures:
                return
    rng = Rng(ck.seed, "c09-search")
    for _ in range(150):
        check_dcase(ck, camp, gen_dcase(rng, "tree" if rng.chance(2, 3) else "single"))
        if ck.failures:
            return
