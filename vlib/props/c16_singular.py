"""C16 — raw-data keys whose SINGULAR class name is unusable.

An array of objects under the key K gets the class name singular(ClassName(K)) (ModelResolver.get_class_name with
singular_name=True: the key is first made a valid UpperCamel class name and only THEN singularised with inflect), so the
singular form itself was never looked at by the name sanitiser: it may be empty (`S` → ``), a keyword (`Nones` → `None`),
a name the module itself uses (`Lists` → `List`, `Models` → `Model`) or no identifier at all.  Parser.
__replace_duplicate_name_in_module sends every class name once more through a scoped resolver, which is what repairs
those names.

This file holds
  * the key pool of that family, COMPUTED from inflect + keyword (plural spellings of every keyword / soft keyword /
    builtin constant in four capitalisations, with and without a separator before the `s`; the one-letter `s` / `S` and
    `s` next to non-identifier characters; the plurals of the names the emitted module uses),
  * the harness' own class-name form and singular (tied to the real ModelResolver on the pool in every run),
  * the documents of the family (array of objects at the root, in a nested object, in an array of arrays, nested
    under itself, two places with the same singular, plain object / scalar keys),
  * what is observed of an emitted module that does not parse / import: the spelling of its class names,
  * the Lean tie of Model.SingularName (final class names of the two-stage naming) against the real code.
"""
from __future__ import annotations

import json
import keyword
import re
import time
import warnings
from typing import Any

from ..common import Rng, hx, unhx
from ..runner import Check

V2 = "pydantic_v2.BaseModel"
V1 = "pydantic.BaseModel"

_engine = None


def engine():
    global _engine
    if _engine is None:
        import inflect

        _engine = inflect.engine()
    return _engine


# ------------------------------------------------------------------ the harness' own naming
def class_form(key: str) -> str | None:
    """UpperCamel class-name form of a key made of ASCII letters, digits and the separators `_- ` that starts with a letter; None outside that
    simple region (the real sanitiser has more cases there: the tie counts them unmodelled)"""
    if not key or not re.fullmatch(r"[A-Za-z0-9_\- ]+", key) or not key[0].isalpha():
        return None
    parts = [p for p in re.split(r"[_\- ]+", key) if p]
    if not parts:
        return None
    out = "".join(p[0].upper() + p[1:] for p in parts)
    if keyword.iskeyword(out) or not out.isidentifier():
        return None
    return out


def singular_of(key: str) -> str | None:
    """the class name an array of objects under `key` is first given (before the per-module pass): singular_noun of the class-name form,
    `<Name>Item` when inflect knows no singular"""
    cf = class_form(key)
    if cf is None:
        return None
    with warnings.catch_warnings():
        warnings.simplefilter("ignore")
        s = engine().singular_noun(cf)
    return f"{cf}Item" if s is False else s


def unusable(name: str | None) -> str | None:
    """why `name` cannot be a class name, None when it can"""
    if name is None:
        return None
    if name == "":
        return "empty"
    if keyword.iskeyword(name):
        return "keyword"
    if not name.isidentifier():
        return "not_identifier"
    return None


MODULE_NAMES = ["List", "Optional", "Any", "Dict", "Union", "Field", "BaseModel", "Model", "RootModel", "Set", "Enum"]
SEPARATORS = ["", "_", "-", " "]
NONIDENT = ["-", "$", " ", "@", "#", "'", "é", "_"]


def _pool() -> tuple[list[str], list[str], list[str]]:
    eng = engine()
    bases = list(dict.fromkeys(list(keyword.kwlist) + list(keyword.softkwlist)))
    plural_kw: set[str] = set()
    with warnings.catch_warnings():
        warnings.simplefilter("ignore")
        for b in bases:
            if not b.strip("_"):
                continue
            for form in {b, b.lower(), b.capitalize(), b.upper()}:
                plural_kw.add(eng.plural(form))
                for sep in SEPARATORS:
                    plural_kw.add(form + sep + "s")
        letter = {"s", "S"}
        for c in NONIDENT:
            letter |= {c + "s", "s" + c, c + "S", c + "s" + c}
        letter |= {"ss", "Ss", "es", "s1", "xs"}   # near misses
        module = set()
        for m in MODULE_NAMES:
            for form in {m, m.lower()}:
                module.add(eng.plural(form))
    return sorted(plural_kw), sorted(letter), sorted(module)


PLURAL_KEYWORDS, LETTER_S, PLURAL_MODULE_NAMES = _pool()
POOL = sorted(set(PLURAL_KEYWORDS) | set(LETTER_S) | set(PLURAL_MODULE_NAMES))
POOL_SET = set(POOL)
# the members whose singular (by the harness' own computation) cannot be a class name: the hard core of the family
UNUSABLE = [k for k in POOL if unusable(singular_of(k))]


# ------------------------------------------------------------------ what is seen of the emitted module
_CLASS_LINE = re.compile(r"^class[ \t]*([^\s(:]*)[ \t]*[(:]", re.M)


def class_tag(code: str) -> str:
    """a tag naming the first class statement whose name cannot be one (appended to the observation of a module that does not parse)"""
    for name in _CLASS_LINE.findall(code or ""):
        why = unusable(name)
        if why:
            return f" [class-name:{why}:{name}]"
    return ""


def cause_from_tag(observed: str) -> str | None:
    m = re.search(r"\[class-name:([a-z_]+):", observed)
    return f"class_name_is_{m.group(1)}" if m else None


def alias_tag(code: str, doc) -> str:
    """pydantic-v2 output: a member `X_n: …X… = Field(…, alias='X')` whose alias X is NO key of the document — the member-rename pass
    (a member spelled like the class of its own type gets a new name and the OLD PYTHON NAME as alias) ran on a member that already had
    an alias (its key is not its Python name), and the wire name is lost"""
    import ast

    try:
        tree = ast.parse(code)
    except SyntaxError:
        return ""
    keys: set[str] = set()

    def collect(v):
        if isinstance(v, dict):
            for k, x in v.items():
                keys.add(k)
                collect(x)
        elif isinstance(v, list):
            for x in v:
                collect(x)

    collect(doc)
    classes = {n.name for n in tree.body if isinstance(n, ast.ClassDef)}
    for cls in tree.body:
        if not isinstance(cls, ast.ClassDef):
            continue
        for st in cls.body:
            if not (isinstance(st, ast.AnnAssign) and isinstance(st.target, ast.Name) and isinstance(st.value, ast.Call)):
                continue
            for kw in st.value.keywords:
                if kw.arg == "alias" and isinstance(kw.value, ast.Constant) and isinstance(kw.value.value, str):
                    x = kw.value.value
                    named = {n.id for n in ast.walk(st.annotation) if isinstance(n, ast.Name)}
                    if x not in keys and x in classes and x in named and re.fullmatch(re.escape(x) + r"_\d+", st.target.id):
                        return f" [alias-is-python-name:{x}]"
    return ""


def cause_from_alias_tag(observed: str) -> str | None:
    return "renamed_member_alias_is_python_name" if "[alias-is-python-name:" in observed else None


def array_sites(v, out: list | None = None) -> list[str]:
    """the keys of every member whose value is an array that holds an object (directly or through nested arrays)"""
    out = [] if out is None else out

    def holds_object(a) -> bool:
        return any(isinstance(x, dict) or (isinstance(x, list) and holds_object(x)) for x in a)

    if isinstance(v, dict):
        for k, x in v.items():
            if isinstance(x, list) and holds_object(x):
                out.append(k)
            array_sites(x, out)
    elif isinstance(v, list):
        for x in v:
            array_sites(x, out)
    return out


def dup_singular_keyword(doc) -> bool:
    """two or more array-of-objects members of the document whose first class name is the SAME keyword"""
    seen: dict[str, int] = {}
    for k in array_sites(doc):
        s = singular_of(k)
        if unusable(s) == "keyword":
            seen[s] = seen.get(s, 0) + 1
    return any(n >= 2 for n in seen.values())


def singular_sites(doc) -> str:
    """kinds of unusable singulars among the array-of-objects members: part of the classification"""
    kinds = sorted({unusable(singular_of(k)) or "" for k in array_sites(doc)} - {""})
    return "+".join(kinds) or "none"


# ------------------------------------------------------------------ documents of the family
FILLER = ["id", "seq", "code", "text", "row", "n", "kind", "name"]


def _item(rng: Rng, tag: str) -> dict:
    return {tag: rng.choice([1, "x", None, 2.5, True])}


def place(key: str, depth: str, items: list) -> dict:
    """`items` as an array of objects under `key` at one of the depths of the family"""
    if depth == "root":
        return {key: items, "name": "x"}
    if depth == "object":
        return {"data": {key: items, "values": [{"v": 1}]}}
    if depth == "array_of_arrays":
        return {"rows": [[{key: items}], []]}
    if depth == "items_of_items":
        return {key: [items, []]}
    if depth == "under_itself":
        return {key: [{key: items, "seq": 1}]}
    if depth == "object_key":
        return {key: items[0], "other": {key: 1}}
    raise ValueError(depth)


DEPTHS = ["root", "object", "array_of_arrays", "items_of_items", "under_itself", "object_key"]
# under_itself / two_sites put two classes with one singular into the module
SINGLE_DEPTHS = ["root", "object", "array_of_arrays", "items_of_items", "object_key"]


def core_cases() -> list[tuple[dict, str]]:
    """deterministic: every key of the hard core at every single-place depth (one array-of-objects member per document)"""
    out = []
    for i, k in enumerate(UNUSABLE):
        for j, d in enumerate(SINGLE_DEPTHS):
            items = [{"a": 1}, {"a": 2}] if (i + j) % 2 else [{"a": None}]
            out.append((place(k, d, items), d))
    return out


def rand_singular_document(rng: Rng) -> tuple[dict, str]:
    shape = rng.below(12)
    group = rng.choice([UNUSABLE, UNUSABLE, PLURAL_KEYWORDS, LETTER_S, PLURAL_MODULE_NAMES])
    k = rng.choice(group)
    items = [_item(rng, rng.choice(FILLER)) for _ in range(rng.range(1, 3))]
    if shape == 0:      # the same singular at two places (sibling objects)
        doc = {"a": {k: items}, "b": {k: [_item(rng, "z")]}}
        return doc, "two_sites"
    if shape == 1:
        return place(k, "under_itself", items), "under_itself"
    if shape == 2:      # two keys of the pool side by side
        k2 = rng.choice(rng.choice([UNUSABLE, POOL]))
        doc = {k: items}
        doc.setdefault(k2, [_item(rng, "z")])
        return doc, "two_keys"
    if shape == 3:      # beside a key that already is the singular's repaired spelling
        doc = {k: items, (singular_of(k) or "x") + "_": {"q": 1}, "field": {"r": 1}}
        return doc, "beside_repaired_spelling"
    if shape == 4:      # an optional member of the items, the key as a scalar member too
        doc = {k: items + [{}], "o": {k: 1}}
        return doc, "optional_items"
    d = rng.choice(SINGLE_DEPTHS)
    doc = place(k, d, items)
    if rng.chance(1, 3):
        doc[rng.choice(FILLER)] = rng.choice([1, "t", None])
    return doc, d


def campaign_singular(ck: Check, n: int, c16) -> None:
    camp = ck.campaign("e2e: samples with an array of objects under a key whose singular class name is unusable or taken (computed pool: plural spellings of "
                       "every keyword / soft keyword / None / True / False × capitalisation × separator, the letter s beside non-identifier characters, plurals "
                       "of the names the module uses) at the root / in a nested object / in an array of arrays / as items of items / under itself / at two "
                       "places / as a plain object key → generate() succeeds, the module parses and imports, Model validates the document, "
                       "dump(by_alias) has its keys")
    t0 = time.time()
    rng = ck.rng.fork("singular")
    camp.hit(f"pool:{len(POOL)}")
    camp.hit(f"pool_unusable:{len(UNUSABLE)}")
    for i, (doc, depth) in enumerate(core_cases()):
        camp.hit("depth:" + depth)
        camp.hit("singular:" + singular_sites(doc))
        camp.distinct.add(json.dumps(doc, sort_keys=True))
        c16.oracle_case(ck, camp, doc, ["json", "yaml", "dict"][i % 3], V1 if i % 4 == 3 else V2)
    for i in range(n):
        doc, depth = rand_singular_document(rng)
        kind = V1 if i % 3 == 2 else V2
        if kind == V1:
            doc = c16.without_v1_root_key(doc)
        camp.hit("depth:" + depth)
        camp.hit("singular:" + singular_sites(doc))
        camp.distinct.add(json.dumps(doc, sort_keys=True))
        c16.oracle_case(ck, camp, doc, ["json", "yaml", "dict", "json"][i % 4], kind)
    camp.wall_s = time.time() - t0


def search_singular(ck: Check, c16) -> None:
    """run when a proof or a correspondence broke: the whole pool at every depth (pydantic v2, JSON)"""
    camp = ck.campaign("search: every key of the singular pool × depth (one array-of-objects member per document)")
    for k in POOL:
        for d in SINGLE_DEPTHS:
            c16.oracle_case(ck, camp, place(k, d, [{"a": 1}]), "json", V2)
        if ck.failures:
            return


# ------------------------------------------------------------------ the naming itself: harness / Lean model vs the real resolver
def real_first_name(key: str) -> str:
    from datamodel_code_generator.reference import ModelResolver

    return ModelResolver().get_class_name(key, unique=False, singular_name=True).name


def real_two_stages(keys: list[str]) -> tuple[tuple[list[str], list[list[str]]], list[str]]:
    """the array-item classes for `keys` (one class per key, in this order) through the two stages: ModelResolver.add(singular_name=True) of the
    main resolver → [path, class name, first desired name ('' = none)] per class; then Parser.__replace_duplicate_name_in_module on real
    DataModel objects (the names they import are the scoped resolver's exclude_names) → the final class names"""
    from datamodel_code_generator.model.pydantic_v2 import BaseModel
    from datamodel_code_generator.parser.base import Parser
    from datamodel_code_generator.reference import ModelResolver

    main = ModelResolver()
    models = []
    for i, k in enumerate(keys):
        ref = main.add(["doc.json", "properties", f"p{i}", k, "items"], k, class_name=True, singular_name=True, unique=True, loaded=True)
        models.append(BaseModel(reference=ref, fields=[]))
    stage1 = [[m.path, m.class_name, m.duplicate_class_name or ""] for m in models]
    imported = sorted({i.alias or i.import_ for m in models for i in m.imports})
    Parser._Parser__replace_duplicate_name_in_module(models)
    return (imported, stage1), [m.class_name for m in models]


def real_final_names(keys: list[str]) -> list[str]:
    return real_two_stages(keys)[1]


def campaign_names(ck: Check, n: int) -> None:
    camp = ck.campaign("naming of array-item classes: (a) the harness' class-name form and singular vs ModelResolver.get_class_name(singular_name=True) on the "
                       "computed pool; (b) after ModelResolver.add + Parser.__replace_duplicate_name_in_module on real DataModel objects every class name of "
                       "the module is a non-keyword identifier and the names are pairwise distinct — key lists of length 1–3 over the pool, the same "
                       "key / the same singular twice included")
    t0 = time.time()
    rng = ck.rng.fork("singular-names")
    for k in POOL:
        camp.evaluations += 1
        mine = singular_of(k)
        if mine is None:
            camp.unmodelled += 1
            continue
        real = real_first_name(k)
        camp.hit("first_name:" + (unusable(real) or "usable"))
        if mine != real:
            ck.disagree(camp, {"key": k, "what": "first class name of an array item"}, mine, real)
    lists = [[k] for k in POOL]
    for _ in range(n):
        ks = [rng.choice(rng.choice([UNUSABLE, UNUSABLE, POOL])) for _ in range(rng.range(2, 3))]
        if rng.chance(1, 3):
            ks[-1] = ks[0]
        lists.append(ks)
    staged = []
    for ks in lists:
        try:
            staged.append(real_two_stages(ks))
        except Exception as e:  # noqa: BLE001
            staged.append(e)
    # the second stage in Lean (Model.Resolver.replaceDuplicateNameInModule, the function theorems C16.item_class_* are about) on what the
    # first stage really produced; a class name outside ASCII is answered `unmodelled`
    lines = ["res.modpass (" + " ".join(hx(x) for x in st[0][0]) + ") (" + " ".join("(" + " ".join(hx(x) for x in m) + ")" for m in st[0][1]) + ")"
             if not isinstance(st, Exception) else "res.modpass () ()"
             for st in staged]
    replies = ck.driver.run(lines)
    for ks, st, rep in zip(lists, staged, replies):
        camp.evaluations += 1
        if isinstance(st, Exception):
            ck.disagree(camp, {"keys": ks}, "class names", f"{type(st).__name__}: {str(st)[:200]}")
            continue
        (imported, stage1), names = st
        if rep.startswith("ok (") and rep.endswith(")"):
            model = [unhx(x) for x in rep[4:-1].split()]
            camp.hit("lean_second_stage:compared")
            if model != names:
                ck.disagree(camp, {"keys": ks, "imported": imported, "stage1": stage1, "what": "final class names: Lean replaceDuplicateNameInModule vs Parser.__replace_duplicate_name_in_module"},
                            repr(model), repr(names))
                continue
        elif rep == "unmodelled":
            camp.unmodelled += 1
        else:
            ck.disagree(camp, {"keys": ks, "stage1": stage1, "what": "driver reply"}, rep[:200], repr(names))
            continue
        camp.distinct.add(json.dumps(ks))
        bad = [nm for nm in names if unusable(nm)]
        firsts = [singular_of(k) for k in ks]
        kw = [f for f in firsts if unusable(f) == "keyword"]
        dup_kw = len(kw) != len(set(kw))
        camp.hit("final:" + ("all_usable" if not bad else "unusable" + ("(same keyword singular twice)" if dup_kw else "")))
        if len(set(names)) != len(names):
            ck.disagree(camp, {"keys": ks, "what": "class names of one module"}, "pairwise distinct", repr(names))
        elif bad and not dup_kw:
            # the recorded defect (C16-dup-singular-keyword) needs the same keyword singular twice; anything else is new
            ck.disagree(camp, {"keys": ks, "what": "class names after the per-module pass"}, "non-keyword identifiers", repr(names))
        elif len(camp.samples) < 3 and any(unusable(f) for f in firsts):
            camp.samples.append({"keys": ks, "first_names": firsts, "final_names": names})
    camp.wall_s = time.time() - t0
