"""C09 — defaults that name an enum value versus the restructuring post-passes of `Parser.parse`.

`--set-default-enum-member` turns a default into a `Member` of the Enum model the field's data type refers to.
Two other post-passes of the per-module loop of `Parser.parse` replace exactly those models and data types:
`__reuse_model` (--reuse-model) drops an Enum model that renders like an earlier one and re-points its users,
`__collapse_root_models` (--collapse-root-models) replaces a reference to a root model (the `Optional[XEnum]`
wrapper of a string enum with a null entry, an alias definition `{"$ref": enum}`) by the root's own type.
The family of this file crosses the three options with the input shapes on which those passes act:

  duplicated enums   2-3 enums with identical entries (inline in properties and/or named definitions), defaults on
                     the fields that use the earlier AND the later copy; near-duplicates that are different enums
                     (same entries in another order, one extra entry, another JSON type)
  enums behind roots nullable string enums (`enum: [..., null]`), alias definitions `{"$ref": E, "default": v}` and `{"$ref": E}`,
                     aliases of aliases, members that wrap the reference in `allOf: [{"$ref": …}]`, arrays of each with list
                     defaults, models that only inherit from an enum (`allOf: [{"$ref": E}, {"description": …}]`).
                     (A DEFINITION that is only `{"allOf": [{"$ref": E}]}` yields no model at all and generate() rejects every
                     reference to it with "A Parser can not resolve classes": a reported error, not part of the family.)
  values             string / integer / mixed enums, falsy defaults (0, "", false)
  kinds              pydantic_v2.BaseModel, pydantic.BaseModel, dataclasses.dataclass (msgspec is not installed,
                     TypedDict has no defaults)
  layout             one module, or dotted definition names (`shared.Colour`, `app.Holder`: modular output). The passes work
                     per module: in the dotted layout a duplicate enum dropped from `shared` by --reuse-model stays referenced
                     from `app` (AttributeError at import) and a root model of `shared` folded into a member of `app` by
                     --collapse-root-models is written without its module and without an import (NameError) — defects of the
                     unchanged tree in C12/C02's territory (relative imports, name binding); the dotted layout keeps to one copy
                     of an enum under --reuse-model, to non-nullable enums under --collapse-root-models and to alias
                     definitions outside the module of their enum.

Oracle (the property, nothing more): every emitted module imports; every emitted Enum class has exactly the non-null
entries of one of the schema's enums and every enum of the schema has such a class; every default that is an entry
of the enum its field refers to is, on the instance `Holder()`, a MEMBER of an Enum class that exists in the emitted
package, whose value is the default with the same JSON type and whose class has exactly that enum's entries (when
--reuse-model merges enums: the surviving class).

Also here: the correspondence campaign for `Dcg.Model.ParsePasses` (real `Parser` passes in permuted orders on
small model lists against the abstract pass semantics) and the search hook that runs the family systematically
when the order obligation of Props/C09 (`parse_pass_order_ok`) or a correspondence breaks.
"""
from __future__ import annotations

import ast
import copy
import enum as pyenum
import json
import sys
import time
import traceback
from typing import Any

from .. import e2e
from ..common import Rng
from ..runner import Check
from . import c09 as base
from . import c09_defaults as cd
from .c07 import yaml_safe_json

MODELS = ["pydantic_v2.BaseModel", "pydantic.BaseModel", "dataclasses.dataclass"]
COMBOS = [{}, {"reuse_model": True}, {"collapse_root_models": True}, {"reuse_model": True, "collapse_root_models": True}]
ENUM_NAMES = ["Colour", "Tint", "Hue", "Level"]
ALIAS_NAMES = ["Shade", "Tone", "Pick", "Grade"]
HOLDERS = ["Holder", "Widget", "Order"]
PROPS = ["first", "second", "third", "fourth", "fifth", "sixth"]

STRING_SETS = [["p", "q"], ["red", "green", "blue"], ["a b", "x-y", "Up"], ["", "on"], ["x", "y", "z"], ["1", "2"]]
INT_SETS = [[0, 1, 2], [1, 2], [10, -1, 0]]
MIXED_SETS = [[1, "a", "b"], ["x", 0, 2], [False, "f"]]


# ---------------------------------------------------------------- the shape of a case
def def_of(oc: dict, name: str) -> dict:
    return next(d for d in oc["defs"] if d["name"] == name)


def resolve(oc: dict, to: dict) -> tuple[dict, list[dict]]:
    """the enum (`{"type", "values", "module"}`) a field refers to and the alias definitions on the way (nearest first)"""
    if "inline" in to:
        return {**to["inline"], "module": oc["holder"]["module"], "name": None}, []
    chain: list[dict] = []
    d = def_of(oc, to["def"])
    while d["is"] == "alias":
        chain.append(d)
        d = def_of(oc, d["target"])
    if d["is"] == "inherit":
        # `allOf: [{$ref: E}, {description}]`: a model that only inherits from the Enum model E; `__extract_inherited_enum` makes it an
        # Enum class of its own with E's entries
        t = def_of(oc, d["target"])
        d = {**d, "type": t["type"], "values": t["values"]}
    return d, chain


def effective_default(oc: dict, f: dict) -> tuple[bool, Any, bool]:
    """(there is a default, the default, it is inherited from an alias definition)"""
    if "default" in f:
        return True, f["default"], False
    if f["shape"] == "scalar" and "def" in f["to"]:
        _, chain = resolve(oc, f["to"])
        for a in chain:
            if "default" in a:
                return True, a["default"], True
    return False, None, False


def non_null(e: dict) -> list:
    return [v for v in e["values"] if v is not None]


def is_nullable_wrapper(e: dict) -> bool:
    """`parse_enum` splits a string enum with a null entry into `XEnum` + a root model `X` around `Optional[XEnum]`"""
    return None in e["values"] and e["type"] == "string"


def behind_root(oc: dict, f: dict) -> str:
    """how the field reaches its enum: directly, through the nullable wrapper, through alias definition(s)"""
    e, chain = resolve(oc, f["to"])
    if chain:
        return "alias"
    return "nullable" if is_nullable_wrapper(e) else "direct"


# ---------------------------------------------------------------- documents
def enum_schema(e: dict) -> dict:
    s: dict[str, Any] = {"enum": e["values"]}
    if e["type"] is not None:
        s["type"] = e["type"]
    return s


def key_of(oc: dict, d: dict) -> str:
    return ".".join([*d["module"], d["name"]]) if oc["okind"] == "dotted" else d["name"]


def ref_to(oc: dict, name: str) -> str:
    return "#/definitions/" + key_of(oc, def_of(oc, name))


def target_schema(oc: dict, to: dict, wrap: str) -> dict:
    if "inline" in to:
        return enum_schema(to["inline"])
    return {"allOf": [{"$ref": ref_to(oc, to["def"])}]} if wrap == "allOf" else {"$ref": ref_to(oc, to["def"])}


def field_schema(oc: dict, f: dict) -> dict:
    t = target_schema(oc, f["to"], f.get("wrap", "ref"))
    s = {"type": "array", "items": t} if f["shape"] == "list" else dict(t)
    if "default" in f:
        s["default"] = f["default"]
    return s


def build_doc(oc: dict) -> dict:
    defs: dict[str, Any] = {}
    for d in oc["defs"]:
        if d["is"] == "enum":
            defs[key_of(oc, d)] = enum_schema(d)
        elif d["is"] == "inherit":
            defs[key_of(oc, d)] = {"allOf": [{"$ref": ref_to(oc, d["target"])}, {"description": "inherits"}]}
        else:
            s = target_schema(oc, {"def": d["target"]}, "ref")
            if "default" in d:
                s["default"] = d["default"]
            defs[key_of(oc, d)] = s
    h = oc["holder"]
    body = {"type": "object", "properties": {f["name"]: field_schema(oc, f) for f in oc["fields"]}}
    if h.get("at") == "root" and oc["okind"] == "single":
        return {"title": h["name"], **body, "definitions": defs}
    pos = min(h.get("pos", len(defs)), len(defs))
    items = list(defs.items())
    items.insert(pos, (key_of(oc, h), body))
    return {"title": "Root", "type": "object", "definitions": dict(items)}


def observe(oc: dict) -> e2e.Result:
    return e2e.run_generate(yaml_safe_json(build_doc(oc)), model=oc["model"], opts=dict(oc["opts"]), timeout=15.0,
                            modular=oc["okind"] == "dotted")


# ---------------------------------------------------------------- classification w.r.t. the known findings (input only)
def default_trigger(oc: dict, f: dict, d: Any, kept_wrapper: str | None = None) -> str:
    """Class of a default (an entry of the field's enum) w.r.t. the recorded defects of the default -> member step, from the
    input — and, under --collapse-root-models, from the emitted annotation of the member. With --collapse-root-models a
    wrapper (nullable root, alias definition) is normally folded into the field BEFORE the defaults are converted, so the
    wrapper classes only exist without that option. Together with --reuse-model the fold can stop at the NULLABLE root model
    (the second of two identical nullable enums is written `class Tint(Colour): pass`, so `Colour` stays a class; a member that
    reaches it through an alias definition is folded one level only and keeps the annotation `Optional[Colour]`): the member
    then refers to the wrapper exactly as without the option, and the conversion step that fails is the one of D27 (dataclass output;
    pydantic output validates every default that is not None through the root model and must hold: C09-F3 / C09-F6 are repaired, so
    falsy defaults are no class of their own any more).
    `kept_wrapper` = name of the non-Enum class of the emitted package that the member's annotation still mentions (read from
    the emitted class by `kept_wrapper_of`), None when the annotation names the Enum itself."""
    e, chain = resolve(oc, f["to"])
    collapse = bool(oc["opts"].get("collapse_root_models"))
    if base.py_equal_groups(non_null(e)):
        return "py_equal_values"  # D12
    if None in e["values"] and e["type"] != "string":
        return "null_not_string_typed"  # D12: `NoneType_None = None` is a member, find_member skips it
    if collapse and kept_wrapper is not None and is_nullable_wrapper(e):
        # the fold left the nullable root model in place (see above): D27. A kept ALIAS wrapper under the option has
        # never been observed and is deliberately not classified (a failure there is reported as a violation).
        return "nullable_wrapper"
    if collapse:
        # the field refers to the enum itself: the lookup of D24 on the kept entries
        return cd.default_trigger(e["type"], non_null(e) if is_nullable_wrapper(e) else e["values"], d)
    if is_nullable_wrapper(e):
        return "nullable_wrapper"  # D27 (also behind an alias)
    if chain:
        return "alias_wrapper"  # C09-F5
    return cd.default_trigger(e["type"], e["values"], d)


def raised_in_empty_subclass_of(exc: BaseException, pkg: "cd.Package", missing: str | None) -> bool:
    """did the exception come from a statement `class X(<missing>): pass` of an emitted file (what --reuse-model writes for the
    second of two models that render alike)? Read from the traceback and the emitted text, not from names we predict."""
    if not missing:
        return False
    site = None
    for fr, lineno in traceback.walk_tb(exc.__traceback__):
        if fr.f_code.co_filename.startswith(str(pkg.root)):
            site = (fr.f_code.co_filename, lineno)
    if site is None:
        return False
    try:
        tree = ast.parse(open(site[0], encoding="utf-8").read())
    except (OSError, SyntaxError):
        return False
    for node in ast.walk(tree):
        if isinstance(node, ast.ClassDef) and node.lineno <= site[1] <= (node.end_lineno or node.lineno):
            return (any(isinstance(bs, ast.Name) and bs.id == missing for bs in node.bases)
                    and len(node.body) == 1 and isinstance(node.body[0], ast.Pass))
    return False


def import_trigger(oc: dict, exc: BaseException, module: list, pkg: "cd.Package") -> str:
    """class of an exception raised by importing an emitted module, from the options, the statement that raised and the
    name the exception reports"""
    if not isinstance(exc, NameError):
        return "none"
    if oc["opts"].get("reuse_model") and oc["opts"].get("collapse_root_models") and raised_in_empty_subclass_of(exc, pkg, getattr(exc, "name", None)):
        # the second of two identical root models became `class B(A): pass` (--reuse-model) and A is defined nowhere: what
        # --collapse-root-models did before it kept a root that is still a base class (former known finding C09-F4, repaired:
        # a failure classified so is a VIOLATION; its witnesses are CORPUS cases)
        return "reused_root_subclass_of_collapsed_root"
    if member_written_in(oc, module):
        return "dotted_name_defining_module"  # C09-F1
    return "none"


def member_written_in(oc: dict, module: list) -> bool:
    """Is a `Member` text (`<enum.name>.<member>`) written into `module` for an enum whose DOTTED definition name lives in that
    same module (known finding C09-F1: `Member.__repr__` writes the dotted definition name where no import alias exists)?"""
    if oc["okind"] != "dotted" or not oc["opts"].get("set_default_enum_member"):
        return False
    collapse = bool(oc["opts"].get("collapse_root_models"))
    if oc["holder"]["module"] != module:
        return False
    for f in oc["fields"]:
        e, chain = resolve(oc, f["to"])
        has, d, _ = effective_default(oc, f)
        if not has or d is None:
            continue
        direct = not chain and not is_nullable_wrapper(e)
        if not (direct or collapse):
            continue
        ds = d if isinstance(d, list) else [d]
        if all(cd.documented_find(e["type"], e["values"], x) is None for x in ds):
            continue
        if e["module"] == module:
            return True
    return False


def kept_wrapper_of(H: type, fname: str, live) -> str | None:
    """Name of a class of the emitted package that is NOT an Enum and that the annotation of `H.fname` mentions (a root model
    that --collapse-root-models did not fold into the member), read from the emitted class; None when there is none."""
    ann = (getattr(H, "__annotations__", None) or {}).get(fname)
    if ann is None:
        return None
    text = ann if isinstance(ann, str) else getattr(ann, "__name__", None) or repr(ann)
    try:
        tree = ast.parse(text, mode="eval")
    except SyntaxError:
        return None
    mod = sys.modules.get(H.__module__)
    for node in ast.walk(tree):
        if not isinstance(node, (ast.Name, ast.Attribute)):
            continue
        obj: Any = mod
        for part in ast.unparse(node).split("."):
            obj = getattr(obj, part, None)
            if obj is None:
                break
        if isinstance(obj, type) and live(obj) and not issubclass(obj, pyenum.Enum):
            return obj.__name__
    return None


# ---------------------------------------------------------------- the oracle on one case
def unwrap(x: Any) -> Any:
    for _ in range(4):
        y = base.unwrap_root(x)
        if y is x:
            break
        x = y
    return x


def check_ocase(ck: Check, camp, oc: dict) -> None:
    camp.evaluations += 1
    opts = oc["opts"]
    combo = "+".join(k for k in ("reuse_model", "collapse_root_models") if opts.get(k)) or "neither"
    camp.hit("options:" + combo)
    camp.hit("kind:" + oc["model"])
    camp.hit("layout:" + oc["okind"])
    cls0 = {"oracle": "e2e_enum", "kind": oc["model"], "input_kind": oc["okind"], "family": "order"}
    res = observe(oc)
    if res.hang:
        ck.fail({**cls0, "mechanism": "hang", "trigger": "none"}, oc, "generate() did not return within 15 s")
        return
    if not res.ok:
        ck.fail({**cls0, "mechanism": "generate_error", "trigger": "none"}, oc, f"generate() raised {res.error_type}: {res.error_msg}")
        return
    files = {k: v for k, v in res.files.items() if k.endswith(".py")}
    for rel, text in files.items():
        err = e2e.parses(text)
        if err:
            ck.fail({**cls0, "mechanism": "unparsable", "trigger": "none"}, oc, f"{rel} does not parse: {err}")
            return
    camp.distinct.add(json.dumps(oc, sort_keys=True, default=str))
    enums_in: list[dict] = [resolve(oc, {"def": d["name"]})[0] for d in oc["defs"] if d["is"] in ("enum", "inherit")]
    enums_in += [resolve(oc, f["to"])[0] for f in oc["fields"] if "inline" in f["to"]]
    pkg = cd.Package(files, oc["model"])
    try:
        # 1. every module imports
        mods_wanted = sorted({tuple(d["module"]) for d in oc["defs"]} | {tuple(oc["holder"]["module"])}) if oc["okind"] == "dotted" else [()]
        loaded: dict[tuple, Any] = {}
        reported: set = set()
        for m in mods_wanted:
            if pkg.file_of(list(m)) is None:
                # a module all of whose classes were folded away (aliases under --collapse-root-models) need not exist
                camp.hit("module_not_emitted")
                continue
            r = pkg.load(list(m))
            loaded[m] = r
            if isinstance(r, tuple):
                exc, culprit = r
                if culprit in reported:
                    continue
                reported.add(culprit)
                cm = cd.module_of_file(culprit) if not pkg.single else []
                trig = import_trigger(oc, exc, cm or [], pkg)
                ck.fail({**cls0, "mechanism": "import_error", "trigger": trig, "error": type(exc).__name__}, oc,
                        f"importing the emitted module {culprit} raised {type(exc).__name__}: {str(exc)[:160]}")
        if reported:
            camp.hit("import_error")
            return
        # 2. the Enum classes are exactly the schema's enums
        classes = [c for m in loaded.values() for c in vars(m).values()
                   if isinstance(c, type) and issubclass(c, pyenum.Enum) and c.__module__ == m.__name__]
        got_sets = [sorted(base.typed(x.value) for x in c) for c in classes]
        want_sets = [sorted(base.typed(v) for v in non_null(e)) for e in enums_in]
        stray = [c.__name__ for c, s in zip(classes, got_sets) if s not in want_sets]
        unserved = [e for e, s in zip(enums_in, want_sets) if s not in got_sets and s]
        if stray or unserved:
            trig = next((t for t in (base.classify(base.Case(e["type"], e["values"]), opts) for e in (unserved or enums_in)) if t != "none"), "none")
            ck.fail({**cls0, "mechanism": "values", "trigger": trig}, oc,
                    f"Enum classes {stray} have entries of no enum of the schema; enums without a class holding exactly their entries: "
                    f"{[e['values'] for e in unserved]}; emitted: {dict(zip([c.__name__ for c in classes], got_sets))}")
        camp.hit(f"enum_classes:{len(classes)}_for_{len(enums_in)}_enums")

        def live(c: type) -> bool:
            m = sys.modules.get(c.__module__)
            return m is not None and c.__module__.startswith(pkg.name) and getattr(m, c.__name__, None) is c

        # 3. every default that is an entry is the member
        hm = loaded.get(tuple(oc["holder"]["module"]) if oc["okind"] == "dotted" else ())
        H = getattr(hm, oc["holder"]["name"], None) if hm is not None else None
        if H is None:
            ck.fail({**cls0, "mechanism": "class_missing", "trigger": "none"}, oc, f"no class {oc['holder']['name']} was emitted")
            return
        if not opts.get("set_default_enum_member"):
            camp.hit("defaults:option_off")
            return
        try:
            inst = H()
        except Exception as ex:  # noqa: BLE001
            trig = import_trigger(oc, ex, oc["holder"]["module"], pkg)
            ck.fail({**cls0, "mechanism": "import_error", "trigger": trig, "error": type(ex).__name__, "at": "instantiate"}, oc,
                    f"{oc['holder']['name']}() raised {type(ex).__name__}: {str(ex)[:160]}")
            return
        for f in oc["fields"]:
            has, d, inherited = effective_default(oc, f)
            if not has:
                continue
            e, chain = resolve(oc, f["to"])
            entries = [base.typed(v) for v in non_null(e)]
            ds = d if f["shape"] == "list" else [d]
            if not isinstance(ds, list) or not ds or not all(base.typed(x) in entries for x in ds):
                camp.hit("default:not_an_entry")
                continue
            x = getattr(inst, f["name"], "<no such attribute>")
            if inherited and x is None:
                camp.hit("default:inherited:not_rendered")  # no default was written at all: C09 says nothing
                continue
            x = unwrap(x)
            xs = list(x) if f["shape"] == "list" and isinstance(x, (list, tuple)) else [x]
            bad: list[str] = []
            trig = "none"
            if len(xs) != len(ds):
                bad.append(f"{len(ds)} entries in the default, {len(xs)} elements in the rendered default")
            for dv, got in zip(ds, xs):
                got = unwrap(got)
                if not isinstance(got, pyenum.Enum):
                    why = f"{dv!r} is the raw value {got!r}"
                elif not live(type(got)):
                    why = f"{dv!r} is a member of {type(got).__name__}, which is not a class of the emitted package"
                elif base.typed(got.value) != base.typed(dv):
                    why = f"{dv!r} is rendered as {got!r}"
                elif sorted(base.typed(m.value) for m in type(got)) != sorted(entries):
                    why = f"{dv!r} is a member of {type(got).__name__} whose entries are not the enum's"
                else:
                    continue
                bad.append(why)
            if bad:
                kept = kept_wrapper_of(H, f["name"], live) if opts.get("collapse_root_models") else None
                if kept is not None:
                    camp.hit("default:collapse_left_wrapper_in_place")
                trig = next((t for t in (default_trigger(oc, f, dv, kept) for dv in ds) if t != "none"), "none")
            how = behind_root(oc, f)
            camp.hit(f"default:{f['shape']}:{how}:{'inherited:' if inherited else ''}{combo}:{'member' if not bad else 'not_member'}")
            if any(not dv for dv in ds):
                camp.hit(f"default:falsy_entry:{'member' if not bad else 'not_member'}")
            if bad:
                ck.fail({**cls0, "mechanism": "default_member", "trigger": trig, "shape": f["shape"], "via": how, "options": combo}, oc,
                        f"{oc['holder']['name']}.{f['name']}: default {d!r} names entries of its enum {e['values']!r} but " + "; ".join(bad[:3]))
        if len(camp.samples) < 3 and (opts.get("reuse_model") or opts.get("collapse_root_models")):
            camp.samples.append({"options": combo, "kind": oc["model"], "defs": [(d["name"], d["is"]) for d in oc["defs"]],
                                 "fields": [(f["name"], f["shape"], behind_root(oc, f), f.get("default", "<none>")) for f in oc["fields"]]})
    finally:
        pkg.close()


# ---------------------------------------------------------------- generators
def gen_values(rng: Rng) -> tuple[Any, list]:
    p = rng.below(10)
    if p < 6:
        return "string", list(rng.choice(STRING_SETS))
    if p < 8:
        return "integer", list(rng.choice(INT_SETS))
    return None, list(rng.choice(MIXED_SETS))


def near_duplicate(rng: Rng, ty: Any, vals: list) -> tuple[Any, list]:
    """a DIFFERENT enum that looks like (ty, vals): another order, one more entry, another JSON type"""
    p = rng.below(3)
    if p == 0 and len(vals) > 1:
        return ty, [*vals[1:], vals[0]]
    if p == 1:
        return ty, [*vals, "extra" if ty != "integer" else 99]
    if ty == "integer":
        return "string", [str(v) for v in vals]
    return ty, [*vals, "zz9"]


def gen_ocase(rng: Rng, *, okind: str | None = None, combo: dict | None = None, model: str | None = None) -> dict:
    okind = okind or ("dotted" if rng.chance(1, 5) else "single")
    dotted = okind == "dotted"
    opts = {"set_default_enum_member": not rng.chance(1, 12), **(combo if combo is not None else rng.choice(COMBOS))}
    enum_mod, alias_mod, holder_mod = (["shared"], rng.choice([["app"], ["app"], ["lib"]]), ["app"]) if dotted else ([], [], [])
    ty, vals = gen_values(rng)
    defs: list[dict] = []
    targets: list[dict] = []  # what a field can point at: {"to":…, "wrap":…}
    names = list(ENUM_NAMES)
    # the main enum, 1-3 times
    # modular output: the passes are per module. A duplicate dropped in `shared` stays referenced from `app`, a root model of
    # `shared` folded into a field of `app` is written without its module (defects of cross-module reuse / collapse that
    # belong to C12/C02, see the report): the dotted layout keeps to one copy under --reuse-model, to non-nullable enums
    # under --collapse-root-models, and to alias definitions outside the module of their enum
    copies = 1 if dotted and opts.get("reuse_model") else rng.choice([1, 2, 2, 3])
    named = 0
    for i in range(copies):
        nullable = rng.chance(1, 4) and ty == "string" and not (dotted and opts.get("collapse_root_models"))
        v = [*vals, None] if nullable else list(vals)
        if rng.chance(1, 2) or dotted:
            n = names.pop(0)
            defs.append({"name": n, "module": enum_mod, "is": "enum", "type": ty, "values": v})
            targets.append({"to": {"def": n}})
            named += 1
        else:
            targets.append({"to": {"inline": {"type": ty, "values": v}}})
    if rng.chance(1, 3):
        nty, nvals = near_duplicate(rng, ty, vals)
        if rng.chance(1, 2) or dotted:
            n = names.pop(0)
            defs.append({"name": n, "module": enum_mod, "is": "enum", "type": nty, "values": nvals})
            targets.append({"to": {"def": n}})
        else:
            targets.append({"to": {"inline": {"type": nty, "values": nvals}}})
    # a model that only inherits from a (plain) named enum
    plain_named = [d for d in defs if d["is"] == "enum" and None not in d["values"]]
    if plain_named and names and rng.chance(1, 6) and not (dotted and opts.get("reuse_model")):
        n = names.pop(0)
        defs.append({"name": n, "module": enum_mod, "is": "inherit", "target": rng.choice(plain_named)["name"]})
        targets.append({"to": {"def": n}})
    # alias definitions over the named enums
    enum_defs = [d for d in defs if d["is"] == "enum"]
    anames = list(ALIAS_NAMES)
    if enum_defs:
        for _ in range(rng.choice([0, 1, 1, 2, 3])):
            if not anames:
                break
            tgt = rng.choice(enum_defs)
            a: dict[str, Any] = {"name": anames.pop(0), "module": alias_mod, "is": "alias", "target": tgt["name"]}
            if rng.chance(1, 2):
                a["default"] = rng.choice(non_null(tgt))
            defs.append(a)
            targets.append({"to": {"def": a["name"]}})
            if rng.chance(1, 6) and anames:
                a2 = {"name": anames.pop(0), "module": alias_mod, "is": "alias", "target": a["name"]}
                defs.append(a2)
                targets.append({"to": {"def": a2["name"]}})
    defs = rng.shuffle(defs) if rng.chance(1, 2) else defs
    fields: list[dict] = []
    props = list(PROPS)
    inline_used: set = set()
    for t in targets:
        for _ in range(2 if ("def" in t["to"] and rng.chance(1, 4)) else 1):
            if not props:
                break
            key = json.dumps(t["to"], sort_keys=True)
            f: dict[str, Any] = {"name": props.pop(0), "shape": "list" if rng.chance(1, 4) else "scalar", "to": copy.deepcopy(t["to"])}
            if "inline" in t["to"]:
                inline_used.add(key)
            else:
                f["wrap"] = rng.choice(["ref", "ref", "allOf"]) if f["shape"] == "scalar" else "ref"
            e, chain = resolve({"defs": defs, "holder": {"module": holder_mod}}, f["to"])
            nn = non_null(e)
            inherited = f["shape"] == "scalar" and any("default" in a for a in chain)
            if not (inherited and rng.chance(2, 3)):
                p = rng.below(12)
                if p < 9:
                    f["default"] = [rng.choice(nn) for _ in range(rng.range(1, 3))] if f["shape"] == "list" else rng.choice(nn)
                elif p < 10 and not chain and not is_nullable_wrapper(e):
                    # (a root model validates its default: a wrapped non-entry makes `Holder()` raise, which is not C09's business)
                    f["default"] = ["nope"] if f["shape"] == "list" else "nope"  # not an entry: the property says nothing
            fields.append(f)
    fields = rng.shuffle(fields) if rng.chance(1, 3) else fields
    holder = {"name": rng.choice(HOLDERS), "module": holder_mod, "at": "def" if dotted or rng.chance(1, 2) else "root", "pos": rng.below(len(defs) + 1)}
    return {"okind": okind, "model": model or rng.choice(MODELS), "opts": opts, "defs": defs, "holder": holder, "fields": fields}


# ---------------------------------------------------------------- small exhaustive scope (corpus + search)
def scope_shapes() -> list[tuple[str, list[dict], list[dict]]]:
    """(label, defs, fields) over the shapes of the family, small values"""
    s2 = ["p", "q"]
    out: list[tuple[str, list[dict], list[dict]]] = []

    def E(name: str, ty: Any, vals: list) -> dict:
        return {"name": name, "module": [], "is": "enum", "type": ty, "values": vals}

    def A(name: str, target: str, **kw: Any) -> dict:
        return {"name": name, "module": [], "is": "alias", "target": target, **kw}

    def F(name: str, to: dict, shape: str = "scalar", wrap: str = "ref", **kw: Any) -> dict:
        f = {"name": name, "shape": shape, "to": to, **kw}
        if "def" in to:
            f["wrap"] = wrap
        return f

    for ty, vals, d1, d2 in (("string", s2, "q", "p"), ("integer", [0, 1, 2], 0, 2), ("string", ["", "on"], "", "on"), (None, [False, "f"], False, "f")):
        inl = {"inline": {"type": ty, "values": vals}}
        ty_ = f"{ty}:{d1!r}"
        out.append((f"dup:inline+inline:{ty_}", [], [F("first", inl, default=d1), F("second", copy.deepcopy(inl), default=d2)]))
        out.append((f"dup:named+named:{ty_}", [E("Colour", ty, vals), E("Tint", ty, vals)],
                    [F("first", {"def": "Colour"}, default=d1), F("second", {"def": "Tint"}, default=d2)]))
        out.append((f"dup:named+inline+named:{ty_}", [E("Colour", ty, vals), E("Tint", ty, vals)],
                    [F("first", {"def": "Tint"}, wrap="allOf", default=d2), F("second", copy.deepcopy(inl), default=d1),
                     F("third", {"def": "Colour"}, default=d2), F("fourth", {"def": "Tint"}, shape="list", default=[d1, d2])]))
        out.append((f"alias:default_on_alias:{ty_}", [E("Colour", ty, vals), A("Shade", "Colour", default=d2)],
                    [F("first", {"def": "Shade"}), F("second", {"def": "Colour"}, default=d1)]))
        out.append((f"alias:default_on_field:{ty_}", [E("Colour", ty, vals), A("Shade", "Colour"), A("Tone", "Colour")],
                    [F("first", {"def": "Shade"}, default=d1), F("second", {"def": "Tone"}, default=d2),
                     F("third", {"def": "Shade"}, shape="list", default=[d2, d1])]))
    for vals, d in ((["x", "y", None], "y"), (["", "on", None], ""), ([None, "x", "y"], "x")):
        inl = {"inline": {"type": "string", "values": vals}}
        out.append((f"nullable:inline:{d!r}", [], [F("first", inl, default=d)]))
        out.append((f"nullable:named:{d!r}", [E("Colour", "string", vals)],
                    [F("first", {"def": "Colour"}, default=d), F("second", {"def": "Colour"}, shape="list", default=[d])]))
        out.append((f"nullable:dup:{d!r}", [E("Colour", "string", vals), E("Tint", "string", vals)],
                    [F("first", {"def": "Colour"}, default=d), F("second", {"def": "Tint"}, default=d)]))
        out.append((f"nullable:alias:{d!r}", [E("Colour", "string", vals), A("Shade", "Colour", default=d)], [F("first", {"def": "Shade"})]))
    out.append(("near:order", [E("Colour", "string", s2), E("Tint", "string", ["q", "p"])],
                [F("first", {"def": "Colour"}, default="q"), F("second", {"def": "Tint"}, default="p")]))
    out.append(("near:extra", [E("Colour", "string", s2), E("Tint", "string", ["p", "q", "r"])],
                [F("first", {"def": "Colour"}, default="q"), F("second", {"def": "Tint"}, default="p")]))
    out.append(("near:type", [E("Colour", "integer", [1, 2]), E("Tint", "string", ["1", "2"])],
                [F("first", {"def": "Colour"}, default=1), F("second", {"def": "Tint"}, default="2")]))
    out.append(("inherit", [E("Colour", "string", s2), {"name": "Tint", "module": [], "is": "inherit", "target": "Colour"}, A("Shade", "Tint", default="q")],
                [F("first", {"def": "Tint"}, default="q"), F("second", {"def": "Colour"}, default="p"), F("third", {"def": "Shade"}),
                 F("fourth", {"def": "Tint"}, shape="list", default=["p", "q"])]))
    out.append(("alias:chain", [E("Colour", "string", s2), A("Shade", "Colour", default="q"), A("Tone", "Shade")],
                [F("first", {"def": "Tone"}), F("second", {"def": "Tone"}, default="p")]))
    out.append(("alias:two_aliases_one_enum", [E("Colour", "string", s2), A("Shade", "Colour", default="q"), A("Tone", "Colour", default="p")],
                [F("first", {"def": "Shade"}), F("second", {"def": "Tone"})]))
    return out


def scope_ocases(okinds: tuple = ("single",)) -> list[dict]:
    out = []
    for label, defs, fields in scope_shapes():
        for combo in COMBOS:
            for model in MODELS:
                for okind in okinds:
                    oc = {"okind": okind, "model": model, "opts": {"set_default_enum_member": True, **combo},
                          "defs": copy.deepcopy(defs), "holder": {"name": "Holder", "module": [], "at": "root", "pos": 99}, "fields": copy.deepcopy(fields),
                          "label": label}
                    if okind == "dotted":
                        if any("inline" in f["to"] for f in fields):
                            continue
                        # the passes work per module (see gen_ocase): identical enums of `shared` under --reuse-model and a
                        # nullable enum of `shared` under --collapse-root-models are used from `app` — not part of the dotted layout
                        if (combo.get("reuse_model") and label.startswith(("dup:", "nullable:dup"))) or (combo.get("collapse_root_models") and label.startswith("nullable:")):
                            continue
                        if combo.get("reuse_model") and label == "inherit":
                            continue
                        for d in oc["defs"]:
                            d["module"] = ["shared"] if d["is"] in ("enum", "inherit") else ["app"]
                        oc["holder"] = {"name": "Holder", "module": ["app"], "at": "def", "pos": 99}
                    out.append(oc)
    return out


# ---------------------------------------------------------------- campaign, search, corpus
CORPUS: list[dict] = [
    # the shape of the seeded reordering (C09-f), as a family member: duplicates under --reuse-model, roots under --collapse-root-models
    {"okind": "single", "model": "pydantic_v2.BaseModel", "opts": {"set_default_enum_member": True, "reuse_model": True, "collapse_root_models": True},
     "defs": [{"name": "Colour", "module": [], "is": "enum", "type": "string", "values": ["r", "g", "b"]},
              {"name": "Shade", "module": [], "is": "alias", "target": "Colour", "default": "g"}],
     "holder": {"name": "Holder", "module": [], "at": "root", "pos": 9},
     "fields": [{"name": "first", "shape": "scalar", "to": {"inline": {"type": "string", "values": ["p", "q"]}}, "default": "q"},
                {"name": "second", "shape": "scalar", "to": {"inline": {"type": "string", "values": ["p", "q"]}}, "default": "p"},
                {"name": "third", "shape": "scalar", "to": {"inline": {"type": "string", "values": ["x", "y", None]}}, "default": "y"},
                {"name": "fourth", "shape": "scalar", "to": {"def": "Shade"}, "wrap": "ref"},
                {"name": "fifth", "shape": "scalar", "to": {"inline": {"type": "integer", "values": [0, 1, 2]}}, "default": 0}]},
    # modular: an alias definition of the importing module over an enum of another module, folded into the field
    {"okind": "dotted", "model": "pydantic_v2.BaseModel", "opts": {"set_default_enum_member": True, "collapse_root_models": True},
     "defs": [{"name": "Colour", "module": ["shared"], "is": "enum", "type": "string", "values": ["red", "green"]},
              {"name": "Shade", "module": ["app"], "is": "alias", "target": "Colour", "default": "green"}],
     "holder": {"name": "Holder", "module": ["app"], "at": "def", "pos": 9},
     "fields": [{"name": "first", "shape": "scalar", "to": {"def": "Shade"}, "wrap": "ref"},
                {"name": "second", "shape": "list", "to": {"def": "Shade"}, "wrap": "ref", "default": ["red", "green"]},
                {"name": "third", "shape": "scalar", "to": {"def": "Colour"}, "wrap": "allOf", "default": "red"}]},
    # former witnesses of C09-F4 (repaired: __collapse_root_models keeps a root model that is the base class of the `class Tone(Shade): pass`
    # written by __reuse_model): two root models that render alike and are both used, under both options, with and without the conversion,
    # pydantic v2 and v1 — (a) two alias definitions of one enum, (b) two string enums with a null entry and the same entries
    *[{"okind": "single", "model": model, "opts": {"set_default_enum_member": sdem, "reuse_model": True, "collapse_root_models": True},
       "defs": defs, "holder": {"name": "Holder", "module": [], "at": "root", "pos": 9},
       "fields": [{"name": "first", "shape": "scalar", "to": {"def": a}, "wrap": "ref", "default": "q"},
                  {"name": "second", "shape": "scalar", "to": {"def": b}, "wrap": "ref", "default": "p"}]}
      for model in ("pydantic_v2.BaseModel", "pydantic.BaseModel") for sdem in (True, False)
      for a, b, defs in (("Shade", "Tone", [{"name": "Colour", "module": [], "is": "enum", "type": "string", "values": ["p", "q"]},
                                            {"name": "Shade", "module": [], "is": "alias", "target": "Colour"},
                                            {"name": "Tone", "module": [], "is": "alias", "target": "Colour"}]),
                         ("Colour", "Tint", [{"name": "Colour", "module": [], "is": "enum", "type": "string", "values": ["p", "q", None]},
                                             {"name": "Tint", "module": [], "is": "enum", "type": "string", "values": ["p", "q", None]}]))],
    # both options, two identical NULLABLE string enums (the second becomes `class Tint(Colour): pass`, the root model `Colour` stays) and a
    # member that reaches `Colour` through alias definitions: the fold stops at `Optional[Colour]`. Truthy default: validated through the root
    # model (must hold); falsy default "": the route of the REPAIRED finding C09-F3 under the option pair (first met by the random stream,
    # seed 8; the factory was only built for truthy defaults) — must hold as well
    *[{"okind": "single", "model": model, "opts": {"set_default_enum_member": True, "reuse_model": True, "collapse_root_models": True},
       "defs": [{"name": "Colour", "module": [], "is": "enum", "type": "string", "values": ["", "on", None]},
                {"name": "Tint", "module": [], "is": "enum", "type": "string", "values": ["", "on", None]},
                {"name": "Shade", "module": [], "is": "alias", "target": "Colour", "default": "on"},
                {"name": "Tone", "module": [], "is": "alias", "target": "Colour", "default": dflt}],
       "holder": {"name": "Widget", "module": [], "at": "root", "pos": 1},
       "fields": [{"name": "first", "shape": "scalar", "to": {"def": "Colour"}, "wrap": "ref", "default": ""},
                  {"name": "fifth", "shape": "scalar", "to": {"def": "Tone"}, "wrap": "allOf"}]}
      for model in ("pydantic.BaseModel", "pydantic_v2.BaseModel") for dflt in ("on", "")],
    # former witnesses of C09-F6 (repaired: DataModelField.__str__ of the pydantic kinds builds the validating default_factory for every
    # default that is not None, it was `elif self.default and …`): an enum reached through an alias definition (root model `Shade` around
    # `Colour`), WITHOUT --collapse-root-models, and the falsy defaults 0 / "" / false on the field and on the alias definition — must hold
    # in both pydantic kinds (dataclass output: known finding C09-F5)
    *[{"okind": "single", "model": model, "opts": {"set_default_enum_member": True},
       "defs": [{"name": "Colour", "module": [], "is": "enum", "type": ty, "values": vals},
                {"name": "Shade", "module": [], "is": "alias", "target": "Colour"},
                {"name": "Tone", "module": [], "is": "alias", "target": "Colour", "default": d}],
       "holder": {"name": "Holder", "module": [], "at": "root", "pos": 9},
       "fields": [{"name": "first", "shape": "scalar", "to": {"def": "Shade"}, "wrap": "ref", "default": d},
                  {"name": "second", "shape": "scalar", "to": {"def": "Tone"}, "wrap": "ref"}]}
      for model in ("pydantic_v2.BaseModel", "pydantic.BaseModel")
      for ty, vals, d in (("integer", [0, 1, 2], 0), ("string", ["", "on"], ""), (None, [False, "f"], False))],
]


def campaign_order(ck: Check, n: int, *, full_scope: bool = False) -> None:
    camp = ck.campaign("e2e defaults naming enum entries x {--reuse-model, --collapse-root-models, both, neither} (duplicated enums, enums behind "
                       "nullable / alias root models, falsy defaults; one module and dotted definition names): every module imports, the Enum "
                       "classes are the schema's enums, every default that is an entry IS a member of a class of the emitted package")
    t0 = time.time()
    rng = ck.rng.fork("order")
    for oc in CORPUS:
        check_ocase(ck, camp, copy.deepcopy(oc))
    scope = scope_ocases(("single", "dotted") if full_scope else ("single",))
    if not full_scope:
        # quick tier: every shape x every option combination, the model kind rotating (the search hook runs all of them)
        by: dict[tuple, list[dict]] = {}
        for oc in scope:
            by.setdefault((oc["label"], json.dumps(oc["opts"], sort_keys=True)), []).append(oc)
        pick = rng.below(3)
        scope = [v[(i + pick) % len(v)] for i, v in enumerate(by.values())]
    for oc in scope:
        check_ocase(ck, camp, oc)
    for i in range(n):
        check_ocase(ck, camp, gen_ocase(rng, combo=COMBOS[i % 4] if i % 2 else None))
    camp.wall_s = time.time() - t0


ORDER_THEOREMS = ("parse_passes_recognised", "parse_pass_order_ok", "parse_defaults_are_live_members")


def order_broken(ck: Check) -> bool:
    """is it the ORDER of the passes that no longer checks (and not everything, as when a dependency does not build)?"""
    specific = any(t in ck.broken for t in ORDER_THEOREMS) and len(ck.broken) < max(1, len(ck.theorems))
    return specific or any("[ParsePasses]" in d.campaign for d in ck.disagreements)


def search_order(ck: Check, *, budget_s: float = 60.0) -> None:
    """The order obligation of Props/C09 (`parse_pass_order_ok`) or the pass correspondence broke: run the whole small scope of the
    family (every shape x 4 option combinations x 3 kinds, one module first, then dotted names), then random members, until the
    property's own oracle fails on the real code. Bounded by `budget_s`."""
    camp = ck.campaign("search: the reuse / collapse / default-member family, whole small scope (shapes x 4 option combinations x 3 kinds), then random members")
    t0 = time.time()
    for oc in [copy.deepcopy(c) for c in CORPUS] + scope_ocases(("single",)) + scope_ocases(("dotted",)):
        check_ocase(ck, camp, oc)
        if ck.failures or time.time() - t0 > budget_s:
            camp.wall_s = time.time() - t0
            return
    rng = Rng(ck.seed, "c09-order-search")
    while time.time() - t0 < budget_s and camp.evaluations < 3000:
        check_ocase(ck, camp, gen_ocase(rng))
        if ck.failures:
            break
    camp.wall_s = time.time() - t0


def search_order_first(ck: Check) -> None:
    """registered in front of the other search hooks: only when it is the ORDER of the passes that no longer checks"""
    if order_broken(ck):
        ck.notes["search_order"] = "ran first: the pass-order obligation / pass correspondence is broken"
        search_order(ck)


def search_order_last(ck: Check) -> None:
    if not order_broken(ck):
        search_order(ck, budget_s=40.0)


# ---------------------------------------------------------------- the real passes in another order (harness-side, nothing in /repo changes)
_LOOP_PASSES: list[str] | None = None


def loop_passes() -> list[str]:
    """names (as written, without the two leading underscores) of the `self.__xxx(...)` calls in the per-module loop of Parser.parse"""
    global _LOOP_PASSES
    if _LOOP_PASSES is None:
        from ..translate import parse_passes

        _LOOP_PASSES = [n for n, _ in parse_passes.extract()[0]]
    return list(_LOOP_PASSES)


class permuted_passes:
    """Context manager: inside it `Parser.parse` runs the post-passes of its per-module loop in the order `order` (a permutation of
    `loop_passes()`). Each pass is replaced by a recorder of its arguments; when the last one of an iteration has been recorded,
    the original passes run in `order` with the recorded arguments (the arguments are the per-iteration mutable objects — the list
    of models, the module's imports, its resolver — so this is what the loop body would do had it been written in that order).
    `spy[name]` is called with (parser, *arguments) in front of the named pass, `spy["<end>"]` after the last one."""

    def __init__(self, order: list[str], spy: dict | None = None) -> None:
        self.order = list(order)
        self.spy = spy or {}
        self.saved: dict[str, Any] = {}

    @staticmethod
    def _classes() -> list[type]:
        """Parser and its subclasses: `@snooper_to_methods()` re-binds every plain method on the concrete parser classes, so
        `JsonSchemaParser.__dict__` has its own `_Parser__reuse_model`, … (the classmethods stay on Parser only)"""
        from datamodel_code_generator.parser.base import Parser
        import datamodel_code_generator.parser.graphql  # noqa: F401
        import datamodel_code_generator.parser.jsonschema  # noqa: F401
        import datamodel_code_generator.parser.openapi  # noqa: F401

        out, todo = [], [Parser]
        while todo:
            c = todo.pop()
            if c not in out:
                out.append(c)
                todo += c.__subclasses__()
        return out

    def __enter__(self) -> "permuted_passes":
        from datamodel_code_generator.parser.base import Parser

        names = loop_passes()
        if sorted(names) != sorted(self.order):
            raise ValueError(f"not a permutation of the passes of the loop: {sorted(set(names) ^ set(self.order))}")
        origs = {n: Parser.__dict__["_Parser__" + n] for n in names}
        self.saved = {(c, n): c.__dict__["_Parser__" + n] for c in self._classes() for n in names if "_Parser__" + n in c.__dict__}
        order, spy = self.order, self.spy

        def make(name: str):
            def recorder(self_, *args: Any, **kw: Any) -> None:
                pending = self_.__dict__.setdefault("_dcgverif_pending", {})
                pending[name] = (args, kw)
                if len(pending) == len(names):
                    self_.__dict__["_dcgverif_pending"] = {}
                    for n in order:
                        a, k = pending[n]
                        if n in spy:
                            spy[n](self_, *a)
                        origs[n].__get__(self_, type(self_))(*a, **k)
                    if "<end>" in spy:
                        spy["<end>"](self_, *pending[order[-1]][0])

            return recorder

        for (c, n) in self.saved:
            setattr(c, "_Parser__" + n, make(n))
        return self

    def __exit__(self, *exc: Any) -> None:
        for (c, n), o in self.saved.items():
            setattr(c, "_Parser__" + n, o)


# ---------------------------------------------------------------- correspondence: abstract pass semantics vs the real passes, any order
FOUR = ["set_reference_default_value_to_field", "reuse_model", "collapse_root_models", "set_default_enum_member"]
PERMS4 = [[a, b, c, d] for a in FOUR for b in FOUR for c in FOUR for d in FOUR if len({a, b, c, d}) == 4]
VALS = [f"v{i}" for i in range(6)]


def gen_pcase(rng: Rng) -> dict:
    """a one-module document of named string enums (some identical, some with a null entry), alias definitions over the plain
    ones, a holder whose members refer to them; an option vector; an order of the four passes"""
    sets = [VALS[:2], VALS[:2], VALS[1:4], VALS[:3], [VALS[4], VALS[0]]]
    base = rng.choice(sets)
    defs: list[dict] = []
    names = list(ENUM_NAMES)
    for i in range(rng.choice([1, 2, 2, 3])):
        vals = list(base) if i == 0 or rng.chance(2, 3) else list(rng.choice(sets))
        if rng.chance(1, 4):
            vals = [*vals, None]
        defs.append({"name": names.pop(0), "module": [], "is": "enum", "type": "string", "values": vals})
    plain = [d for d in defs if None not in d["values"]]
    anames = list(ALIAS_NAMES)
    for _ in range(rng.choice([0, 1, 1, 2])):
        if not plain:
            break
        t = rng.choice(plain)
        a: dict[str, Any] = {"name": anames.pop(0), "module": [], "is": "alias", "target": t["name"]}
        if rng.chance(1, 2):
            a["default"] = rng.choice(t["values"])
        defs.append(a)
    fields: list[dict] = []
    props = list(PROPS)
    for d in defs:
        for _ in range(2 if rng.chance(1, 4) else 1):
            if not props:
                break
            f: dict[str, Any] = {"name": props.pop(0), "shape": "scalar", "to": {"def": d["name"]}, "wrap": "ref"}
            e, _ = resolve({"defs": defs, "holder": {"module": []}}, f["to"])
            if rng.chance(2, 3):
                f["default"] = rng.choice(non_null(e))
            fields.append(f)
    opts = {"set_default_enum_member": not rng.chance(1, 10), **rng.choice(COMBOS)}
    return {"okind": "single", "model": rng.choice(["pydantic_v2.BaseModel", "pydantic.BaseModel", "dataclasses.dataclass"]), "opts": opts,
            "defs": rng.shuffle(defs) if rng.chance(1, 3) else defs, "holder": {"name": "Holder", "module": [], "at": "root", "pos": 9},
            "fields": fields, "four": rng.choice(PERMS4)}


def full_order(four: list[str]) -> list[str]:
    """the passes of the loop with the four modelled ones permuted inside the positions they occupy in the source"""
    names = loop_passes()
    it = iter(four)
    return [next(it) if n in FOUR else n for n in names]


class _Abstraction:
    """real model lists → `Dcg.Model.ParsePasses.St` (ids by reference path, values by their index in VALS)"""

    def __init__(self) -> None:
        self.ids: dict[str, int] = {}
        self.problem: str | None = None

    def id_of(self, model: Any) -> int:
        return self.ids.setdefault(model.reference.path, len(self.ids) + 1)

    def val(self, v: Any) -> int | None:
        s = str(v).strip("'\"")
        if s in VALS:
            return VALS.index(s)
        self.problem = self.problem or f"value {v!r}"
        return None

    def target(self, parser: Any, data_type: Any) -> tuple[str, int] | None:
        from datamodel_code_generator.model.enum import Enum as EnumModel

        for dt in data_type.all_data_types:
            if dt.reference is not None:
                src = dt.reference.source
                if isinstance(src, EnumModel):
                    return ("e", self.id_of(src))
                if isinstance(src, parser.data_model_root_type):
                    return ("r", self.id_of(src))
                self.problem = self.problem or f"reference to {type(src).__name__}"
                return None
        return None

    def fields(self, parser: Any, models: list) -> list[str]:
        from datamodel_code_generator.model.enum import Member

        out = []
        holder = next((m for m in models if m.class_name == "Holder"), None)
        if holder is None:
            self.problem = self.problem or "no Holder"
            return out
        for f in holder.fields:
            t = self.target(parser, f.data_type)
            if t is None:
                self.problem = self.problem or f"field {f.name} has no modelled type"
                continue
            d = f.default
            if isinstance(d, Member):
                dv = f"m {self.id_of(d.enum)} {self.val(d.field.default)}"
            elif d is None:
                dv = "-"
            else:
                dv = f"r {self.val(d)}"
            out.append(f"{t[0]} {t[1]} {dv}")
        return out

    def initial(self, parser: Any, models: list) -> tuple[list[str], list[str], list[str]]:
        from datamodel_code_generator.model.base import UNDEFINED
        from datamodel_code_generator.model.enum import Enum as EnumModel
        from datamodel_code_generator.parser.base import to_hashable

        keys: list[Any] = []
        classes, roots = [], []
        for m in models:
            if isinstance(m, EnumModel):
                k = tuple(to_hashable(v) for v in (m.render(class_name="M"), m.imports))
                if k not in keys:
                    keys.append(k)
                classes.append(f"({self.id_of(m)} {keys.index(k)})")
        for m in models:
            if isinstance(m, parser.data_model_root_type):
                t = self.target(parser, m.fields[0].data_type)
                if t is None or t[0] != "e":
                    self.problem = self.problem or "root model not around an enum"
                    continue
                d = "-" if m.default is UNDEFINED or m.default is None else str(self.val(m.default))
                roots.append(f"({self.id_of(m)} {t[1]} {d})")
        return classes, roots, [f"({f})" for f in self.fields(parser, models)]

    def final(self, parser: Any, models: list) -> str:
        from datamodel_code_generator.model.enum import Enum as EnumModel

        live = sorted({self.id_of(m) for m in models if isinstance(m, EnumModel)})
        fs = []
        for f in self.fields(parser, models):
            p = f.split(" ")
            fs.append(f"{p[0]}{p[1]}:" + ("-" if p[2] == "-" else f"r{p[3]}" if p[2] == "r" else f"m{p[3]}.{p[4]}"))
        return "ok (" + " ".join(map(str, live)) + ") (" + " ".join(fs) + ")"


def canon_reply(rep: str) -> str:
    if not rep.startswith("ok ("):
        return rep
    head, _, rest = rep[4:].partition(") ")
    return "ok (" + " ".join(map(str, sorted(int(x) for x in head.split()))) + ") " + rest


def campaign_passes(ck: Check, n: int) -> None:
    """`Dcg.Model.ParsePasses.run` (abstract semantics of __set_reference_default_value_to_field, __reuse_model, __collapse_root_models,
    __set_default_enum_member) against the REAL passes, run by `permuted_passes` in every order of the four, on real model lists"""
    camp = ck.campaign("passes.run (Model.ParsePasses.run: live Enum classes, field types and defaults) vs the real post-passes of Parser.parse run "
                       "in a permuted order on the models of small documents; passes.order vs the extracted call list [ParsePasses]")
    t0 = time.time()
    rng = ck.rng.fork("passes")
    from ..translate import parse_passes

    # the order predicate of the driver on the extracted list (the same value the kernel decides in Props/C09)
    calls, problem = parse_passes.extract()
    rep = ck.driver.run(["passes.order (" + " ".join(f"({n_} {int(g)})" for n_, g in calls) + ")"])[0]
    camp.evaluations += 1
    camp.hit("order_predicate:" + rep.split(" ")[0])
    ck.notes["parse_pass_order"] = {"calls": [n_ for n_, _ in calls], "predicate": rep, "problem": problem}
    names = [n_ for n_, _ in calls]
    if problem or sorted(set(FOUR) - set(names)) or len(names) != len(set(names)):
        # the loop is not what the permuting harness needs (a pass is missing / doubled): the obligation is broken anyway
        camp.unmodelled += n
        camp.wall_s = time.time() - t0
        return
    cases = PCORPUS + [gen_pcase(rng) for _ in range(n)]
    reqs, metas = [], []
    for pc in cases:
        camp.evaluations += 1
        ab = _Abstraction()
        snap: dict[str, Any] = {}
        order = full_order(pc["four"])

        def at_start(parser: Any, models: list, *_: Any) -> None:
            if "init" not in snap:  # the root module `__init__` of a one-module document: the only iteration with models
                if any(m.class_name == "Holder" for m in models):
                    snap["init"] = ab.initial(parser, models)
                    # the options as the parser has them (generate() switches set_default_enum_member on for dataclass output)
                    snap["opts"] = tuple(int(bool(getattr(parser, k))) for k in ("reuse_model", "collapse_root_models", "set_default_enum_member"))

        def at_end(parser: Any, models: list, *_: Any) -> None:
            if "init" in snap and "final" not in snap:
                snap["final"] = ab.final(parser, models)

        with permuted_passes(order, {pc["four"][0]: at_start, "<end>": at_end}):
            res = observe(pc)
        o = pc["opts"]
        combo = "+".join(k for k in ("reuse_model", "collapse_root_models") if o.get(k)) or "neither"
        if not res.ok or "final" not in snap or ab.problem:
            camp.unmodelled += 1
            camp.hit("unmodelled:" + (res.error_type or ab.problem or "no snapshot"))
            continue
        cl, ro, fl = snap["init"]
        reqs.append(f"passes.run {' '.join(map(str, snap['opts']))} "
                    f"({' '.join(order)}) ({' '.join(cl)}) ({' '.join(ro)}) ({' '.join(fl)})")
        metas.append((pc, snap["final"], combo))
    for (pc, impl, combo), rep in zip(metas, ck.driver.run(reqs)):
        camp.hit("options:" + combo)
        camp.hit("order:" + ">".join(x.split("_")[0] + ("R" if x == "set_reference_default_value_to_field" else "") for x in pc["four"]))
        if " m" in impl or ":m" in impl:
            camp.hit("has_member_default")
        if ":r" in impl:
            camp.hit("has_raw_default_left")
        camp.distinct.add(json.dumps(pc, sort_keys=True, default=str))
        if canon_reply(rep) != impl:
            ck.disagree(camp, pc, canon_reply(rep), impl)
        elif len(camp.samples) < 2 and combo != "neither" and pc["four"] != FOUR:
            camp.samples.append({"four": pc["four"], "options": combo, "final": impl})
    camp.wall_s = time.time() - t0


def _pc(defs: list[dict], fields: list[dict], four: list[str], **opts: Any) -> dict:
    return {"okind": "single", "model": "pydantic_v2.BaseModel", "opts": {"set_default_enum_member": True, **opts}, "defs": defs,
            "holder": {"name": "Holder", "module": [], "at": "root", "pos": 9}, "fields": fields, "four": four}


def _E(name: str, vals: list) -> dict:
    return {"name": name, "module": [], "is": "enum", "type": "string", "values": vals}


def _F(name: str, target: str, **kw: Any) -> dict:
    return {"name": name, "shape": "scalar", "to": {"def": target}, "wrap": "ref", **kw}


_DUP = [_E("Colour", ["v0", "v1"]), _E("Tint", ["v0", "v1"])]
_DUPF = [_F("first", "Colour", default="v1"), _F("second", "Tint", default="v0")]
_ROOT = [_E("Colour", ["v0", "v1", None]), _E("Tint", ["v0", "v1"]), {"name": "Shade", "module": [], "is": "alias", "target": "Tint", "default": "v1"}]
_ROOTF = [_F("first", "Colour", default="v1"), _F("second", "Shade"), _F("third", "Shade", default="v0")]
PCORPUS: list[dict] = [
    _pc(_DUP, _DUPF, FOUR, reuse_model=True),
    _pc(_DUP, _DUPF, ["set_reference_default_value_to_field", "set_default_enum_member", "reuse_model", "collapse_root_models"], reuse_model=True),
    _pc(_ROOT, _ROOTF, FOUR, collapse_root_models=True),
    _pc(_ROOT, _ROOTF, ["set_reference_default_value_to_field", "set_default_enum_member", "reuse_model", "collapse_root_models"], collapse_root_models=True),
    _pc(_ROOT, _ROOTF, ["collapse_root_models", "set_reference_default_value_to_field", "reuse_model", "set_default_enum_member"], collapse_root_models=True, reuse_model=True),
    _pc(_ROOT, _ROOTF, FOUR),
]


def campaigns(ck: Check, quick: bool) -> None:
    """everything of this file that runs in the main check"""
    campaign_passes(ck, 200 if quick else 2400)
    campaign_order(ck, 260 if quick else 2600, full_scope=not quick)
