"""C05, name capture inside a class body: the default expression of a member (`field(default_factory=…)`,
`Field(…)`, `Color.red`, …) is evaluated when the class is created, and a bare name in it is looked up in
the CLASS namespace first — an EARLIER member of the same class that bears that very name and has a
class-level value (`list: Optional[str] = None`) hides the builtin / helper / class the expression means.

Documents: one object with a non-required member NAMED like such a name ("capturer"), followed (or
preceded) by members with defaults ("victims"). Oracle = the property's own, read off the document:
every non-required member may be omitted (construct the class with the required members only) and then
reads as None, or as the schema's default (equal value, not shared between two instances).
The mechanism of a failure is read off the emitted class statically (which earlier class-level binding a
later default expression / annotation mentions), never off a model."""
from __future__ import annotations

import ast
import builtins
import copy
import dataclasses
import enum
import json
import os
import time
from concurrent.futures import ProcessPoolExecutor

from .. import e2e
from ..runner import Check
from . import c05

# ---------------------------------------------------------------- documents
VICTIMS = {
    # key: (JSON name, member schema)
    "listE": ("tags", {"type": "array", "items": {"type": "string"}, "default": []}),
    "listN": ("chans", {"type": "array", "items": {"type": "string"}, "default": ["a"]}),
    "dictE": ("labels", {"type": "object", "additionalProperties": {"type": "string"}, "default": {}}),
    "dictN": ("attrs", {"type": "object", "additionalProperties": {"type": "integer"}, "default": {"k": 1}}),
    "setE": ("uniq", {"type": "array", "uniqueItems": True, "items": {"type": "string"}, "default": []}),
    "str": ("locale", {"type": "string", "default": "en"}),
    "strC": ("code", {"type": "string", "maxLength": 4, "default": "x"}),
    "int": ("count", {"type": "integer", "default": 7}),
    "alias": ("foo-bar", {"type": "string", "default": "q"}),
    "nodefault": ("note", {"type": "string"}),
    "enum": ("colour", {"$ref": "#/$defs/Color", "default": "red"}),
    "model": ("sub", {"$ref": "#/$defs/Sub", "default": {"a": 1}}),
}
DEFS = {
    "Color": {"type": "string", "enum": ["red", "green"]},
    "Sub": {"type": "object", "properties": {"a": {"type": "integer"}}},
}
BASE_NAMES = ["list", "dict", "set", "str", "int", "field", "Field"]
OWN_NAMES = ["Color", "Sub", "M"]  # the enum / the referenced class / the class itself
CAP_FORMS = ["nodefault", "strdefault", "required"]  # the capturer: optional (None), with a string default, listed in `required`
CAPTURE_OPTS = ["set_default_enum_member", "field_constraints", "use_default_kwarg", "use_standard_collections",
                "snake_case_field", "use_annotated", "strict_nullable", "use_union_operator",
                "apply_default_values_for_required_fields", "force_optional_for_required_fields",
                "use_generic_container_types"]


def norm_case(c: dict) -> dict:
    c = dict(c)
    c.setdefault("dialect", "js")
    c.setdefault("form", "nodefault")
    c.setdefault("position", "before")
    c.setdefault("opts", {})
    c.setdefault("victims", [])
    c.setdefault("extra", None)  # a free-standing victim: [JSON name, member schema, in required?]
    return c


def build_doc(c: dict) -> tuple[dict, str]:
    c = norm_case(c)
    cap = {"type": "string"}
    if c["form"] == "strdefault":
        cap["default"] = "zz"
    vict: list[tuple[str, dict]] = [(VICTIMS[k][0], copy.deepcopy(VICTIMS[k][1])) for k in c["victims"]]
    required = ["id"]
    if c["extra"]:
        vict.append((c["extra"][0], copy.deepcopy(c["extra"][1])))
        if c["extra"][2]:
            required.append(c["extra"][0])
    vict = [(n, m) for n, m in vict if n != c["name"]]
    props: dict = {"id": {"type": "integer"}}
    if c["position"] == "before":
        props[c["name"]] = cap
    for n, m in vict:
        props[n] = m
    if c["position"] != "before":
        props[c["name"]] = cap
    if c["form"] == "required":
        required.append(c["name"])
    defs = {k: copy.deepcopy(v) for k, v in DEFS.items() if any(m.get("$ref", "").endswith("/" + k) for _, m in vict)}
    obj = {"type": "object", "required": required, "properties": props}
    if c["dialect"] == "oa":
        for _, m in props.items():
            if "$ref" in m:
                m["$ref"] = m["$ref"].replace("#/$defs/", "#/components/schemas/")
        return ({"openapi": "3.1.0" if '"null"' in json.dumps(obj) else "3.0.3", "info": {"title": "t", "version": "1"}, "paths": {},
                 "components": {"schemas": {"M": obj, **defs}}}, "openapi")
    doc = {"title": "M", **obj}
    if defs:
        doc["$defs"] = defs
    return doc, "jsonschema"


def case_key(c: dict) -> str:
    c = norm_case(c)
    o = ",".join(sorted(k for k, val in c["opts"].items() if val)) or "-"
    ex = "" if not c["extra"] else " +" + json.dumps(c["extra"][1], sort_keys=True)
    return f"{c05.KIND_TAG[c['kind']]} {c['dialect']} member `{c['name']}` ({c['form']}, {c['position']}) victims={'.'.join(c['victims'])}{ex} opts={o}"


# ---------------------------------------------------------------- static reading of the emitted class (mechanism only)
def eager_names(e: ast.AST | None) -> list[tuple[str, str]]:
    """(name, use) of the bare names an expression reads WHEN IT IS EVALUATED (bodies of lambdas are
    not: they run later and see module globals, not the class namespace)."""
    out: list[tuple[str, str]] = []

    def walk(n: ast.AST, use: str) -> None:
        if isinstance(n, ast.Lambda):
            for d in list(n.args.defaults) + [x for x in n.args.kw_defaults if x is not None]:
                walk(d, "default_expression")
            return
        if isinstance(n, ast.Name):
            out.append((n.id, use))
            return
        if isinstance(n, ast.Call):
            walk(n.func, "field_call" if isinstance(n.func, ast.Name) else "default_expression")
            for a in n.args:
                walk(a, "call_argument")
            for kw in n.keywords:
                walk(kw.value, "default_factory_argument" if kw.arg == "default_factory" else "call_argument")
            return
        if isinstance(n, ast.Attribute):
            walk(n.value, "attribute_of_name" if isinstance(n.value, ast.Name) else use)
            return
        for ch in ast.iter_child_nodes(n):
            walk(ch, use)

    if e is not None:
        walk(e, "default_expression")
    return out


def all_names(e: ast.AST | None) -> list[str]:
    return [] if e is None else [n.id for n in ast.walk(e) if isinstance(n, ast.Name)]


def free_names_of_line(line: str) -> tuple[list[str], list[str]]:
    """(names read when the default expression of the member line is evaluated, all names of it)"""
    try:
        st = ast.parse("class _:\n " + line.strip()).body[0].body[0]
    except SyntaxError:
        return [], []
    val = getattr(st, "value", None)
    eager = []
    for n, _ in eager_names(val):
        if n not in eager:
            eager.append(n)
    every = []
    for n in all_names(val):
        if n not in every:
            every.append(n)
    return eager, every


def name_class(name: str, tree: ast.Module) -> str:
    if name in ("Field", "field"):
        return "field_helper"
    for st in tree.body:
        if isinstance(st, ast.ClassDef) and st.name == name:
            is_enum = any(c05._name(b) in ("Enum", "IntEnum", "StrEnum") for b in st.bases)
            return "local_enum" if is_enum else "local_class"
        if isinstance(st, ast.ImportFrom) and any((a.asname or a.name) == name for a in st.names):
            return "typing_name" if st.module in ("typing", "typing_extensions") else "imported_name"
        if isinstance(st, ast.Assign) and any(isinstance(t, ast.Name) and t.id == name for t in st.targets):
            return "local_class"
    if hasattr(builtins, name):
        return "builtin"
    return "other"


def captures(code: str, cls: str = "M") -> list[dict]:
    """Every use of a name, in the body of class `cls`, that an earlier statement of the same body bound:
    {name, name_class, use, hider, victim}. `use` = field_call / default_factory_argument /
    attribute_of_name / call_argument / default_expression (all evaluated while the class body runs)
    or annotation (evaluated by the library when it builds the class)."""
    try:
        tree = ast.parse(code)
    except SyntaxError:
        return []
    out = []
    for c in tree.body:
        if not (isinstance(c, ast.ClassDef) and c.name == cls):
            continue
        bound: list[str] = []
        for st in c.body:
            if not isinstance(st, ast.AnnAssign) or not isinstance(st.target, ast.Name):
                continue
            for n, use in eager_names(st.value):
                if n in bound:
                    out.append({"name": n, "name_class": name_class(n, tree), "use": use, "victim": st.target.id})
            if st.value is not None:
                bound.append(st.target.id)
        bound_all = set(bound)
        for st in c.body:
            if isinstance(st, ast.AnnAssign) and isinstance(st.target, ast.Name):
                ann = st.annotation
                if isinstance(ann, ast.Constant) and isinstance(ann.value, str):
                    try:
                        ann = ast.parse(ann.value, mode="eval").body
                    except SyntaxError:
                        continue
                for n in all_names(ann):
                    if n in bound_all:
                        out.append({"name": n, "name_class": name_class(n, tree), "use": "annotation", "victim": st.target.id})
    return out


# ---------------------------------------------------------------- the oracle (omit and read)
def _plain(val):
    if isinstance(val, enum.Enum):
        return val.value
    if dataclasses.is_dataclass(val) and not isinstance(val, type):
        return dataclasses.asdict(val)
    for m in ("model_dump", "dict"):
        f = getattr(val, m, None)
        if callable(f) and not isinstance(val, dict):
            try:
                return f(exclude_unset=True) if m == "model_dump" else f(exclude_unset=True)
            except Exception:  # noqa: BLE001
                return val
    if isinstance(val, (set, frozenset)):
        return sorted(val)
    return val


def _field_names(cls_name: str = "M") -> dict[str, str] | None:
    """JSON name -> Python name of the members of the model, from the captured parser"""
    p = c05._captured.get("parser")
    if p is None or c05._capture_error:
        return None
    for m in p.results:
        if getattr(m, "class_name", None) == cls_name:
            return {(f.original_name or f.name): f.name for f in m.fields if f.name}
    return None


def _present(member: dict):
    """a valid value for a member that is supplied"""
    if member.get("default") is not None:
        return copy.deepcopy(member["default"])
    for comb in ("anyOf", "oneOf"):
        if comb in member:
            alts = [a for a in member[comb] if a.get("type") != "null"]
            return _present(alts[0]) if alts else None
    t = member.get("type")
    if isinstance(t, list):
        t = next((x for x in t if x != "null"), None)
    return c05.PRESENT.get(t, 1)


def judge(code: str, kind: str, doc_obj: dict, names: dict[str, str] | None, cls: str = "M") -> list[dict]:
    """Clauses of C05 (omission of non-required members) that fail on the exec'd class:
    [{clause, member, detail}] — at most one entry when the class cannot be created at all."""
    props = doc_obj["properties"]
    required = set(doc_obj.get("required", []))
    names = names or {}
    py = {j: names.get(j, j) for j in props}
    supplied_json = {j: _present(props[j]) for j in required}
    try:
        mod = e2e.load_module(code, kind)
    except BaseException as e:  # noqa: BLE001
        return [{"clause": "class_creation", "member": None, "detail": f"{type(e).__name__}: {str(e)[:120]}"}]
    out: list[dict] = []
    try:
        M = getattr(mod, cls)
        if kind == "typing.TypedDict":
            return out  # no defaults, nothing is evaluated in the class body (the rest is the vector campaigns')
        if kind in ("pydantic.BaseModel", "pydantic_v2.BaseModel"):
            parse = M.model_validate if kind == "pydantic_v2.BaseModel" else M.parse_obj
            make = lambda: parse(dict(supplied_json))  # noqa: E731
        else:
            make = lambda: M(**{py[j]: val for j, val in supplied_json.items()})  # noqa: E731
        try:
            a, b = make(), make()
        except BaseException as e:  # noqa: BLE001
            return [{"clause": "optional_omittable", "member": None,
                     "detail": f"all non-required members omitted is rejected: {type(e).__name__}: {str(e)[:120]}"}]
        for j, member in props.items():
            if j in required:
                continue
            try:
                val, other = getattr(a, py[j]), getattr(b, py[j])
            except AttributeError as e:
                out.append({"clause": "optional_reads_none", "member": j, "detail": f"AttributeError: {e}"})
                continue
            if "default" not in member or member["default"] is None:
                if val is not None:
                    out.append({"clause": "optional_reads_none", "member": j, "detail": f"omitted member reads as {val!r}"})
                continue
            want = member["default"]
            got = _plain(val)
            if not (c05._same(got, want) or (isinstance(want, list) and member.get("uniqueItems") and sorted(got) == sorted(want))):
                out.append({"clause": "default_value", "member": j, "detail": f"omitted member reads as {val!r}, schema default is {want!r}"})
            elif isinstance(val, (list, dict, set)) and val is other:
                out.append({"clause": "mutable_default_not_shared", "member": j, "detail": "the default object is shared between instances"})
    except BaseException as e:  # noqa: BLE001
        out.append({"clause": "class_creation", "member": None, "detail": f"introspection: {type(e).__name__}: {str(e)[:120]}"})
    finally:
        e2e.unload(mod)
    return out


def static_msgspec(code: str) -> list[dict]:
    """msgspec is not installed: authored reading — a default expression evaluated in the class body that
    mentions an earlier class-level binding does not mean what the generator wrote."""
    caps = [c for c in captures(code) if c["use"] != "annotation"]
    return [{"clause": "class_creation", "member": caps[0]["victim"],
             "detail": f"(read statically) the default expression of `{caps[0]['victim']}` reads the member `{caps[0]['name']}` of the class"}] if caps else []


def run_case(c: dict) -> dict:
    """one case through the real generator + the oracle (runs in a worker process)"""
    c = norm_case(c)
    c05._install_capture()
    c05._captured.clear()
    doc, ift = build_doc(c)
    r = e2e.run_generate(doc, input_file_type=ift, model=c["kind"], opts={k: True for k, val in c["opts"].items() if val})
    if not r.ok:
        return {"error": f"{r.error_type}: {r.error_msg[:200]}", "hang": r.hang, "document": doc}
    obj = doc if ift == "jsonschema" else doc["components"]["schemas"]["M"]
    try:
        names = _field_names()
    except Exception:  # noqa: BLE001
        names = None
    if c["kind"] == "msgspec.Struct":
        fails = static_msgspec(r.code)
    else:
        fails = judge(r.code, c["kind"], obj, names)
    caps = captures(r.code)
    body = r.code.split("class M", 1)[-1]
    pyname = (names or {}).get(c["name"], c["name"])
    return {"fails": fails, "captures": caps, "document": doc, "code": "class M" + body[:700], "survives": pyname == c["name"],
            "lines": [ln.strip() for ln in body.splitlines()[1:] if ln.strip()][:12]}


def _worker(cases: list[dict]) -> list[dict]:
    import warnings

    warnings.simplefilter("ignore")
    return [run_case(c) for c in cases]


def run_cases(cases: list[dict]) -> list[dict]:
    if len(cases) < 24:
        return _worker(cases)
    n = max(1, min(14, (os.cpu_count() or 2) - 1))
    size = max(3, min(32, len(cases) // (n * 3) + 1))
    chunks = [cases[i : i + size] for i in range(0, len(cases), size)]
    with ProcessPoolExecutor(max_workers=n, initializer=c05._init_worker, initargs=(e2e.scratch_root(),)) as ex:
        return [x for ch in ex.map(_worker, chunks) for x in ch]


def classify(c: dict, res: dict, f: dict) -> dict:
    """classification of an oracle failure; the mechanism is `member_captures_name` when the emitted
    class shows the capture that explains it (a default expression for failures while the class body
    runs / at omission; an annotation for failures while the library builds the class)"""
    caps = res.get("captures") or []
    eager = [x for x in caps if x["use"] != "annotation"]
    pick = None
    if f["member"] is not None:
        py = f["member"].replace("-", "_")
        pick = next((x for x in eager if x["victim"] in (f["member"], py)), None)
    if pick is None:
        pick = eager[0] if eager else (caps[0] if caps and f["clause"] == "class_creation" else None)
    cl = {"clause": f["clause"], "kind": c05.KIND_TAG[c["kind"]], "family": "name_capture", "model_predicts": False}
    if pick is None:
        return {**cl, "mechanism": "other"}
    return {**cl, "mechanism": "member_captures_name", "captured_name": pick["name"], "name_class": pick["name_class"], "use": pick["use"]}


def evaluate_case(ck: Check, camp, c: dict, res: dict, record: bool = True) -> list[dict]:
    c = norm_case(c)
    key = case_key(c)
    camp.evaluations += 1
    camp.hit(f"kind:{c05.KIND_TAG[c['kind']]}")
    camp.hit(f"member-named:{c['name']}")
    camp.hit(f"capturer:{c['form']}/{c['position']}")
    inp = {"capture_case": c, "key": key, "document": res.get("document")}
    if "error" in res:
        camp.hit("generator_error")
        if record:
            ck.fail({"clause": "generation", "kind": c05.KIND_TAG[c["kind"]], "mechanism": "generator_error", "family": "name_capture", "model_predicts": False},
                    inp, res["error"])
        return []
    camp.distinct.add(key)
    camp.hit("name-kept" if res["survives"] else "name-rewritten-by-the-generator")
    for x in {(x["name_class"], x["use"]) for x in res["captures"]}:
        camp.hit(f"emitted-class-shows-capture:{x[0]}/{x[1]}")
    out = []
    seen = set()
    for f in res["fails"]:
        cl = classify(c, res, f)
        sig = json.dumps(cl, sort_keys=True)
        if sig in seen:
            continue
        seen.add(sig)
        out.append(cl)
        camp.hit("fails:" + f["clause"])
        if record:
            ck.fail(cl, {**inp, "emitted": res["lines"]}, f"{f['detail']} — member {f['member']!r}; emitted: {res['lines']}",
                    "a non-required member may be omitted and then reads as None / the schema's default")
    if not res["fails"]:
        camp.hit("all-members-omittable-and-read-as-default")
        if len(camp.samples) < 2:
            camp.samples.append({"case": key, "lines": res["lines"][:4]})
    return out


def run_batch(ck: Check, camp, cases: list[dict]) -> None:
    t0 = time.time()
    for c, res in zip(cases, run_cases(cases)):
        evaluate_case(ck, camp, c, res)
    camp.wall_s += time.time() - t0


# ---------------------------------------------------------------- the always-run stratum
def stratum(ck: Check, quick: bool) -> list[dict]:
    """member named like a builtin / the `Field` / `field` helper / a class of the module × kind, in front
    of members whose defaults are written as expressions; quick: every (kind, name) once with all victims
    + a drawn option, thorough: × form × position × each option."""
    rng = ck.rng.fork("capture")
    kinds = [k for k in c05.KINDS if k != "typing.TypedDict"]
    allv = ["listE", "listN", "dictE", "dictN", "strC", "alias", "enum", "model", "int", "nodefault"]
    out = []
    for kind in kinds:
        for name in BASE_NAMES + OWN_NAMES:
            out.append({"kind": kind, "name": name, "victims": allv, "opts": {}})
            if quick:
                o = rng.choice(CAPTURE_OPTS[:6])
                out.append({"kind": kind, "name": name, "victims": allv, "opts": {o: True, **({"field_constraints": True} if o == "use_annotated" else {})}, "form": rng.choice(CAP_FORMS[:2]),
                            "dialect": rng.choice(["js", "oa"])})
                continue
            for form in CAP_FORMS:
                for pos in ("before", "after"):
                    for o in CAPTURE_OPTS:
                        opts = {o: True, **({"field_constraints": True} if o == "use_annotated" else {})}
                        out.append({"kind": kind, "name": name, "victims": allv, "opts": opts, "form": form, "position": pos,
                                    "dialect": rng.choice(["js", "oa"])})
    out.append({"kind": "typing.TypedDict", "name": "list", "victims": allv, "opts": {}})
    return out


def campaign(ck: Check, quick: bool) -> None:
    camp = ck.campaign("name capture in the class body: a non-required member NAMED like a builtin (list, dict, set, str, int) / the Field / field helper / "
                       "a class of the module, declared before members whose default is written as an expression; oracle: omit every non-required member and read it")
    run_batch(ck, camp, stratum(ck, quick))


# ---------------------------------------------------------------- model tie: Model.FieldReads.reads vs the real member line
def campaign_reads(ck: Check, n: int) -> None:
    """correspondence: the names that the default expression of the member rendered by the MODEL reads while the class body
    runs (Lean: Dcg.Model.FieldReads.reads, driver `field.reads`) vs the names `ast` finds in the member line the real
    generate() emitted (lambda bodies excluded), on the corpus + a stratified sample of the scalar / array / dict space"""
    camp = ck.campaign("default expression reads: Model.FieldReads.reads (driver field.reads) vs the bare names the default expression of the "
                       "member line emitted by the real generate() reads while the class body runs (ast, lambda bodies excluded)")
    t0 = time.time()
    vs = [v for v in c05.corpus() + c05.stratified(ck, n) if not (c05.is_union(v) or c05.is_ref(v) or c05.relist_of(v))]
    reqs = [c05.driver_request(v).replace("field.render ", "field.reads ", 1) for v in vs]
    replies = ck.driver.run(reqs)
    for v, r, rep in zip(vs, c05.run_vectors(vs), replies):
        camp.evaluations += 1
        if "error" in r or not rep.startswith("ok "):
            camp.hit("generator_error" if "error" in r else "model-rejects")
            continue
        model = [] if rep[3:].strip() == "-" else rep[3:].strip().split(",")
        real, _ = free_names_of_line(r["line"])
        key = c05.vec_key(v)
        camp.distinct.add(key)
        camp.hit("reads:" + (",".join(real) or "nothing"))
        if model != real:
            ck.disagree(camp, {"vector": v, "key": key, "member": r.get("member"), "line": r["line"]}, model, real)
        elif len(camp.samples) < 3 and real:
            camp.samples.append({"key": key, "line": r["line"], "reads": real})
    camp.wall_s = time.time() - t0


# ---------------------------------------------------------------- targeted search (a rendering disagreement about a default expression)
def cases_from_disagreements(ck: Check, limit: int = 60) -> list[dict]:
    """For every stage-2 (rendering) disagreement whose real member line has a default expression:
    the free names of that expression, and for each free name documents in which an earlier non-required
    member of the same object is NAMED like it — all five kinds, the member schema and the options of
    the disagreeing vector."""
    seen: set = set()
    out: list[dict] = []
    for d in ck.disagreements:
        inp = d.input if isinstance(d.input, dict) else {}
        line, v = inp.get("line"), inp.get("vector")
        if not line or not isinstance(v, dict) or " = " not in line:
            continue
        eager, every = free_names_of_line(line)
        if not every:
            continue
        v = c05.norm_vec(v)
        if c05.is_ref(v) or c05.relist_of(v):
            continue
        try:
            member = c05.realise(v)["member"]
        except Exception:  # noqa: BLE001
            continue
        sig = (tuple(every), json.dumps(member, sort_keys=True), v["inreq"])
        if sig in seen:
            continue
        seen.add(sig)
        # strip_default_none takes the ` = None` of the capturer away (nothing is bound, and the omission it breaks is the
        # known finding of the vector campaigns): not part of these documents
        opts = {o: True for o in c05.opts_of(v) if o != "strip_default_none"}
        jn = c05.JSON_NAME[v["name"]]
        for name in eager + [n for n in every if n not in eager]:
            if name == jn:
                continue
            for kind in [v["kind"]] + [k for k in c05.KINDS if k != v["kind"]]:
                for form in ("nodefault", "strdefault"):
                    # the member as a NON-required one first (that is what the omission clause speaks about), then as listed
                    for inreq in ([False, True] if v["inreq"] else [False]):
                        out.append({"kind": kind, "name": name, "victims": [], "extra": [jn, member, inreq], "opts": opts,
                                    "form": form, "dialect": "oa" if v["nullsrc"].startswith("oa") else "js"})
        if len(seen) >= limit:
            break
    return out


def search(ck: Check) -> None:
    cases = cases_from_disagreements(ck)
    if not cases:
        return
    camp = ck.campaign("search (name capture): a member named like each free name of the disagreeing default expression, before the member, every kind")
    for i in range(0, len(cases), 120):
        run_batch(ck, camp, cases[i : i + 120])
        if ck.failures:
            return


# ---------------------------------------------------------------- known findings, replay
def witness_reproduces(ck: Check, f: dict) -> bool:
    from ..runner import match_finding

    c = norm_case(f["witness"]["capture_case"])
    res = run_case(c)
    probe = Check(ck.prop, ck.tier)
    probe.findings = []
    fails = evaluate_case(probe, probe.campaign("probe"), c, res, record=False)
    return any(match_finding([f], cl) is not None for cl in fails)


def replay_case(ck: Check, c: dict) -> int:
    c = norm_case(c)
    res = run_case(c)
    print("case:", case_key(c))
    print("document:", json.dumps(res.get("document")))
    if "error" in res:
        print("REPLAY-FAILS: generation:", res["error"])
        return 1
    print(res["code"])
    evaluate_case(ck, ck.campaign("replay"), c, res)
    for f in ck.failures:
        print("REPLAY-FAILS:", json.dumps(f.classification), f.observed[:300])
    for k, n in ck.known_hits.items():
        print(f"replay: {n} failure(s) on this input match known finding {k}")
    if not ck.failures:
        print("replay: the oracle does not fail on this input" + (" beyond known findings" if ck.known_hits else ""))
    return 1 if ck.failures else 0
