"""Shared by C07 and C09: the family "enum member names through EVERY caller of the enum resolver".

An `enum` keyword reaches `EnumFieldNameResolver` through two functions (see vlib/translate/enum_sites.py):
`JsonSchemaParser.parse_enum` — called for an inline property (`parse_item`), for a named definition reached by
`$ref` (`parse_obj`), for array items, for the root schema of a document, for OpenAPI `components.schemas`
(inherited) and for the schemas under OpenAPI `paths` (parameters, responses: `parse_schema`) — and
`GraphQLParser.parse_enum` for a GraphQL enum type. `build()` writes the same enum into each of these POSITIONS.

The value vocabulary concentrates on names that SANITISE to something reserved: for every reserved target
(`mro`, keywords, the attributes `name` / `value`, `_sunder_` names of `enum.Enum`, dunder names, `__private`)
its spellings that only become the target after the resolver's own rewriting (upper case / capitalised under
snake-case or capitalise, leading underscores under remove-special-field-name-prefix, a leading `#`, …).

`names_case()` is the member-name oracle (C07's statement for enum values, end to end): the module imports and
the Enum class has ONE member per listed value, under a legal public identifier. C09 has its own, stronger oracle
(values with JSON type, defaults, Literal mode) and uses `build()` / the vocabulary from here.
"""
from __future__ import annotations

import dataclasses
import enum as pyenum
import json
import keyword
import re
from typing import Any

from .. import e2e
from ..common import Rng
from ..runner import Check
from .c07 import Cfg, parser_kwargs, yaml_safe_json

# ---------------------------------------------------------------- positions
JSON_POSITIONS = ["property", "definition", "items", "root", "openapi", "openapi_def", "openapi_paths"]
POSITIONS = [*JSON_POSITIONS, "graphql"]
# which function of the generator receives the enum keyword
CALLER = {
    "property": "JsonSchemaParser.parse_enum via parse_item",
    "definition": "JsonSchemaParser.parse_enum via parse_obj ($ref to a named definition)",
    "items": "JsonSchemaParser.parse_enum via parse_item (array items)",
    "root": "JsonSchemaParser.parse_enum via parse_obj (root schema)",
    "openapi": "OpenAPIParser (inherited parse_enum), property of a component schema",
    "openapi_def": "OpenAPIParser (inherited parse_enum), component schema reached by $ref",
    "openapi_paths": "OpenAPIParser.parse_schema (query parameter and response schema under paths)",
    "graphql": "GraphQLParser.parse_enum",
}
GRAPHQL_NAME = re.compile(r"^[_A-Za-z][_0-9A-Za-z]*$")


@dataclasses.dataclass
class Built:
    source: str
    input_file_type: str
    opts: dict
    holder: str | None  # class whose member `e` is annotated with the enum (None: there is no such class)
    n_enums: int  # Enum classes the document asks for (each with exactly the listed values)


def graphql_compatible(ty: Any, values: list, varnames: list | None) -> bool:
    """a GraphQL enum type: distinct names `[_A-Za-z][_0-9A-Za-z]*` other than true / false / null"""
    return (ty == "string" and not varnames and bool(values) and len(set(values)) == len(values)
            and all(isinstance(v, str) and GRAPHQL_NAME.match(v) and v not in ("true", "false", "null") for v in values))


def build(position: str, schema: dict) -> Built:
    """the document that has the enum schema `schema` at `position`"""
    oa = {"openapi": "3.0.0", "info": {"title": "t", "version": "1"}, "paths": {}}
    if position == "property":
        return Built(yaml_safe_json({"title": "M", "type": "object", "properties": {"e": schema}}), "jsonschema", {}, "M", 1)
    if position == "definition":
        doc = {"title": "M", "type": "object", "properties": {"e": {"$ref": "#/definitions/E"}}, "definitions": {"E": schema}}
        return Built(yaml_safe_json(doc), "jsonschema", {}, "M", 1)
    if position == "items":
        doc = {"title": "M", "type": "object", "properties": {"e": {"type": "array", "items": schema}}}
        return Built(yaml_safe_json(doc), "jsonschema", {}, "M", 1)
    if position == "root":
        return Built(yaml_safe_json({"title": "E", **schema}), "jsonschema", {}, None, 1)
    if position == "openapi":
        doc = {**oa, "components": {"schemas": {"M": {"type": "object", "properties": {"e": schema}}}}}
        return Built(yaml_safe_json(doc), "openapi", {}, "M", 1)
    if position == "openapi_def":
        doc = {**oa, "components": {"schemas": {"E": schema, "M": {"type": "object", "properties": {"e": {"$ref": "#/components/schemas/E"}}}}}}
        return Built(yaml_safe_json(doc), "openapi", {}, "M", 1)
    if position == "openapi_paths":
        from datamodel_code_generator import OpenAPIScope

        op = {"operationId": "getM", "parameters": [{"name": "e", "in": "query", "schema": schema}],
              "responses": {"200": {"description": "ok", "content": {"application/json": {"schema": schema}}}}}
        doc = {**oa, "paths": {"/x": {"get": op}}}
        return Built(yaml_safe_json(doc), "openapi", {"openapi_scopes": [OpenAPIScope.Paths, OpenAPIScope.Parameters]}, None, 2)
    if position == "graphql":
        vals = schema["enum"]
        text = "enum E {\n" + "".join(f"  {v}\n" for v in vals) + "}\n\ntype M {\n  id: String\n  e: E\n}\n"
        return Built(text, "graphql", {}, "M", 1)
    raise ValueError(position)


# ---------------------------------------------------------------- vocabulary: values that sanitise to reserved names
RESERVED_TARGETS = [
    "mro", "name", "value", "names", "values",
    "class", "def", "None", "True", "import", "is", "in", "lambda", "from", "match", "type",
    "_missing_", "_generate_next_value_", "_ignore_", "_order_", "_value_", "_name_", "_default_", "_sunder_",
    "_member_map_", "_member_names_", "_value2member_map_", "_use_args_", "_numeric_repr_",
    "__init__", "__class__", "__members__", "__module__", "__doc__", "__dict__", "__all__", "__new__", "__slots__",
    "__hash__", "__eq__", "__private", "__x", "_hidden", "_1", "_", "__", "___",
]


def spellings(t: str) -> list[str]:
    """strings the sanitiser may turn into `t` (or into a near miss of it) under some option vector"""
    core = t.strip("_")
    out = [t, t.upper(), t.capitalize(), t.title(), t.swapcase(), "_" + t, "__" + t, t + "_", "#" + t, "#_" + t, " " + t,
           t + " ", "-" + t, t.replace("_", "-"), t.replace("_", " "), t.replace("_", "__")]
    if core:
        out += [core[0].upper() + core[1:], "_" + core.upper() + "_", "_" + core.capitalize() + "_", "__" + core + "__",
                "_" + core + "_", "__" + core, core + "__", "".join(w.capitalize() for w in core.split("_")),
                core.split("_")[0] + "".join(w.capitalize() for w in core.split("_")[1:])]
    return list(dict.fromkeys(s for s in out if s))


def gen_reserved_values(rng: Rng, n: int, graphql: bool = False) -> list[str]:
    """n distinct values: mostly spellings of one or two reserved targets (so that several of them sanitise to the
    same name), some ordinary neighbours"""
    # the public attribute, keywords and the Enum hooks are what a member name can actually collide with: half of the weight
    first = rng.choice(["mro", "mro", rng.choice(keyword.kwlist), rng.choice(RESERVED_TARGETS[16:29])]) if rng.chance(1, 2) else rng.choice(RESERVED_TARGETS)
    targets = [first, rng.choice(RESERVED_TARGETS)]
    pool: list[str] = []
    for t in targets:
        pool += spellings(t)
    pool += ["a", "A", "a_b", "aB", "x1", "LINEAR", "C3"]
    if graphql:
        pool = [s for s in pool if GRAPHQL_NAME.match(s) and s not in ("true", "false", "null")]
    pool = list(dict.fromkeys(pool))
    return rng.sample(pool, min(n, len(pool)))


# the option vectors that make the sanitiser fold different spellings together
ENUM_NAME_CFGS = [
    Cfg(),
    Cfg(snake=True),
    Cfg(remove=True),
    Cfg(cap=True),
    Cfg(snake=True, remove=True),
    Cfg(cap=True, remove=True),
    Cfg(cap=True, snake=True),
    Cfg(pfx="m"),
    Cfg(pfx="m", remove=True, snake=True),
    Cfg(empty="empty"),
]


# ---------------------------------------------------------------- the member-name oracle (C07 for enum values)
def names_case(ck: Check, camp, values: list[str], cfg: Cfg, model: str, position: str, opts: dict | None = None) -> None:
    """string enum → document with the enum at `position` → real generate() → import → one member per value, legal names"""
    camp.evaluations += 1
    camp.hit("position:" + position)
    camp.hit("kind:" + model)
    inp = {"enum_values": values, "position": position, "cfg": cfg.label(), "cfg_fields": dataclasses.asdict(cfg), "model": model,
           "opts": opts or {}}
    base = {"oracle": "e2e_enum_member", "kind": model, "position": position, "prefix_ok": cfg.prefix_ok(), "trigger": "none"}
    built = build(position, {"type": "string", "enum": values})
    res = e2e.run_generate(built.source, input_file_type=built.input_file_type, model=model,
                           opts={**parser_kwargs(cfg), **built.opts, **(opts or {})}, timeout=10.0)
    if res.hang:
        ck.fail({**base, "mechanism": "hang"}, inp, "generate() did not return within 10 s")
        return
    if not res.ok:
        if res.error_type in ("ScannerError", "ReaderError", "ParserError", "ConstructorError"):
            camp.hit("reported_error:yaml")
            return
        ck.fail({**base, "mechanism": "generate_error"}, inp, f"generate() raised {res.error_type}: {res.error_msg}")
        return
    err = e2e.parses(res.code)
    if err:
        ck.fail({**base, "mechanism": "unparsable"}, inp, f"emitted module does not parse: {err}")
        return
    from . import c07

    if c07.nfkc_unstable(res.code, []):
        base["trigger"] = "nfkc"  # known finding D21: two member names that are one identifier after NFKC normalisation
        camp.hit("trigger:nfkc")
    if not cfg.prefix_ok():
        camp.hit("prefix_not_ok:terminates_and_parses_only")
        return
    if model == "msgspec.Struct":
        members = static_enum_members(res.code)
        camp.hit("static_only")
        for cls, names in members.items():
            check_names(ck, base, inp, cls, names, len(values))
        if len(members) != built.n_enums:
            ck.fail({**base, "mechanism": "member_count"}, inp, f"{len(members)} Enum classes emitted, {built.n_enums} enum keywords")
        return
    try:
        mod = e2e.load_module(res.code, model)
    except BaseException as e:  # noqa: BLE001
        if isinstance(e, (KeyboardInterrupt, SystemExit)):
            raise
        cl = {**base, "mechanism": "import_error", "error": type(e).__name__}
        if (cl["trigger"] == "none" and model == "pydantic_v2.BaseModel" and cfg.snake and cfg.cap
                and ((isinstance(e, TypeError) and "already defined" in str(e)) or (isinstance(e, ValueError) and "'mro'" in str(e)))):
            # known finding C07-ENUM-V2-RELOWER (C09-F2 / C09-F7): Parser.__change_field_name lower-cases the capitalised members again
            cl["trigger"] = "v2_snake_after_capitalise"
        ck.fail(cl, inp, f"importing the emitted module raised {type(e).__name__}: {str(e)[:200]}")
        return
    try:
        enums = [c for c in vars(mod).values() if isinstance(c, type) and issubclass(c, pyenum.Enum) and c.__module__ == mod.__name__]
        if model == "typing.TypedDict" and position != "graphql" and len(enums) < built.n_enums:
            # TypedDict output of a JSON Schema / OpenAPI document writes enums as Literal types: no member names (C09 checks the values)
            camp.hit("typeddict:literal_instead_of_enum")
            if not enums:
                return
        elif len(enums) != built.n_enums:
            ck.fail({**base, "mechanism": "member_count"}, inp, f"{len(enums)} Enum classes emitted, {built.n_enums} enum keywords")
            return
        camp.distinct.add(json.dumps(inp, sort_keys=True, default=str))
        for E in enums:
            names = list(E.__members__)
            check_names(ck, base, inp, E.__name__, names, len(values))
            got = sorted(repr(m.value) for m in E)
            if got != sorted(repr(v) for v in values):
                ck.fail({**base, "mechanism": "member_count"}, inp,
                        f"the members of {E.__name__} hold {got!r}; the enum lists {sorted(repr(v) for v in values)!r}")
        if len(camp.samples) < 3 and enums and any(n not in values for n in enums[0].__members__):
            camp.samples.append({**inp, "members": {k: v.value for k, v in enums[0].__members__.items()}})
    finally:
        e2e.unload(mod)


def enum_reserved(nm: str) -> bool:
    """names that cannot be (ordinary) members of an Enum class: attributes of enum.Enum (`mro`, the hooks), `_sunder_` names
    (reserved: ValueError), `__dunder__` names (plain class attributes, not members) and `__private` names (name-mangled)"""
    if nm.startswith("__") or (len(nm) > 2 and nm.startswith("_") and nm.endswith("_")):
        return True
    try:
        return hasattr(pyenum.Enum, nm)
    except Exception:  # noqa: BLE001
        return False


def check_names(ck: Check, base: dict, inp: dict, cls: str, names: list[str], n_values: int) -> None:
    if len(names) != n_values or len(set(names)) != len(names):
        ck.fail({**base, "mechanism": "member_count"}, inp, f"{n_values} enum values but class {cls} has the members {names!r}")
    for nm in names:
        if not nm.isidentifier() or keyword.iskeyword(nm):
            ck.fail({**base, "mechanism": "illegal_identifier"}, inp, f"member {nm!r} of {cls} is not a legal identifier")
        elif enum_reserved(nm):
            ck.fail({**base, "mechanism": "reserved"}, inp, f"member name {nm!r} of {cls} is reserved by enum.Enum (attribute, _sunder_, __dunder__ or __private name)")


def static_enum_members(code: str) -> dict[str, list[str]]:
    """msgspec is not installed: the names assigned in the body of every `class X(Enum)` of the syntax tree"""
    import ast

    out: dict[str, list[str]] = {}
    for node in ast.parse(code).body:
        if isinstance(node, ast.ClassDef) and any(getattr(b, "id", "") == "Enum" for b in node.bases):
            out[node.name] = [t.id for st in node.body if isinstance(st, ast.Assign) for t in st.targets if isinstance(t, ast.Name)]
    return out


def systematic_scope() -> list[tuple[list[str], Cfg, str, str]]:
    """the small systematic scope that every run covers: for the public attribute of Enum, a keyword, an Enum hook, a dunder, a
    private name and an Enum property — all spellings of the target in one enum × the four option vectors that fold
    spellings together × the two call sites (JSON Schema property, GraphQL), rotating over the executable kinds"""
    out = []
    kinds = e2e.EXECUTABLE_KINDS
    k = 0
    for target in ("mro", "class", "_missing_", "__init__", "__private", "name"):
        for cfg in (Cfg(), Cfg(snake=True), Cfg(remove=True), Cfg(cap=True)):
            for position in ("property", "graphql"):
                vals = [v for v in spellings(target) if position != "graphql" or (GRAPHQL_NAME.match(v) and v not in ("true", "false", "null"))]
                out.append((vals[:7], cfg, kinds[k % len(kinds)], position))
                k += 1
    return out


def campaign_names(ck: Check, n: int, label: str = "") -> None:
    camp = ck.campaign("e2e enum-member oracle through every caller of the enum resolver (property / definition / items / root / OpenAPI "
                       "components and paths / GraphQL): module imports, one member per value, legal public names" + label)
    import time

    t0 = time.time()
    rng = ck.rng.fork("enum-callers" + label)
    for values, cfg, model, position in systematic_scope():
        names_case(ck, camp, values, cfg, model, position)
    for i in range(n):
        position = rng.choice(POSITIONS) if rng.chance(2, 3) else "graphql"
        values = gen_reserved_values(rng, rng.range(2, 6), graphql=position == "graphql")
        if not values:
            continue
        cfg = rng.choice(ENUM_NAME_CFGS)
        names_case(ck, camp, values, cfg, e2e.MODEL_KINDS[i % len(e2e.MODEL_KINDS)], position)
    camp.wall_s = time.time() - t0


def search_names(ck: Check, names: list[str], cfgs: list[Cfg], budget_s: float = 45.0) -> None:
    """Targeted search: `names` (e.g. the names of disagreeing resolver calls) and the reserved vocabulary as enum
    values at every position, under the given option vectors and the family's, for the executable kinds —
    stops at the first oracle failure."""
    import time

    camp = ck.campaign("search: names of the disagreements and the reserved vocabulary as enum values at every caller of the enum resolver")
    t0 = time.time()
    cfgs = list(dict.fromkeys([*cfgs, *ENUM_NAME_CFGS]))
    groups: list[list[str]] = []
    names = list(dict.fromkeys(n for n in names if isinstance(n, str)))
    for k in range(0, len(names), 3):
        groups.append(names[k:k + 3])
    for t in RESERVED_TARGETS:
        groups.append(spellings(t)[:6])
    kinds = ["pydantic.BaseModel", "dataclasses.dataclass", "pydantic_v2.BaseModel", "typing.TypedDict"]
    for gi, group in enumerate(groups):
        for ci, cfg in enumerate(cfgs):
            if not cfg.prefix_ok():
                continue
            for position in ("property", "graphql") if (gi + ci) % 3 else POSITIONS:
                vals = [v for v in group if position != "graphql" or (GRAPHQL_NAME.match(v) and v not in ("true", "false", "null"))]
                vals = list(dict.fromkeys(vals))
                if not vals:
                    continue
                names_case(ck, camp, vals, cfg, kinds[(gi + ci) % len(kinds)], position)
                if ck.failures or time.time() - t0 > budget_s:
                    camp.wall_s = time.time() - t0
                    return
    camp.wall_s = time.time() - t0
