"""C19 — correspondence: the imports REAL field / model objects report vs the places the Lean tables know.

For every (model type, version) pair of `get_data_model_types` (3.13 included: no formatter is involved) seeded instances of the
selected field class are built — every Boolean field of the class drawn at random (so a flag added later, such as a read-only
marker, is exercised without being named here), seeded data types from the selected type manager, defaults, aliases,
constraints — and put into an instance of the selected data model (the parent decides TypedDict's NotRequired). Each import the
real `field.imports` / `model.imports` properties then report is looked up by the compiled Lean driver (`version.origin`):
where do the regenerated tables know it from for this selection (class-level import attribute, type map, enum model, pool of
IMPORT_* constants) and does the authored table provide it for the target. A standard-library import the tables do not know,
or one the target lacks, is a disagreement (on the unchanged tree: none) and starts the failing-input search.
"""
from __future__ import annotations

import time

from ..keyenc import key
from ..runner import Check
from ..translate import versions


def _bool_fields(cls) -> list[str]:
    mf = getattr(cls, "model_fields", None)
    if mf is not None:
        return sorted(n for n, f in mf.items() if "bool" in str(f.annotation))
    return sorted(n for n, f in cls.__fields__.items() if "bool" in str(f.outer_type_))


def build_case(rng, sel, ver) -> tuple[dict, list[tuple[str, str]] | str]:
    """(description of the seeded objects, sorted imports of the field and its model | error text)"""
    from datamodel_code_generator.reference import Reference
    from datamodel_code_generator.types import Types

    flags = rng.choice([{}, {}, {"use_standard_collections": True}, {"use_generic_container_types": True}])
    desc: dict = {"manager_flags": flags}
    try:
        dtm = sel.data_type_manager(python_version=ver, **flags)
        t = rng.choice(list(Types))
        dt = dtm.get_data_type(t)
        wrap = rng.choice(["plain", "plain", "list", "dict", "optional", "union"])
        if wrap == "list":
            dt = dtm.data_type(data_types=[dt], is_list=True)
        elif wrap == "dict":
            dt = dtm.data_type(data_types=[dt], is_dict=True)
        elif wrap == "optional":
            dt = dtm.data_type(data_types=[dt], is_optional=True)
        elif wrap == "union":
            dt = dtm.data_type(data_types=[dt, dtm.get_data_type(rng.choice(list(Types)))])
        field_cls = sel.field_model
        bools = {b: rng.chance(1, 2) for b in _bool_fields(field_cls)}
        kw: dict = dict(bools)
        if rng.chance(1, 3):
            kw["default"] = rng.choice(["d", 1, None, []])
        if rng.chance(1, 4):
            kw["alias"] = "al-ias"
        if rng.chance(1, 4):
            kw["extras"] = rng.choice([{"description": "about"}, {"deprecated": True}, {"readOnly": True, "writeOnly": True}, {"examples": [1]}])
        desc.update({"type": t.name, "wrap": wrap, "true_flags": sorted(b for b, v in bools.items() if v),
                     "other": sorted(k_ for k_ in kw if k_ not in bools)})
        f = field_cls(name="a", data_type=dt, **kw)
        with_parent = rng.chance(3, 4)
        desc["parent"] = with_parent
        imps = set()
        if with_parent:
            m = sel.data_model(reference=Reference(path="#/M", original_name="M", name="M"), fields=[f])
            imps.update((i.from_ or "", i.import_) for i in m.imports)
        imps.update((i.from_ or "", i.import_) for i in f.imports)
        return desc, sorted(i for i in imps if i[0])
    except Exception as ex:  # noqa: BLE001 - combinations of flags the class itself refuses
        return desc, "error:" + type(ex).__name__


def campaign_field_imports(ck: Check, per_pair: int) -> None:
    from datamodel_code_generator import DataModelType
    from datamodel_code_generator.format import PythonVersion
    from datamodel_code_generator.model import get_data_model_types

    from . import c19

    camp = ck.campaign("imports of real field / model objects (selected classes, every Boolean field seeded) vs the Lean tables: "
                       "origin known (class-level attribute / type map / pool) and available in the target (version.origin)")
    t0 = time.time()
    rng = ck.rng.fork("field-imports")
    cases = []
    for mt in DataModelType:
        for ver in PythonVersion:
            sel = get_data_model_types(mt, ver)
            for _ in range(per_pair):
                desc, imps = build_case(rng, sel, ver)
                cases.append((mt.value, versions.minor(ver.value), desc, imps))
    reqs, idx = [], []
    for ci, (kind, minor, desc, imps) in enumerate(cases):
        camp.evaluations += 1
        camp.hit(f"kind:{kind}")
        if isinstance(imps, str):
            camp.hit(imps)
            continue
        for fl in desc.get("true_flags", []):
            camp.hit("flag:" + fl)
        camp.hit("wrap:" + desc.get("wrap", "?"))
        camp.distinct.add((kind, minor, tuple(imps), tuple(desc.get("true_flags", []))))
        for m, n in imps:
            reqs.append(f"version.origin {key(kind)} {minor} {key(m)} {key(n)}")
            idx.append((ci, m, n))
    replies = ck.driver.run(reqs)
    reported: set = set()
    for (ci, m, n), rep in zip(idx, replies):
        kind, minor, desc, imps = cases[ci]
        parts = rep.split(" ")
        if len(parts) != 2:
            ck.disagree(camp, {"kind": kind, "minor": minor, "module": m, "name": n}, rep, "a known origin")
            continue
        where, ok = parts[0], parts[1] == "1"
        camp.hit("origin:" + where)
        if not c19.is_stdlib(m):
            continue
        if (where == "outside" or not ok) and (kind, minor, m, n) not in reported:
            reported.add((kind, minor, m, n))
            ck.disagree(camp, {"kind": kind, "minor": minor, "module": m, "name": n, "objects": desc},
                        f"{where}, {'available' if ok else 'NOT available'} in 3.{minor}", f"the real objects import {m}.{n}")
        elif len(camp.samples) < 3 and where == "classattr":
            camp.samples.append({"kind": kind, "target": f"3.{minor}", "objects": desc, "import": f"{m}.{n}", "origin": where, "available": ok})
    camp.wall_s = time.time() - t0
