"""C19 — custom file headers and the module's `from __future__ import annotations`.

The generator leaves `X | Y` in class-body annotations of dataclasses / class-syntax TypedDicts for targets < 3.10 only because
the module starts with the future import (the annotations stay strings). What is printed IN FRONT of the module — the file
header — decides whether that import is still the first statement, still there at all, or a SyntaxError. Family: header kinds
(none, comments, docstring, docstring + comments, docstring + code, code, a header with its own future import, not Python at
all) given as `custom_file_header` and as `custom_file_header_path`, x use_union_operator x every target x every model kind
(TypedDict in class and functional syntax through member names) x documents with optional / nullable / multi-type members.
Oracle: c19.oracle_module (the property's own), unchanged.
"""
from __future__ import annotations

import ast
import json
import os
import shutil
import tempfile
import time
from pathlib import Path

from .. import e2e
from ..runner import Check
from ..translate import versions

DOC = '"""Generated models of the service - do not edit by hand."""'
DOC_ML = '"""Models.\n\nGenerated; do not edit.\n"""'
HEADERS: dict[str, str | None] = {
    "none": None,
    "comment": "# generated - do not edit\n# ruff: noqa",
    "docstring": DOC,
    "docstring-single-quoted": "'models of the service'",
    "docstring-multiline": DOC_ML,
    "docstring+comments": "# pylint: disable=all\n" + DOC + "\n# fmt: off",
    "comments+docstring+blank": "#!/usr/bin/env python\n# -*- coding: utf-8 -*-\n\n" + DOC_ML + "\n\n",
    "docstring+code": DOC + "\nimport os",
    "docstring+all": DOC_ML + '\n__all__ = ["Item"]',
    "code": "import os",
    "code-decorated": "import functools\n@functools.lru_cache\ndef helper():\n    return 1",
    "future-only": "from __future__ import annotations",
    "docstring+future": DOC + "\nfrom __future__ import annotations",
    "future+code": "from __future__ import annotations\nimport os",
    "not-python": "Copyright (c) the authors; all rights reserved",
}


def header_class(text: str | None) -> dict:
    """what the header consists of, read with `ast` (independent of the generator): part of every failure's classification"""
    if text is None:
        return {"header": "none", "header_has_code": False, "header_has_docstring": False, "header_has_future": False}
    try:
        body = ast.parse(text).body
    except SyntaxError:
        return {"header": "not-python", "header_has_code": False, "header_has_docstring": False, "header_has_future": False}
    doc = bool(body) and isinstance(body[0], ast.Expr) and isinstance(body[0].value, ast.Constant) and isinstance(body[0].value.value, str)
    rest = body[1:] if doc else body
    fut = [s for s in rest if isinstance(s, ast.ImportFrom) and s.module == "__future__"]
    code = [s for s in rest if s not in fut]
    name = "+".join(x for x, on in (("docstring", doc), ("future", bool(fut)), ("code", bool(code))) if on) or "comments-only"
    return {"header": name, "header_has_code": bool(code), "header_has_docstring": doc, "header_has_future": bool(fut)}


def _member(rng, i: int) -> tuple[str, dict, bool]:
    """(name, schema, required): optional / nullable / multi-type members, some with names that are no identifiers
    (TypedDict output then uses the functional syntax)"""
    shape = rng.choice(["optional", "nullable", "multi", "nullable-array", "array-of-nullable", "ref-optional", "plain", "anyof", "oneof-null"])
    name = rng.choice(["note", "size", "tags", "owner", "count", "label", "a-b", "x y", "class", "kind"]) + (str(i) if rng.chance(1, 2) else "")
    t1 = rng.choice(["string", "integer", "number", "boolean"])
    t2 = rng.choice([t for t in ["string", "integer", "number", "boolean"] if t != t1])
    sch = {
        "optional": {"type": t1},
        "nullable": {"type": [t1, "null"]},
        "multi": {"type": [t1, t2]},
        "nullable-array": {"type": ["array", "null"], "items": {"type": t1}},
        "array-of-nullable": {"type": "array", "items": {"type": [t1, "null"]}},
        "ref-optional": {"$ref": "#/definitions/Owner"},
        "plain": {"type": t1},
        "anyof": {"anyOf": [{"type": t1}, {"type": t2}]},
        "oneof-null": {"oneOf": [{"type": t1}, {"type": "null"}]},
    }[shape]
    return name, sch, shape == "plain" or rng.chance(1, 4)


def document(rng) -> dict:
    props, req = {"id": {"type": "integer"}}, ["id"]
    for i in range(rng.range(1, 5)):
        n, s, r = _member(rng, i)
        props[n] = s
        if r:
            req.append(n)
    doc = {"title": rng.choice(["Item", "Order", "Pet"]), "type": "object", "required": req, "properties": props}
    if any(isinstance(v, dict) and "$ref" in v for v in props.values()) or rng.chance(1, 3):
        doc["definitions"] = {"Owner": {"type": "object", "properties": {"name": {"type": ["string", "null"]}, "age": {"type": "integer"}}}}
    return doc


OPTS = [
    {"use_union_operator": True}, {"use_union_operator": True}, {"use_union_operator": True},
    {"use_union_operator": True, "use_standard_collections": True},
    {"use_union_operator": True, "strict_nullable": True},
    {"use_union_operator": True, "use_annotated": True, "field_constraints": True},
    {},
    {"use_standard_collections": True},
]


def run_case(inp: dict):
    """one generate() call with the header given as text or through a file"""
    from . import c19, c19_kw

    opts = c19_kw.prepared_opts(inp.get("opts", {}))
    tmp = None
    try:
        if inp.get("header_text") is not None:
            if inp.get("header_via") == "path":
                tmp = tempfile.mkdtemp(prefix="c19hdr-", dir=e2e.scratch_root())
                hp = Path(tmp) / "header.txt"
                hp.write_text(inp["header_text"], encoding="utf-8")
                opts["custom_file_header_path"] = hp
            else:
                opts["custom_file_header"] = inp["header_text"]
        res = e2e.run_generate(inp["doc"], input_file_type=inp.get("input_kind", "jsonschema"), model=inp["model"], opts=opts, target=f"3.{inp['minor']}")
    finally:
        if tmp:
            shutil.rmtree(tmp, ignore_errors=True)
    found = []
    if res.ok:
        for code in res.files.values():
            found += c19.oracle_module(code, inp["model"], inp["minor"])
    return res, found


def classification(cls: dict, inp: dict) -> dict:
    from . import c19

    return {**cls, "input_kind": inp.get("input_kind", "jsonschema"), "kind": inp["model"], "via": "generate", **c19.option_flags(inp.get("opts", {})),
            **header_class(inp.get("header_text")), "header_via": inp.get("header_via", "text")}


def still_fails(inp: dict, want: dict) -> bool:
    _, found = run_case(inp)
    return any(c.get("oracle") == want.get("oracle") and c.get("evaluated") == want.get("evaluated") for c, _ in found)


def shrink(inp: dict, want: dict) -> dict:
    cur = json.loads(json.dumps(inp))
    for k in sorted(cur.get("opts", {})):
        t = json.loads(json.dumps(cur))
        del t["opts"][k]
        if still_fails(t, want):
            cur = t
    if "definitions" in cur["doc"]:
        t = json.loads(json.dumps(cur))
        del t["doc"]["definitions"]
        t["doc"]["properties"] = {k: v for k, v in t["doc"]["properties"].items() if "$ref" not in v}
        t["doc"]["required"] = [r for r in t["doc"].get("required", []) if r in t["doc"]["properties"]]
        if still_fails(t, want):
            cur = t
    for name in sorted(cur["doc"].get("properties", {})):
        t = json.loads(json.dumps(cur))
        del t["doc"]["properties"][name]
        t["doc"]["required"] = [r for r in t["doc"].get("required", []) if r != name]
        if still_fails(t, want):
            cur = t
    if cur.get("header_via") == "path":
        t = {**cur, "header_via": "text"}
        if still_fails(t, want):
            cur = t
    return cur


def case(ck: Check, camp, inp: dict) -> None:
    camp.evaluations += 1
    hc = header_class(inp.get("header_text"))
    camp.hit(f"kind:{inp['model']}")
    camp.hit(f"target:3.{inp['minor']}")
    camp.hit(f"header:{hc['header']}")
    camp.hit(f"header-via:{inp.get('header_via', 'text')}")
    camp.hit("union-operator" if inp.get("opts", {}).get("use_union_operator") else "no-union-operator")
    res, found = run_case(inp)
    if res.hang:
        camp.hit("hang(C01)")
        return
    if not res.ok:
        camp.hit("reported_error:" + res.error_type + ":" + res.error_msg[:60])
        return
    if any(c.get("oracle") == "unparsable-in-every-version" for c, _ in found):
        camp.hit("unparsable-in-every-version(C01)")
        return
    code = res.code or next(iter(res.files.values()), "")
    try:
        tree = ast.parse(code)
        from . import c19

        eff, mis = c19.future_import_state(tree)
        camp.hit("module:future-import-misplaced" if mis is not None else "module:future-import-effective" if eff else "module:no-future-import")
        if any(isinstance(n, ast.BinOp) and isinstance(n.op, ast.BitOr) for n in ast.walk(tree)):
            camp.hit("module:has-pep604-union")
        if "TypedDict(" in code:
            camp.hit("typeddict:functional-syntax")
    except SyntaxError:
        pass
    camp.distinct.add((inp["model"], inp["minor"], inp.get("header_text"), inp.get("header_via"), json.dumps(inp.get("opts", {}), sort_keys=True),
                       hash(json.dumps(inp["doc"], sort_keys=True))))
    for cls, obs in found:
        full = classification(cls, inp)
        first = not ck.failures
        if ck.fail(full, {"kind": "header", **inp}, obs, f"only names and constructs available in Python 3.{inp['minor']}; a module that compiles") and first and ck.failures:
            ck.failures[0].input = {"kind": "header", **shrink(inp, cls)}
    if not found and len(camp.samples) < 3:
        camp.samples.append({"kind": inp["model"], "target": f"3.{inp['minor']}", "header": hc["header"], "via": inp.get("header_via", "text"),
                             "opts": inp.get("opts", {}), "first_lines": code.splitlines()[:4]})


def minors() -> list[int]:
    from datamodel_code_generator.format import PythonVersion, is_supported_in_black

    return [m for v, m in versions.versions() if is_supported_in_black(PythonVersion(v))]


def campaign_headers(ck: Check, rounds: int) -> None:
    camp = ck.campaign("e2e file headers: header kinds (none/comments/docstring/docstring+comments/docstring+code/code/own future import/not Python; "
                       "as text and as file) x use_union_operator x targets x model kinds x documents with optional/nullable/multi-type members "
                       "-> the property's oracle (future import effective and at the top; no evaluated X | Y below 3.10)")
    t0 = time.time()
    rng = ck.rng.fork("headers")
    ms = minors()
    names = list(HEADERS)
    from . import c19

    # kinds whose annotations stay strings under the future import first: a failure there has no other explanation
    kinds = sorted(e2e.MODEL_KINDS, key=lambda k: k in c19.RUNTIME_ANNOTATION_KINDS)
    for r in range(rounds):
        for kind in kinds:
            # every header kind with every model kind in each round; the target cycles so that every (header, kind, target)
            # triple is met within len(ms) rounds, the lowest target first
            for j, hn in enumerate(names):
                minor = sorted(ms)[(r + j) % len(ms)] if r else min(ms)
                inp = {"model": kind, "minor": minor, "input_kind": "jsonschema", "doc": document(rng), "opts": dict(rng.choice(OPTS) if r else OPTS[0]),
                       "header_text": HEADERS[hn], "header_via": "path" if HEADERS[hn] is not None and rng.chance(1, 3) else "text"}
                case(ck, camp, inp)
    camp.wall_s = time.time() - t0


def search_headers(ck: Check) -> None:
    """after a broken obligation / disagreement about the header handling: every header kind x kind x targets < 3.10 first"""
    camp = ck.campaign("search: file headers x kinds x targets, union operator on")
    rng = ck.rng.fork("search-headers")
    for minor in sorted(minors()):
        for hn, text in HEADERS.items():
            for kind in sorted(e2e.MODEL_KINDS, key=lambda k: k.startswith("pydantic")):
                for via in ("text", "path") if text is not None else ("text",):
                    case(ck, camp, {"model": kind, "minor": minor, "input_kind": "jsonschema", "doc": document(rng), "opts": {"use_union_operator": True},
                                    "header_text": text, "header_via": via})
                    if any(f.classification.get("header") is not None for f in ck.failures):
                        return


def rerun(ck: Check, camp, inp: dict) -> None:
    case(ck, camp, {k: v for k, v in inp.items() if k != "kind"})


# ---------------------------------------------------------------- model side: Gen/HeaderFlow + Model/Header vs the real generate()
PIECES = {"comment": "# a comment", "blank": "", "doc": '"""Text."""', "future": "from __future__ import annotations", "future2": "from __future__ import division",
          "import": "import os", "assign": '__all__ = ["Item"]', "string-later": "'not a docstring'"}


def header_items(text: str | None) -> list[int] | None:
    """the header as the model's items (0 docstring in first position, 1 future import, 2 any other statement); None = not Python"""
    if text is None:
        return []
    try:
        body = ast.parse(text).body
    except SyntaxError:
        return None
    out = []
    for i, st in enumerate(body):
        if i == 0 and isinstance(st, ast.Expr) and isinstance(st.value, ast.Constant) and isinstance(st.value.value, str):
            out.append(0)
        elif isinstance(st, ast.ImportFrom) and st.module == "__future__" and st.level == 0:
            out.append(1)
        else:
            out.append(2)
    return out


def composed_header(rng) -> str:
    return "\n".join(PIECES[rng.choice(list(PIECES))] for _ in range(rng.range(1, 4)))


def campaign_flow(ck: Check, n_random: int) -> None:
    """(1) translator completeness, by token count; (2) the model's module (Model/Header.emit on the translated print table) against
    the module the real generate() writes: is the future import effective / misplaced — for the catalogue of headers and composed ones"""
    from ..translate import headerflow
    from . import c19

    camp = ck.campaign("header flow: Gen/HeaderFlow complete (token count) and Model/Header.emit on it == the real generate() on "
                       "`future import effective / misplaced`, header catalogue + composed headers (text and file)")
    t0 = time.time()
    rng = ck.rng.fork("header-flow")
    ps = headerflow.prints()
    camp.evaluations += 1
    if headerflow.print_tokens() != len(ps) + sum(1 for n in _all_prints_without_file() if n):
        ck.disagree(camp, {"what": "print calls of generate()"}, f"{len(ps)} translated", f"{headerflow.print_tokens()} `print(` tokens")
    for name in headerflow.flow_names():
        camp.evaluations += 1
        got = sum(1 for _, n, _, _ in headerflow.bindings() if n == name)
        want = headerflow.store_tokens(name)
        if got != want:
            ck.disagree(camp, {"what": f"bindings of `{name}` in generate()"}, f"{got} translated", f"{want} stores in the source")
    headers = [(hn, t) for hn, t in HEADERS.items()] + [(f"composed#{i}", composed_header(rng)) for i in range(n_random)]
    lowest = min(minors())
    doc = {"title": "Item", "type": "object", "properties": {"a": {"type": "integer"}, "b": {"type": ["string", "null"]}}}
    jobs = []
    for hn, text in headers:
        items = header_items(text)
        if items is None:
            camp.hit("header not Python: printed as it is, no prediction")
            continue
        for kind in ("dataclasses.dataclass", "pydantic_v2.BaseModel") if not hn.startswith("composed") else (rng.choice(e2e.MODEL_KINDS),):
            via = "path" if text is not None and rng.chance(1, 2) else "text"
            jobs.append((hn, text, items, kind, via))
    replies = ck.driver.run(["version.header" + "".join(f" {i}" for i in items) for _, _, items, _, _ in jobs])
    for (hn, text, items, kind, via), rep in zip(jobs, replies):
        camp.evaluations += 1
        camp.hit("items:" + ("".join("dfc"[i] for i in items) or "-"))
        inp = {"model": kind, "minor": lowest, "input_kind": "jsonschema", "doc": doc, "opts": {}, "header_text": text, "header_via": via}
        res, _ = run_case(inp)
        if not res.ok or not res.files:
            camp.hit("reported_error")
            continue
        code = next(iter(res.files.values()))
        try:
            eff, mis = c19.future_import_state(ast.parse(code))
        except SyntaxError:
            camp.hit("unparsable(C01)")
            continue
        real = f"{1 if eff else 0} {1 if mis is not None else 0}"
        camp.distinct.add((tuple(items), kind, via))
        camp.hit("effective" if eff else "misplaced" if mis is not None else "absent")
        if rep != real:
            ck.disagree(camp, {"header": text, "items": items, "kind": kind, "via": via}, f"model (effective misplaced): {rep}", f"generate(): {real}")
        elif len(camp.samples) < 3:
            camp.samples.append({"header": hn, "items": items, "kind": kind, "via": via, "effective misplaced": real})
    camp.wall_s = time.time() - t0


def _all_prints_without_file() -> list[bool]:
    """print calls of generate() that have no file= keyword (not in the table; counted by the token check)"""
    from ..translate import headerflow

    _, fn = headerflow._source()
    return [True for n in ast.walk(fn) if isinstance(n, ast.Call) and isinstance(n.func, ast.Name) and n.func.id == "print"
            and not any(kw.arg == "file" for kw in n.keywords)]
